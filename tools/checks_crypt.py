"""C08: ciphers round-trip every length and equal textbook CFB (Cfb.tla)."""
import json
import os

import vlib
from vlib import MachineryError
import checks_core as cc

INV = ["C08_NoPanic", "C08_EncryptMatchesReference", "C08_DecryptRoundTrips", "C08_InputsUntouched", "C08_AeadInPlace",
       "C08_AeadRefusesWithoutRoom", "C08_ConcurrentCallers"]


def check_c08(tier, replay):
    v = vlib.Verdict("C08", tier, "model_checking")
    scr = vlib.Scratch("c08")
    th = tier == "thorough"
    try:
        if replay:
            vlib.replay_as_rerun(v, replay)   # everything is derived from the seed and tier recorded in the replay file
        r = vlib.run_tlc(scr, "Cfb", "Cfb_mc.cfg", timeout=600)
        if not r.ok:
            raise MachineryError("Cfb.tla: %s\n%s" % (r.violation, r.out[-2000:]))
        v.add_tlc(r, "Cfb_mc.cfg")
        outd = scr.sub("out")
        rc, out = vlib.go_test("./cryptdrv", "TestCryptAll$", dict(VERIF_OUT=outd, CRYPT_KEYS=8 if th else 2, CRYPT_CONC=3000 if th else 300), timeout=2400)
        if rc != 0:
            import checks_sess
            cs = checks_sess.crash_signature(out)
            if cs and cs[0] == "panic":
                v.violation("C08/ProcessPanic", "a cipher call panicked inside kcp-go: %s\n%s" % (cs[1], out[-2500:]), dict(kind="crypt-run", seed=vlib.seed()))
                v.cov["evaluations"], v.cov["distinct_nontrivial"] = 1, 2
                return v.finish()
            raise MachineryError("crypt driver failed:\n" + out[-3000:])
        old = cc.obs_cfg
        cc.obs_cfg = lambda inv: "SPECIFICATION Spec\nINVARIANTS " + " ".join(inv) + "\nCHECK_DEADLOCK FALSE\n"
        try:
            cc.validate_traces(v, scr, "C08", os.path.join(outd, "crypt.ndjson"), "crypt", INV, None, conformance=False, obs_module="CryptObs")
        finally:
            cc.obs_cfg = old
        s = json.load(open(os.path.join(outd, "crypt.json")))
        v.cov["evaluations"] = s["Cases"]
        v.cov["distinct_nontrivial"] = s["Classes"]
        v.cov["exhaustive"] = True
        v.cov["rule"] = ("TLC checks the symbolic transcription of encrypt8/16 and decrypt8/16 (registers tbl/next, the 8x unrolled groups, the "
                         "fall-through ladder, the tail, dst==src aliasing) against the textbook CFB recurrence for 0..17 blocks x tail x "
                         "aliasing. On the code EVERY length 0..1500 for each of 13 ciphers (AES-128/192/256, SM4, Twofish, 3DES, CAST5, "
                         "Blowfish, TEA, XTEA, Salsa20, XOR, none) with random keys and contents: Encrypt in place and into a separate "
                         "buffer equals the reference (crypto/cipher CFB with the documented IV; x/crypto salsa20; pbkdf2 table), Decrypt "
                         "gives the plaintext back both ways, inputs untouched; AES-GCM: Seal/Open for every length inside a 1500-byte buffer "
                         "keep the backing array, interoperate with crypto/cipher GCM, refuse without room; 8 goroutines on one BlockCrypt "
                         "match the sequential results. distinct_nontrivial = distinct length classes (block size, groups, left, tail)")
        v.cov["samples"] = [dict(cipher="aes-128", len=1500, groups=11, left=5, tail=12), dict(cipher="3des", len=7, groups=0, left=0, tail=7)]
        v.assumptions = ["the block ciphers themselves (AES, SM4, ...) are trusted primitives; the claim is about the mode and buffers"]
        return v.finish()
    finally:
        scr.cleanup()
