"""C11: sessions on one socket are isolated; one Accept per new peer (Listener.tla / FrameRouting.tla)."""
import json
import os
import re
import shutil

import vlib
from vlib import MachineryError
import checks_core as cc

LT_CONST = '''CONSTANTS
  CK = "crc"
  Addrs = {"10.0.1.1:1", "10.0.1.2:2", "10.0.1.3:3"}
  Convs = {11, 22, 33}
  Backlog = 2
  MaxSess = 400
  Classes = {}
'''
OBS_INV = ["C11_OnlyOwnStream", "C11_NeverStalledOrClosed", "C11_OnlyOwnStream_FecStaleShardsOfPreviousConversation", "C11_ExactlyOneAccept"]
KNOWN = {"C11_OnlyOwnStream_FecStaleShardsOfPreviousConversation": "C11/OnlyOwnStream_FecStaleShardsOfPreviousConversation"}


def run_list(v, tests, env, timeout):
    """Runs a listener driver. A library panic / deadlock / leak kills the test process: that is behaviour of the code, reported
    with the stack; whatever was recorded before is still validated by the caller. Returns True when the driver finished."""
    rc, out = vlib.go_test("./listdrv", tests, env, timeout=timeout)
    if rc == 0:
        return True
    seedline = "seed=%s tests=%s env=%s" % (vlib.seed(), tests, json.dumps(env))
    if "panic: test timed out" in out:
        m = re.search(r"goroutine \d+ \[[^\]]*\]:\n(?:[^\n]+\n)*?github.com/xtaci/kcp-go/v5\.\(\*Listener\)\.(packetInput|monitor|defaultMonitor)[^\n]*\n(?:[^\n]+\n)*", out)
        blocked = re.search(r"goroutine \d+ \[(sync\.\w+\.\w+|semacquire)[^\]]*\]:\n(?:[^\n]+\n)*?github.com/xtaci/kcp-go/v5\.\(\*Listener\)\.packetInput", out)
        if blocked:
            i = blocked.start()
            v.violation("C11/ListenerBlocked", "the listener's receive goroutine is blocked on a lock inside packetInput and never returns "
                        "(every peer of the socket is stalled):\n%s\n%s" % (out[i:i + 1800], seedline), dict(kind="list-run", tests=tests, env=env, seed=vlib.seed()))
            return False
        raise MachineryError("listener driver timed out:\n" + out[-4000:])
    m = re.search(r"^panic: (.*)$", out, re.M)
    frames = re.findall(r"github.com/xtaci/kcp-go/v5\.[^\n(]*", out)
    if m and "deadlock: main bubble goroutine has exited" in out and frames:
        v.violation("C15/LeakAtBubbleEnd", "goroutines of a session that the listener created are still blocked when everything the "
                    "application got from Accept, the backlog, the listener and the transport have been closed (an orphan session): "
                    + ", ".join(sorted(set(frames))[:4]) + "\n" + seedline, dict(kind="list-run", tests=tests, env=env, seed=vlib.seed()))
        return False
    if m and frames:
        v.violation("C05/ProcessPanic", "the process panicked inside kcp-go: %s in %s\n%s\n%s" % (m.group(1)[:200], frames[0], seedline, out[-2500:]),
                    dict(kind="list-run", tests=tests, env=env, seed=vlib.seed()))
        return False
    raise MachineryError("listener driver failed:\n" + out[-4000:])


def sess_routing_stage(v, scr, prop, invariants, th=False):
    """Input routing of a session (FrameRouting!SessionEffect): crafted datagrams of every class at a real dialled session, three cipher
    kinds, with / without an out-of-band handler; TLC (SessionRouteTrace) judges the given monitors and reports exit-code drift."""
    outd = scr.sub("sessroute-out")
    rc, out = vlib.go_test("./listdrv", "TestSessionRouting$", dict(VERIF_OUT=outd, LIST_STEPS=600 if th else 150), timeout=900)
    if rc != 0:
        import checks_sess
        cs = checks_sess.crash_signature(out)
        if cs and cs[0] == "panic":
            v.violation("C05/ProcessPanic", "the process panicked inside kcp-go: %s\n%s" % (cs[1], out[-2500:]),
                        dict(kind="list-run", tests="TestSessionRouting$", seed=vlib.seed()))
            return
        raise MachineryError("session routing driver failed:\n" + out[-3000:])
    old = cc.obs_cfg
    cc.obs_cfg = lambda inv: "SPECIFICATION Spec\nINVARIANTS " + " ".join(inv) + "\nCHECK_DEADLOCK FALSE\n"
    try:
        tpath = os.path.join(outd, "sess_routing.ndjson")
        cc.validate_traces(v, scr, prop, tpath, "sess_routing", invariants, None, conformance=False, obs_module="SessionRouteTrace")
        # drift: the exact exit of every datagram
        tp = scr.path("trace.ndjson")
        import shutil
        shutil.copy(tpath, tp)
        cfgp = cc.write_cfg(scr, "sessroute_drift.cfg", "SPECIFICATION Spec\nINVARIANTS Drift_SessionExit\nCHECK_DEADLOCK FALSE\n")
        r = vlib.run_tlc(scr, "SessionRouteTrace", "sessroute_drift.cfg", workers=1, extra_files=[tp, cfgp], timeout=600)
        if not r.ok:
            if r.violation == "Drift_SessionExit":
                v.drift.append("sess_routing: exit of UDPSession.packetInput/kcpInput differs from FrameRouting!SessionEffect at line %s" % vlib.tlc_last_var(r, "l"))
            else:
                raise MachineryError("SessionRouteTrace could not be evaluated:\n" + r.out[-2500:])
    finally:
        cc.obs_cfg = old
    s = json.load(open(os.path.join(outd, "sess_routing.json")))
    v.cov["evaluations"] += s["Events"]
    v.cov["distinct_nontrivial"] += len(s["Kinds"])
    v.notes["session_routing_exit_kinds"] = s["Kinds"]


def check_c11(tier, replay):
    v = vlib.Verdict("C11", tier, "model_checking")
    scr = vlib.Scratch("c11")
    th = tier == "thorough"
    try:
        if replay:
            vlib.replay_as_rerun(v, replay)   # everything is derived from the seed and tier recorded in the replay file
        # 1. the design: routing table + backlog, every interleaving of packet classes / Accept / Close (2 addresses x 2 conversations)
        r = vlib.run_tlc(scr, "ListenerMC", "Listener_mc.cfg", timeout=1800)
        if not r.ok:
            raise MachineryError("Listener.tla: %s\n%s" % (r.violation, r.out[-2000:]))
        v.add_tlc(r, "Listener_mc.cfg")
        outd = scr.sub("out")
        # 2. code -> model: every crafted datagram class at a real listener, exits and Accept results against the model
        done1 = run_list(v, "TestListenerRouting$", dict(VERIF_OUT=outd, LIST_RUNS=200 if th else 40, LIST_STEPS=150), 900 if th else 300)
        if not os.path.exists(os.path.join(outd, "list_routing.ndjson")) or os.path.getsize(os.path.join(outd, "list_routing.ndjson")) == 0:
            if done1:
                raise MachineryError("routing driver wrote no trace")
            return v.finish()
        old = cc.obs_cfg
        cc.obs_cfg = lambda inv: "SPECIFICATION TraceSpec\n" + LT_CONST + "INVARIANTS " + " ".join(inv) + "\nCHECK_DEADLOCK FALSE\n"
        try:
            cc.validate_traces(v, scr, "C11", os.path.join(outd, "list_routing.ndjson"), "routing", ["C11_RoutingConforms"], None,
                               conformance=True, obs_module="ListenerTrace", trace_module="ListenerTrace", trace_cfg="ListenerTrace_drift.cfg")
        finally:
            cc.obs_cfg = old
        # 3. what applications observe: real clients, reconnects, backlog pressure, adversary; and the deterministic reconnect witness
        done2 = run_list(v, "TestStaleShardsAfterReconnect$|TestListenerIsolation$", dict(VERIF_OUT=outd, LIST_ISO_RUNS=400 if th else 60), 1800 if th else 600)
        cc.obs_cfg = lambda inv: "SPECIFICATION Spec\nINVARIANTS " + " ".join(inv) + "\nCHECK_DEADLOCK FALSE\n"
        try:
            for name in ("list_iso", "list_stale"):
                pth = os.path.join(outd, name + ".ndjson")
                if not done2 and (not os.path.exists(pth) or os.path.getsize(pth) == 0):
                    continue
                cc.validate_traces(v, scr, "C11", os.path.join(outd, name + ".ndjson"), name, OBS_INV, KNOWN, conformance=False, obs_module="ListObs")
        finally:
            cc.obs_cfg = old
        if not (done1 and done2):
            return v.finish()
        s1 = json.load(open(os.path.join(outd, "list_routing.json")))
        s2 = json.load(open(os.path.join(outd, "list_iso.json")))
        v.cov["evaluations"] = s1["Events"] + s2["Peers"] + s2["Injected"]
        v.cov["distinct_nontrivial"] = len(s1["Kinds"]) + s2["Peers"]
        v.cov["routing_exit_kinds"] = s1["Kinds"]
        v.cov["isolation"] = {k: s2[k] for k in ("Runs", "Peers", "Accepts", "Reconnects", "Injected", "AttackerSessions", "BytesChecked")}
        v.cov["rule"] = ("TLC explores every interleaving of datagram classes (length x integrity x FEC flag x first-segment) from 2 addresses x "
                         "2 conversation ids with Accept and application Close on Listener.tla (routing table, backlog 2) and checks Isolation, "
                         "TableConsistent, OneAcceptPerSession, BacklogBounded, ForeignNeverCloses. On the code: (a) crafted datagrams of every "
                         "class (valid integrity through the reference cipher) from 3 addresses x 3 conversations interleaved with Accept and "
                         "Close at a real listener with backlog 2 -- the exit of packetInput (hook l.in) and every Accept result must be what "
                         "the model computes from ITS table and backlog, datagram by datagram; (b) 2..5 real clients per run (distinct "
                         "contents both ways, 1..3 conversations per address with abort/reconnect, backlog 1..128, slow accept loop, loss, "
                         "delay, 5 cipher classes x 3 FEC classes) plus an adversary injecting forged segments of the clients' conversations "
                         "from attacker addresses, other-conversation datagrams from the clients' own addresses, stale replays, forged and "
                         "replayed datagrams at the dialled sessions from non-peer addresses, garbage -- every byte read on either side is "
                         "compared with what that peer wrote at that offset, every Accept is matched to a conversation. distinct_nontrivial = "
                         "distinct exit-code patterns + client conversations")
        v.cov["samples"] = [dict(kind="routing", exits=k, n=n) for k, n in list(s1["Kinds"].items())[:4]]
        v.assumptions = ["datagrams that spoof a client's own source address with valid integrity and start a conversation of their own are "
                         "outside the property (the adversary injects those only while the listener holds the client's session)",
                         "a delayed first segment (sn 0) of an old conversation is indistinguishable from a reconnect; runs let the network drain "
                         "between conversations of one address"]
        return v.finish()
    finally:
        scr.cleanup()
