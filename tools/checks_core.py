"""Core-level checks built on KcpCore.tla / KcpNet.tla: C01 C04 C12 C18 (and the core halves of C02 C03 C05 C10).

Pipeline per property (DESIGN.md section 1.1): MC (TLC, exhaustive on small instances) -> GEN (TLC -simulate
behaviours as JSON) -> REPLAY (real KCP objects, projection compared per step) + DRIVE (random runs beyond the
bounds) -> TV (TLC: KcpObs monitors decide the verdict, KcpCoreTrace reports drift)."""
import json
import os
import shutil

import vlib
from vlib import MachineryError, log

CFGS = {
    "stream": "CfgStream", "msg": "CfgMsg", "fast": "CfgFast", "fastcc": "CfgFastCC", "wnd1": "CfgWnd1", "mtu": "CfgMtuSmall",
}


def mc_cfg(cfgname, invariants, props=(), mod=0, writes="{40}", reads="{64}", ticks="{100}", maxbytes=40, drop=1, dup=1,
           maxnet=2, maxtime=500, writers="{1}", snoff="SnOff00", clk=0, drive="tick", forged="NoForged", spec="Spec",
           extra="", view=True, constraint=True, maxforge=0, heal=False, paused="NoPause"):
    s = "SPECIFICATION %s\nCONSTANTS\n" % spec
    s += "  Mod = %d\n  Cfg <- %s\n  WriteSizes = %s\n  ReadSizes = %s\n  Ticks = %s\n" % (mod, CFGS.get(cfgname, cfgname), writes, reads, ticks)
    s += "  MaxBytes = %d\n  MaxDrop = %d\n  MaxDup = %d\n  MaxNet = %d\n  MaxTime = %d\n  MaxForge = %d\n" % (maxbytes, drop, dup, maxnet, maxtime, maxforge)
    s += "  Writers = %s\n  SnOff <- %s\n  ClkOff = %d\n  Drive = \"%s\"\n  Forged <- %s\n" % (writers, snoff, clk, drive, forged)
    s += "  HealEnabled = %s\n  ReaderPaused <- %s\n" % ("TRUE" if heal else "FALSE", paused)
    s += extra
    if invariants:
        s += "INVARIANTS " + " ".join(invariants) + "\n"
    if props:
        s += "PROPERTIES " + " ".join(props) + "\n"
    if constraint:
        s += "CONSTRAINT NetBound\n"
    if view:
        s += "VIEW View\n"
    s += "CHECK_DEADLOCK FALSE\n"
    return s


def write_cfg(scr, name, text):
    d = scr.sub("cfg")
    p = os.path.join(d, name)
    with open(p, "w") as f:
        f.write(text)
    return p


def run_mc(scr, name, text, module="KcpNetMC", workers=None, extra=(), timeout=1800):
    p = write_cfg(scr, name, text)
    return vlib.run_tlc(scr, module, name, workers=workers, extra=extra, timeout=timeout, extra_files=[p])


def cex_to_behaviour(cexpath, src):
    d = json.load(open(cexpath))
    states = d["counterexample"]["state"]
    steps = []
    first = None
    for x in states:
        s = x[1] if isinstance(x, list) else x
        if first is None:
            first = s
            continue
        steps.append(dict(a=s["act"], s=dict(k=s["k"], net=s["net"], now=s["elapsed"], obs=s["obs"])))
    return steps


def mc_with_cex(v, scr, name, text, what, timeout=1800):
    """Run an MC config. A counterexample is replayed into the code and judged by the monitors on the real trace."""
    cexp = scr.path("cex-%s.json" % name)
    r = run_mc(scr, name, text, extra=("-dumpTrace", "json", cexp), timeout=timeout)
    if r.ok:
        v.add_tlc(r, name)
        return r, None
    if r.violation in ("error", None):
        raise MachineryError("%s: TLC error\n%s" % (name, r.out[-3000:]))
    v.add_tlc(r, name + " (counterexample: %s)" % r.violation)
    if not os.path.exists(cexp):
        raise MachineryError("%s: %s violated but no counterexample dump" % (name, r.violation))
    return r, cexp


def gen_behaviours(scr, outpath, simcfgs, num, depth, seed):
    """simcfgs: list of (label, cfg text, cfg-record-name). Appends behaviours as ndjson to outpath. Returns count."""
    n = 0
    with open(outpath, "a") as f:
        for i, (label, text) in enumerate(simcfgs):
            name = "sim_%s.cfg" % label
            p = write_cfg(scr, name, text)
            workers = 4
            per = max(1, num // workers)
            r = vlib.run_tlc(scr, "KcpNetSim", name, workers=workers,
                             extra=("-simulate", "num=%d" % per, "-depth", str(depth + 2), "-seed", str(seed * 1000 + i)),
                             timeout=1200, extra_files=[p])
            if not r.ok and r.violation not in (None,):
                # an invariant violated during simulation is handled like an MC counterexample by the caller
                raise MachineryError("simulation %s stopped: %s\n%s" % (label, r.violation, r.out[-2000:]))
            for b in vlib.iter_marked(r.outpath, "BEH"):
                b["src"] = label
                f.write(json.dumps(b) + "\n")
                n += 1
            shutil.rmtree(r.wd, ignore_errors=True)
    return n


def sim_cfg(cfgname, depth, forged="NoForged", writers="{1, 2}", drive="free", ticks="{10, 100, 200, 400}",
            writes="{1, 20, 40, 100}", reads="{16, 64, 200}", maxbytes=400, drop=4, dup=2, maxnet=6, maxtime=20000):
    return mc_cfg(cfgname, ["EmitBeh"], writes=writes, reads=reads, ticks=ticks, maxbytes=maxbytes, drop=drop, dup=dup,
                  maxnet=maxnet, maxtime=maxtime, writers=writers, drive=drive, forged=forged, spec="SimSpec",
                  maxforge=(0 if forged == "NoForged" else 12),
                  extra="  SimDepth = %d\n" % depth, view=False, constraint=False)


def obs_cfg(invariants):
    return "SPECIFICATION Spec\nCONSTANT Mod = 0\nINVARIANTS " + " ".join(invariants) + "\nCHECK_DEADLOCK FALSE\n"


def line_context(trace_path, lineno):
    """(meta of the trace containing 1-based line `lineno`, offset within it, the line, the actions up to it)."""
    meta, start, acts = None, 0, []
    with open(trace_path) as f:
        for i, ln in enumerate(f, 1):
            if '"ev":"reset"' in ln[:200] or ln.startswith('{"cfg"'):
                o = json.loads(ln)
                if o.get("ev") == "reset":
                    meta, start, acts = o, i, []
                    if i == lineno:
                        return meta, 0, o, acts
                    continue
            o = json.loads(ln)
            if o.get("ev") == "reset":
                meta, start, acts = o, i, []
            elif o.get("ev") == "op":
                a = dict(name=o.get("name"), e=o.get("e"), a=o.get("a"), b=o.get("b"), now=o.get("now"))
                if o.get("name") in ("Deliver", "Forge", "Input"):
                    a["in"] = o.get("in")
                if "pkt" in o:
                    a["pkt"] = o["pkt"]
                acts.append(a)
            if i == lineno:
                return meta, i - start, o, acts
    return meta, 0, None, acts


def count_lines(p):
    n = t = 0
    with open(p) as f:
        for ln in f:
            n += 1
            if '"ev":"reset"' in ln:
                t += 1
    return n, t


def validate_traces(v, scr, prop, trace_path, label, invariants, known_map=None, conformance=True, obs_module="KcpObs",
                    trace_module="KcpCoreTrace", trace_cfg="KcpCoreTrace.cfg"):
    """Monitors decide; conformance reports drift. Violations of an invariant listed in known_map are reported under
    that signature (known findings are matched by signature in vlib.Verdict)."""
    nlines, ntraces = count_lines(trace_path)
    if nlines == 0:
        raise MachineryError("empty trace %s" % label)
    tp = scr.path("trace.ndjson")
    shutil.copy(trace_path, tp)
    remaining = list(invariants)
    accepted = False
    only_known = True
    # the monitors are evaluated together; when one fails it is recorded and the run is repeated without it so that
    # a known finding never hides another violation
    while remaining:
        cfgp = write_cfg(scr, "obs_%s.cfg" % prop, obs_cfg(remaining))
        r = vlib.run_tlc(scr, obs_module, "obs_%s.cfg" % prop, workers=1, extra_files=[tp, cfgp], timeout=3000)
        if r.ok:
            if r.distinct != nlines + 1:
                raise MachineryError("%s consumed %d of %d lines of %s" % (obs_module, r.distinct - 1, nlines, label))
            accepted = True
            break
        if r.violation in ("error", None) or r.violation not in remaining:
            raise MachineryError("%s could not evaluate %s (%s):\n%s" % (obs_module, label, r.violation, r.out[-3000:]))
        l = vlib.tlc_last_var(r, "l")
        lineno = int(l) - 1 if l else 0
        meta, off, obj, acts = line_context(trace_path, lineno)
        sig = "%s/%s" % (prop, r.violation)
        if known_map and r.violation in known_map:
            sig = known_map[r.violation]
        if sig not in vlib.known_signatures(prop):
            only_known = False
        brief = json.dumps(obj)[:1500] if obj else ""
        desc = "monitor %s fails at %s line %d (trace %s, step %d): %s" % (r.violation, label, lineno, meta and meta.get("src"), off, brief)
        v.violation(sig, desc, dict(kind="core-actions", meta=meta, actions=acts))
        remaining.remove(r.violation)
    if accepted and only_known:
        v.cov["traces_validated_against_impl"] += ntraces
    v.notes["trace_lines"] = v.notes.get("trace_lines", 0) + nlines
    if conformance:
        r2 = vlib.run_tlc(scr, trace_module, trace_cfg, workers=1, extra_files=[tp], timeout=3000)
        if not r2.ok:
            if r2.violation in ("error", None):
                raise MachineryError("%s could not evaluate %s:\n%s" % (trace_module, label, r2.out[-3000:]))
            l = vlib.tlc_last_var(r2, "l")
            lineno = int(l) - 1 if l else 0
            meta, off, obj, acts = line_context(trace_path, lineno)
            diff = ""
            for ln in r2.out.splitlines():
                if ln.startswith('<< "DIFF"') or ln.startswith('<<"DIFF"'):
                    diff = ln[:600]
                    break
            v.drift.append("%s: %s at line %d (trace %s step %d, action %s) %s" % (
                label, r2.violation, lineno, meta and meta.get("src"), off, obj and obj.get("name"), diff))
        else:
            v.notes["conformant_lines"] = v.notes.get("conformant_lines", 0) + nlines


def replay_cex_and_judge(v, scr, prop, cexp, cfgrec, invariants, known_map, what):
    """A counterexample found by TLC in the specification says nothing about kcp-go until it reproduces on the code."""
    steps = cex_to_behaviour(cexp, what)
    ind, outd = scr.sub("cex-in"), scr.sub("cex-out")
    beh = dict(cfg=cfgrec, snoff=[0, 0], clk=0, steps=steps, src="tlc-counterexample:" + what)
    with open(os.path.join(ind, "core_behaviours.ndjson"), "w") as f:
        f.write(json.dumps(beh) + "\n")
    rc, out = vlib.go_test("./coredrv", "TestCoreReplay$", dict(VERIF_IN=ind, VERIF_OUT=outd, CORE_SETTLE=1), timeout=600)
    if rc != 0:
        raise MachineryError("counterexample replay failed to run:\n" + out[-3000:])
    before = len(v.violations) + len(v.known_hits)
    validate_traces(v, scr, prop, os.path.join(outd, "core_replay.ndjson"), "tlc-counterexample", invariants, known_map,
                    conformance=False)
    after = len(v.violations) + len(v.known_hits)
    if after == before:
        raise MachineryError("TLC counterexample for %s does not reproduce on the code (specification misrepresents it)" % what)


CFGRECS = {
    "msg": dict(mtu=56, sndwnd=2, rcvwnd=2, nodelay=0, interval=100, resend=0, nc=0, stream=0, acknodelay=0),
    "stream": dict(mtu=56, sndwnd=2, rcvwnd=2, nodelay=0, interval=100, resend=0, nc=0, stream=1, acknodelay=0),
    "fastcc": dict(mtu=56, sndwnd=3, rcvwnd=3, nodelay=1, interval=10, resend=2, nc=0, stream=1, acknodelay=1),
}


def go_core(scr, tests, env, timeout=2400):
    rc, out = vlib.go_test("./coredrv", tests, env, timeout=timeout)
    if rc != 0:
        raise MachineryError("core driver failed:\n" + out[-4000:])
    return out


def summarize(v, outd, names):
    ev = nt = 0
    for n in names:
        p = os.path.join(outd, n + ".json")
        if not os.path.exists(p):
            continue
        s = json.load(open(p))
        ev += s["Steps"]
        nt += s["Nontrivial"]
        for d in s.get("Drift") or []:
            v.drift.append(n + ": " + d)
        v.notes[n] = dict(behaviours=s["Behaviours"], steps=s["Steps"], acts=s["Acts"], kinds=s["Kinds"])
        for p_ in s.get("Panics") or []:
            v.notes.setdefault("panics", []).append(p_)
    v.cov["evaluations"] += ev
    v.cov["distinct_nontrivial"] += nt


def add_witnesses(bpath):
    """Append the stored goal-directed witnesses (spec/witness/core_witness.ndjson.gz, generated by TLC from
    KcpGoals.tla with tools/gen_witnesses.py) to the behaviours that are replayed into the code."""
    import gzip
    wp = os.path.join(vlib.SPEC, "witness", "core_witness.ndjson.gz")
    if not os.path.exists(wp):
        return dict(count=0)
    n, goals = 0, set()
    with gzip.open(wp, "rt") as f, open(bpath, "a") as out:
        for ln in f:
            b = json.loads(ln)
            goals.add(b.get("goal"))
            out.write(json.dumps(b) + "\n")
            n += 1
    return dict(count=n, goals=sorted(goals))


def boundary_scripts(path):
    """Hand-written boundary scripts for TestCoreScripts (boundaries that neither TLC's small instances nor the random drives reach).
    Family 'frag-count': a message of 254 / 255 / 256 / 257 fragments (the fragment counter is one byte: KCP.Send refuses more
    than 255 fragments with -2; PeekSize's 'frg + 1' is uint8 arithmetic), sent through a send window of 32 so that the message
    arrives in batches while the reader polls Recv."""
    scripts = []

    def rounds(n, interval):
        acts = []
        for _ in range(n):
            acts.append(dict(name="Flush", e=1))
            acts += [dict(name="DeliverAny")] * 40
            acts += [dict(name="Recv", e=2, a=70000)] * 3
            acts.append(dict(name="Flush", e=2))
            acts += [dict(name="DeliverAny")] * 40
            acts.append(dict(name="Recv", e=1, a=70000))
            acts.append(dict(name="Tick", a=interval))
        return acts
    for stream in (0, 1):
        for mss in (1, 3):
            for frags in (254, 255, 256, 257):
                for extra in (0, 1):
                    n = (frags - 1) * mss + (1 if extra else mss)   # exactly `frags` fragments; the last one short or full
                    cfg = dict(mtu=24 + mss, sndwnd=32, rcvwnd=300, nodelay=1, interval=10, resend=2, nc=1, stream=stream, acknodelay=0)
                    acts = [dict(name="Send", e=1, a=5), dict(name="Send", e=1, a=n), dict(name="Send", e=1, a=2)]
                    acts += rounds(14, 10)
                    scripts.append(dict(meta=dict(cfg=cfg, label="frag-count-%d%s" % (frags, "-stream" if stream else "")), actions=acts))
    # Family 'forged-frg': the fragment byte is not authenticated. A peer sends fragment trains whose frg bytes are inconsistent
    # (first byte smaller / larger than the distance to the next frg = 0, non-monotone, 255); they are accepted in order into
    # rcv_queue and the application reads with the raw-core idiom (a buffer of exactly PeekSize() bytes) and with a large buffer.
    # PeekSize and Recv must agree on where a message ends whatever the bytes say (no panic, no read past the buffer).
    def push(frg, ln):
        return dict(name="Forge", e=2, f=dict(cmd=81, frg=frg, wnd=32, dts=0, dsn=0, duna=0, len=ln, bad=0))
    trains = [(1, 1, 0), (0, 2, 1, 0), (2, 0, 1, 0), (3, 1, 0), (1, 2, 0), (255, 0), (2, 2, 2, 0), (1, 0, 1, 0), (4, 3, 2, 1), (2, 1, 0, 2, 1, 0)]
    for stream in (0, 1):
        for ti, train in enumerate(trains):
            for reader in ("RecvPeek", "Recv"):
                cfg = dict(mtu=124, sndwnd=32, rcvwnd=32, nodelay=1, interval=10, resend=2, nc=1, stream=stream, acknodelay=0)
                acts = []
                for k, frg in enumerate(train):
                    acts.append(push(frg, 10 + 7 * k))
                    if k % 2 == 1:
                        acts.append(dict(name=reader, e=2, a=70000))
                acts += [dict(name=reader, e=2, a=70000)] * (len(train) + 1)
                acts += [dict(name="Flush", e=2), dict(name="Tick", a=10)]
                scripts.append(dict(meta=dict(cfg=cfg, label="forged-frg-%d%s-%s" % (ti, "-stream" if stream else "", reader), forged=True), actions=acts))
    # Family 'probe-pack': one flush that has to reserve room three times in the same buffer -- k pending acknowledgements that
    # leave the buffer one header short of full (k = mtu/24 - 1), a window probe of its own (the peer's window has been zero for
    # longer than the probe wait) AND the answer to the peer's probe. Every size handed to the output callback must stay <= mtu.
    def seg(cmd, dsn=0, ln=0):
        return dict(name="Forge", e=1, f=dict(cmd=cmd, frg=0, wnd=0, dts=0, dsn=dsn, duna=0, len=ln, bad=0))
    for mtu in (56, 80, 100, 124, 150):
        per = mtu // 24
        for k in sorted({per - 1, per, 2 * per - 1, 1}):
            if k >= 2 * per:
                continue
            for order in (0, 1):
                cfg = dict(mtu=mtu, sndwnd=32, rcvwnd=32, nodelay=0, interval=100, resend=0, nc=1, stream=1, acknodelay=0)
                acts = [seg(84), dict(name="Flush", e=1), dict(name="Tick", a=520)]
                pushes = [seg(81, dsn=1 + i, ln=1) for i in range(k)]       # out of order (a hole in front): their acks are not filtered
                acts += (pushes + [seg(83)]) if order == 0 else ([seg(83)] + pushes)
                acts += [dict(name="Flush", e=1), dict(name="Tick", a=100), dict(name="Flush", e=1)]
                scripts.append(dict(meta=dict(cfg=cfg, label="probe-pack-%d-%d" % (mtu, k), forged=True), actions=acts))
    # Family 'zero-window': the sender over-estimates the receiver's window (a fresh sender assumes 32, the receiver has w < 32), a
    # burst of w+1 .. 2w segments arrives while the application is not reading: w fill the delivery queue, the rest waits out of
    # order behind it; every segment is acknowledged individually while the cumulative acknowledgement stops at w and the window
    # advertised is 0. Then the application drains the queue and the receiver's only unsolicited window update is LOST (with or
    # without everything else in flight). More data is written; the network heals (Settle): the sender's window probe must get
    # the transfer going again -- both drives.
    for w_ in (1, 2, 4):
        for burst in sorted({w_ + 1, 2 * w_}):
            for nodelay in (0, 1):
                for lose in ("wins", "all-then-wins"):
                    for upd in (0, 1):
                        mss = 32
                        cfg = dict(mtu=24 + mss, sndwnd=32, rcvwnd=w_, nodelay=nodelay, interval=10 if nodelay else 100, resend=0, nc=1, stream=1,
                                   acknodelay=0)
                        acts = [dict(name="Send", e=1, a=mss)] * burst + [dict(name="Flush", e=1)]
                        acts += [dict(name="DeliverAny")] * burst                     # all data arrives, nobody reads
                        acts += [dict(name="Flush", e=2)] + [dict(name="DeliverAny")] * (burst + 2)   # the acknowledgements (wnd = 0) arrive
                        if lose == "all-then-wins":
                            acts += [dict(name="Flush", e=1), dict(name="DropAll")]
                        acts += [dict(name="Recv", e=2, a=70000)] * (2 * burst + 2)   # the application drains: window re-opens
                        acts += [dict(name="Flush", e=2), dict(name="DropAll")]        # ... and the window update is lost
                        acts += [dict(name="Send", e=1, a=mss), dict(name="Send", e=1, a=mss // 2), dict(name="Settle", a=upd)]
                        scripts.append(dict(meta=dict(cfg=cfg, label="zero-window-%d-%d-%s" % (w_, burst, lose)), actions=acts))
    # Family 'recv-too-small': message mode, a message of 2..5 fragments has arrived completely; the application offers buffers that
    # are too small -- shorter than a fragment, exactly a fragment, between one and all fragments, one byte short -- and gets -2 every
    # time WITHOUT any effect; then a buffer that fits returns the whole message, followed by the next message.
    for frags in (2, 3, 5):
        for last in (1, 32):
            mss = 32
            total = (frags - 1) * mss + last
            cfg = dict(mtu=24 + mss, sndwnd=32, rcvwnd=32, nodelay=1, interval=10, resend=0, nc=1, stream=0, acknodelay=0)
            acts = [dict(name="Send", e=1, a=total), dict(name="Send", e=1, a=7), dict(name="Flush", e=1)] + [dict(name="DeliverAny")] * (frags + 1)
            for bl in sorted({1, mss - 1, mss, mss + 1, 2 * mss, total - mss, total - 1}):
                if 0 < bl < total:
                    acts.append(dict(name="Recv", e=2, a=bl))
            acts += [dict(name="Recv", e=2, a=total), dict(name="Recv", e=2, a=6), dict(name="Recv", e=2, a=7), dict(name="Settle", a=0)]
            scripts.append(dict(meta=dict(cfg=cfg, label="recv-too-small-%d-%d" % (frags, last)), actions=acts))
    # Family 'loss-and-fast': congestion control on. A segment is lost, retransmitted early / fast (its marker then excludes it from
    # further fast retransmission), and that retransmission is lost too; a later segment is lost as well and an acknowledgement for
    # a still later one arrives just when the first segment's retransmission timer expires: ONE flush declares a timeout loss and
    # makes a fast/early retransmission. The timeout must win (cwnd = 1): the next flush, with data waiting and the oldest segment
    # still unacknowledged, admits nothing.
    for resend in (2, 3):
        for nodelay in (0, 1):
            mss = 32
            cfg = dict(mtu=24 + mss, sndwnd=32, rcvwnd=32, nodelay=nodelay, interval=10, resend=resend, nc=0, stream=0, acknodelay=1)
            S, F, D, X = dict(name="Send", e=1, a=mss), dict(name="Flush", e=1), dict(name="DeliverAny"), dict(name="DropAny")
            minrto = 30 if nodelay else 100

            def T(ms):
                return dict(name="Tick", a=ms)
            acts = [S, F, F, D, D, T(100),              # sn0 sent and acknowledged (first RTT sample, cwnd 2)
                    S, S, F, X, D, D,                   # sn1 lost, sn2 delivered, its ack comes back: sn1 has been skipped once
                    T(10), F, X,                        # sn1 retransmitted early (its marker excludes it from now on) -- lost again
                    T(20), S, S, F, X, D,               # two more: sn3 lost, sn4 delivered; its ack stays in flight
                    T(minrto - 20), D, F,               # ... until sn1's timer has expired: timeout loss of sn1 + early retransmission of sn3 in ONE flush
                    S, T(10), F, T(10), F,              # data waiting, oldest segment still unacknowledged: nothing may be admitted
                    dict(name="Settle", a=0)]
            scripts.append(dict(meta=dict(cfg=cfg, label="loss-and-fast-%d-%d" % (resend, nodelay)), actions=acts))
    # Family 'acked-head-lingers' (known finding C02/Drained_AckedHeadLingers; the shortest history, found by TLC in KcpNet at the
    # thorough bounds): receive window 2, sn 3 overtakes sn 2 while the receiver's queue is full, so ACK(3) carries una=2 and ACK(2)
    # carries una=3; the reader reads everything; the datagram carrying una=4 is lost; the network heals; nobody has anything to say.
    def A(name, e=0, a=0, b=0):
        return dict(name=name, e=e, a=a, b=b)
    both = [A("Flush", 1), A("Flush", 2)]
    for upd in (0, 1):
        cfg = dict(mtu=56, sndwnd=2, rcvwnd=2, nodelay=0, interval=100, resend=0, nc=0, stream=1, acknodelay=0)
        acts = ([A("Send", 1, 40), A("Flush", 1), A("Tick", 0, 100)] + both + [A("Deliver", 2, 1), A("Recv", 2, 64), A("Tick", 0, 100)] + both +
                [A("Deliver", 1, 1, 1), A("Deliver", 2, 2), A("Tick", 0, 100)] + both +
                [A("Deliver", 1, 2), A("Deliver", 1, 1), A("Send", 1, 40), A("Flush", 1), A("Deliver", 2, 2), A("Tick", 0, 100)] + both +
                [A("Deliver", 2, 1), A("Tick", 0, 100)] + both + [A("Recv", 2, 64)] * 3 +
                [A("Deliver", 1, 2), A("Deliver", 1, 1), A("Tick", 0, 100)] + both + [A("Drop", 1, 1), dict(name="Settle", a=upd)])
        scripts.append(dict(meta=dict(cfg=cfg, label="acked-head-lingers-%d" % upd), actions=acts))
    with open(path, "w") as f:
        for sc in scripts:
            f.write(json.dumps(sc) + "\n")
    return len(scripts)


def scripts_stage(v, scr, prop, invariants):
    """The boundary scripts on two real KCP objects, validated against KcpCore.tla (drift) and judged by the given monitors."""
    ind, outd = scr.sub("scripts-in"), scr.sub("scripts-out")
    v.notes["boundary_scripts"] = boundary_scripts(os.path.join(ind, "core_scripts.ndjson"))
    go_core(scr, "TestCoreScripts$", dict(VERIF_IN=ind, VERIF_OUT=outd))
    summarize(v, outd, ["core_scripts"])
    validate_traces(v, scr, prop, os.path.join(outd, "core_scripts.ndjson"), "core_scripts", invariants, None, conformance=True)


def sample_behaviour(path):
    with open(path) as f:
        ln = f.readline()
    if not ln:
        return {}
    b = json.loads(ln)
    return dict(cfg=b["cfg"], actions=[s["a"] for s in b["steps"][:25]])


# ----------------------------------------------------------------------------------------------------------------
def generic_core_check(prop, tier, replay, level, mc_list, sim_list, go_tests, invariants, known_map=None, known_mc=None,
                       rule="", assumptions=(), extra_env=None, nsim=None, depth=None, pair_check=False, sess=None, post_stage=None):
    v = vlib.Verdict(prop, tier, level)
    scr = vlib.Scratch(prop.lower())
    thorough = tier == "thorough"
    try:
        if replay:
            return replay_file(v, scr, prop, replay, invariants, known_map)
        # 1. MC
        quick_instances = {n: (t, c) for (n, t, c) in mc_list(False)} if thorough else {}
        for (name, text, cfgrec) in mc_list(thorough):
            try:
                r, cexp = mc_with_cex(v, scr, name, text, name, timeout=1200 if thorough else 1800)
            except MachineryError as e:
                # thorough tier: an enlarged instance that TLC does not exhaust within 20 minutes is recorded as such (nothing was violated
                # in what it explored) and the quick tier's instance of the same family, which is known to finish, is checked exhaustively
                if not (thorough and "timed out" in str(e) and name in quick_instances and quick_instances[name][0] != text):
                    raise
                v.notes.setdefault("instances_not_exhausted_within_budget", []).append("%s (thorough bounds, 1200 s)" % name)
                text, cfgrec = quick_instances[name]
                r, cexp = mc_with_cex(v, scr, name, text, name)
            if cexp:
                replay_cex_and_judge(v, scr, prop, cexp, cfgrec, invariants, known_map, name + ":" + str(r.violation))
        # 1b. the MC instance that exhibits a listed known finding (reproduced on the code each run)
        for (name, text, cfgrec) in (known_mc(thorough) if known_mc else []):
            r, cexp = mc_with_cex(v, scr, name, text, name)
            if cexp:
                replay_cex_and_judge(v, scr, prop, cexp, cfgrec, invariants, known_map, name + ":" + str(r.violation))
        # 2. GEN
        ind, outd = scr.sub("in"), scr.sub("out")
        bpath = os.path.join(ind, "core_behaviours.ndjson")
        open(bpath, "w").close()
        nb = gen_behaviours(scr, bpath, sim_list(thorough), nsim or (400 if thorough else 60), depth or 80, vlib.seed())
        if nb == 0:
            raise MachineryError("TLC generated no behaviours")
        v.notes["generated_behaviours"] = nb
        v.notes["goal_witnesses"] = add_witnesses(bpath)
        if "TestCoreScripts" in go_tests:
            v.notes["boundary_scripts"] = boundary_scripts(os.path.join(ind, "core_scripts.ndjson"))
        # 3./4. REPLAY + DRIVE
        env = dict(VERIF_IN=ind, VERIF_OUT=outd, CORE_RUNS=120 if thorough else 24, CORE_STEPS=1500 if thorough else 600)
        env.update(extra_env or {})
        go_core(scr, go_tests, env)
        names = [n for n in ("core_replay", "core_drive", "core_clean", "core_stall", "core_pairs", "core_fates", "core_scripts", "core_rtoforge") if os.path.exists(os.path.join(outd, n + ".ndjson"))]
        summarize(v, outd, names)
        # 5. TV
        for n in names:
            validate_traces(v, scr, prop, os.path.join(outd, n + ".ndjson"), n, invariants, known_map,
                            conformance=(n not in ("core_pairs", "core_rtoforge")))
        # 6. the same property at session level (real UDPSession / Listener over the in-memory network)
        if sess:
            import checks_sess
            checks_sess.sess_stage(v, scr, prop, sess["invariants"], dict(SESS_RUNS=(sess.get("runs", 100) * (10 if thorough else 1)), **sess.get("env", {})),
                                   tests=sess.get("tests", "TestSessTransfer$"), names=sess.get("names", ("sess_transfer",)))
            rule += "; session level: " + checks_sess.RULE_TRANSFER
        if post_stage:
            post_stage(v, scr, thorough)
        v.cov["rule"] = rule
        v.cov["samples"] = [sample_behaviour(bpath)]
        v.assumptions = list(assumptions)
        return v.finish()
    finally:
        scr.cleanup()


def replay_file(v, scr, prop, path, invariants, known_map):
    v.write_evidence = False
    obj = json.load(open(path))
    rp = obj["replay"]
    if rp.get("kind") != "core-actions":
        raise MachineryError("replay file of unknown kind")
    ind, outd = scr.sub("in"), scr.sub("out")
    with open(os.path.join(ind, "core_actions.json"), "w") as f:
        json.dump(rp, f)
    go_core(scr, "TestCoreActions$", dict(VERIF_IN=ind, VERIF_OUT=outd))
    validate_traces(v, scr, prop, os.path.join(outd, "core_actions.ndjson"), "replay-file", invariants, known_map, conformance=False)
    v.cov["evaluations"] = len(rp["actions"])
    v.cov["distinct_nontrivial"] = 2
    return v.finish()


# ----------------------------------------------------------------------------------------------------------------
# C01
def check_c01(tier, replay):
    inv = ["C01_Prefix", "C01_MsgBoundaries", "C05_NoPanic"]
    spec_inv = ["Prefix", "MsgPrefix", "WindowDiscipline"]

    def mc(th):
        big = dict(maxbytes=80, maxtime=500) if th else dict(maxbytes=40, maxtime=500)
        out = [("mc_c01_stream.cfg", mc_cfg("stream", spec_inv, props=["UnaMonotone"], **big), CFGRECS["stream"]),
               ("mc_c01_msg.cfg", mc_cfg("msg", spec_inv, props=["UnaMonotone"], writes="{40, 70}", **big), None),
               ("mc_c01_fast.cfg", mc_cfg("fast", spec_inv, ticks="{10}", maxtime=60, maxbytes=72 if th else 40, drop=2 if th else 1), None)]
        return out

    def sim(th):
        return [("stream", sim_cfg("stream", 80)), ("msg", sim_cfg("msg", 80, writes="{1, 20, 40, 64}")),
                ("fast", sim_cfg("fast", 80, ticks="{1, 10, 30}")), ("fastcc", sim_cfg("fastcc", 80, ticks="{1, 10, 30}")),
                ("wnd1", sim_cfg("wnd1", 80))]
    return generic_core_check(
        "C01", tier, replay, "model_checking", mc, sim, "TestCoreReplay$|TestCoreDrive$|TestCoreScripts$", inv,
        rule=("TLC-generated behaviours of KcpNet (random drops, duplicates, reordering, writes 1..100 B, reads 16..200 B, five "
              "configurations) replayed on two real KCP objects at offset 0 and at offsets near 2^31/2^32, plus seeded random "
              "lossy runs with realistic windows/MTUs; every Recv's bytes are compared with the writer's stream. Non-trivial = "
              "behaviour containing at least one drop, duplicate, out-of-order delivery or RTO retransmission"),
        assumptions=["genuine peers (traces with forged segments are excluded from C01)", "payload abstracted to (offset,len) in the model; "
                     "byte equality checked by the harness with a position-dependent pattern"],
        extra_env=dict(CORE_FORGE=0),
        sess=dict(invariants=["C01_ReadIsNextBytes", "C01_MessageBoundaries", "C09_WireReassembles", "C02_TransferCompletes"], runs=150,
                  tests="TestSessTransfer$|TestSessVector$", names=("sess_transfer", "sess_vector")))


# C04
def check_c04(tier, replay):
    inv = ["C04_RcvQueueBounded", "C04_RcvBufBounded", "C04_SndWindow", "C04_TruthfulWnd", "C04_AdmitBelowWindow",
           "C04_NoAdmitAfterLoss", "C04_NoAdmitAfterLoss_Reinflated", "C05_NoPanic"]
    known = {"C04_NoAdmitAfterLoss_Reinflated": "C04/NoAdmitAfterLoss_Reinflated"}
    spec_inv = ["WindowDiscipline", "TruthfulWnd", "AdmitBelowWindow", "NoAdmitAfterLoss"]

    def mc(th):
        return [("mc_c04_stream.cfg", mc_cfg("stream", spec_inv, maxbytes=80 if th else 40), CFGRECS["stream"]),
                ("mc_c04_forged.cfg", mc_cfg("stream", spec_inv, forged="ForgedSmall", maxbytes=40, maxtime=300 if th else 200,
                                             drop=1 if th else 0, dup=0, maxforge=2), CFGRECS["stream"]),
                ("mc_c04_fastcc.cfg", mc_cfg("fastcc", spec_inv, ticks="{10}", maxtime=40, maxbytes=80, maxnet=3,
                                             drop=2 if th else 1, dup=0), CFGRECS["fastcc"])]  # thorough: 2.6 M states, 160 s at 8 workers
                                             # (maxtime 60 / 120 bytes did not finish in 40 min)

    def kmc(th):
        # depth-first-ish: the strict clause fails in the known corner within ~0.9 M states
        return [("mc_c04_known.cfg", mc_cfg("fastcc", ["NoAdmitAfterLossStrict"], ticks="{10}", maxtime=100, maxbytes=120, maxnet=3,
                                            drop=2, dup=0), CFGRECS["fastcc"])]

    def sim(th):
        return [("stream", sim_cfg("stream", 80)), ("fastcc", sim_cfg("fastcc", 80, ticks="{1, 10, 30}")),
                ("forged", sim_cfg("stream", 60, forged="ForgedAll")), ("forgedfast", sim_cfg("fastcc", 60, forged="ForgedAll", ticks="{1, 10, 30}")),
                ("wnd1", sim_cfg("wnd1", 80))]
    return generic_core_check(
        "C04", tier, replay, "model_checking", mc, sim, "TestCoreReplay$|TestCoreDrive$|TestCoreScripts$", inv, known_map=known, known_mc=kmc,
        rule=("as C01 plus adversarial peers: forged segments from boundary classes (sn around rcv_nxt / rcv_nxt+rcv_wnd / far, "
              "una before/inside/beyond the send window, wnd 0/1/65535, forged ts, bad conv/len/cmd) both in the TLC model and in "
              "random runs; invariants evaluated on the observed state after every API call and datagram, admission checked at "
              "the flush hook. Non-trivial as C01, or containing a forged segment"),
        assumptions=["windows are set before traffic starts", "rcv_wnd <= 65535"],
        sess=dict(invariants=["C04_WriteAdmission", "C04_SessBounds", "C01_ReadIsNextBytes"], runs=100))


# C12
def check_c12(tier, replay):
    inv = ["C12_ShiftInvariant", "C01_Prefix", "C05_NoPanic"]
    spec_inv = ["Prefix", "MsgPrefix", "WindowDiscipline"]

    def mc(th):
        out = []
        # the scaled 32-bit space: Mod = 16 (windows <= 3 < Mod/2); offsets placed so that both boundaries are crossed
        for (i, (sn, clk)) in enumerate([("SnOffA", 16), ("SnOffB", 8)] + ([("SnOffC", 16), ("SnOffD", 8)] if th else [])):
            out.append(("mc_c12_%d.cfg" % i, mc_cfg(["stream", "msg", "fast", "stream"][i], spec_inv, mod=4096, snoff=sn, clk=clk * 256 - 100,
                                                    maxbytes=80 if (th and i != 2) else 40, maxtime=500 if i != 2 else 60,   # (the fast instance with 80 bytes does not finish in 30 min)
                                                    ticks="{100}" if i != 2 else "{10}"), None))
        return out

    def sim(th):
        return [("stream", sim_cfg("stream", 80)), ("msg", sim_cfg("msg", 80, writes="{1, 20, 40, 64}")),
                ("fastcc", sim_cfg("fastcc", 80, ticks="{1, 10, 30}")), ("long", sim_cfg("stream", 80, ticks="{100, 1000, 30000}", maxtime=3000000))]
    def fec_pairs(v, scr, th):
        """FEC sequence ids: the same history at encoder position 0 and just before the wrap value (fecdrv TestFecPairs)."""
        import checks_fec as cf
        outd = scr.sub("c12-fec")
        rc, out = vlib.go_test("./fecdrv", "TestFecPairs$", dict(VERIF_OUT=outd, FEC_RUNS=400 if th else 64), timeout=1200)
        if rc != 0:
            raise MachineryError("fec driver failed:\n" + out[-3000:])
        cf.summarize(v, outd, ["fec_pairs"])
        old = obs_cfg
        globals()["obs_cfg"] = cf.obs_cfg_fec
        try:
            validate_traces(v, scr, "C12", os.path.join(outd, "fec_pairs.ndjson"), "fec_pairs", ["C12_ShiftInvariant", "C05_NoPanic"], None,
                            conformance=False, obs_module="FecObs")
        finally:
            globals()["obs_cfg"] = old

    return generic_core_check(
        "C12", tier, replay, "model_checking", mc, sim, "TestCoreReplay$|TestCorePairs$", inv, post_stage=fec_pairs,
        sess=dict(invariants=["C09_FecIdInRange", "C09_FecSequence", "C09_FecTypeMatchesPosition", "C09_ParityIsReedSolomon",
                              "C01_ReadIsNextBytes", "C02_TransferCompletes"], runs=100),
        rule=("every TLC-generated behaviour is executed twice on the real core: at sequence/clock offset 0 and at offsets drawn from "
              "{2^31-w, 2^32-w, random} so that the boundaries are crossed mid-transfer; the two normalised observations (return "
              "values, every header field of every datagram, full state) are paired line by line and must be identical, and each "
              "run must conform to the offset-free specification. The design is also model-checked in a scaled sequence space "
              "with wrap-around. FEC sequence ids: the same history (sizes, idle gaps that skip a group's parity -- in half of the runs "
              "exactly the last group before the wrap value --, losses, duplicates, reordering) with the encoder/decoder at position 0 "
              "and one to three groups before the wrap value; stamped ids (relative, modulo the wrap value, in range) and everything "
              "the decoder does for the three most recent groups must be identical; session level: dialled sessions whose encoder "
              "starts just before the wrap value, judged by the wire monitors. Non-trivial = pair whose shifted run crosses a 2^31 or "
              "2^32 boundary in sn or clock, or the wrap value of the FEC ids"),
        assumptions=["Check()'s answer while an untransmitted segment sits in snd_buf is unspecified (KcpCore.tla CheckUnspecified)",
                     "FEC decoder: the shard set exactly three groups behind the newest is dropped one step earlier across the wrap (distance "
                     "is measured modulo 2^32, ids wrap at the wrap value); only the three most recent groups are compared"])


# C18
def check_c18(tier, replay):
    inv = ["C18_RtoBounds", "C18_NoRetransOnCleanPath", "C05_NoPanic"]

    def mc(th):
        return [("mc_c18_clean.cfg", mc_cfg("stream", ["NoRetrans", "WindowDiscipline"], drop=0, dup=0, maxbytes=120 if th else 80,
                                            ticks="{10, 40}", maxtime=400 if th else 250, constraint=False, extra="", spec="CleanSpec"), None),
                ("mc_c18_rto.cfg", mc_cfg("stream", ["WindowDiscipline"], forged="ForgedAcks", drop=0, dup=0, maxbytes=40,
                                          ticks="{100}", maxtime=400 if th else 300, maxforge=3 if th else 2), None),
                ("mc_c18_rto_outage.cfg", mc_cfg("stream", ["WindowDiscipline"], forged="ForgedAcks", drop=0, dup=0, maxbytes=40,
                                                 ticks="{30000}", maxtime=90000 if th else 60000, maxforge=3 if th else 2), None)]

    def sim(th):
        return [("forgedack", sim_cfg("stream", 60, forged="ForgedAcks", ticks="{1, 100, 30000}", maxtime=3000000)),
                ("forgedackfast", sim_cfg("fast", 60, forged="ForgedAcks", ticks="{1, 10, 30000}", maxtime=3000000))]
    return generic_core_check(
        "C18", tier, replay, "model_checking", mc, sim, "TestCoreReplay$|TestCoreClean$|TestCoreDrive$|TestCoreRtoForge$", inv,
        rule=("clean paths (FIFO, constant one-way delay D, no loss/duplication, reader keeps up, rcv_wnd >= min(snd_wnd,32), "
              "2D + peer interval < minimum RTO) in event-driven virtual time with both drives: no segment is transmitted twice; "
              "RTO bounds on every observed state including runs with forged ACK timestamps/sn from boundary classes and outages "
              "of 30 s; acknowledgements whose echoed timestamp lies days or weeks in the past (the whole non-negative range of the "
              "signed 32-bit difference; boundary values where sums of the estimator's terms pass 2^31 / 2^32), as first sample and "
              "after an ordinary history (judged by the monitors only: the values overflow TLC's integers inside the estimator). "
              "Session level: clean FIFO paths with constant delay between real sessions (every cipher/FEC/window/MTU class satisfying the "
              "precondition): no data segment on the wire twice, RetransSegs does not move; the RTO both sessions report is sampled "
              "throughout clean AND lossy runs. "
              "Non-trivial = distinct (configuration, delay, drive) clean runs and behaviours containing forged ACKs"),
        assumptions=["settings fixed before traffic", "the driver flushes exactly when the core asks (interval drive) or polls Update at Check's time",
                     "session level: the measured part of a clean run starts 300 ms after Accept (an accepted session exists, with the default "
                     "100 ms flush interval, before the application can configure it); the clean path is FIFO also for datagrams due at one instant"],
        sess=dict(invariants=["C18_SessNoRetransOnCleanPath", "C18_SessRtoBounds", "C01_ReadIsNextBytes", "C02_TransferCompletes"], runs=80,
                  tests="TestSessClean$|TestSessTransfer$", names=("sess_clean", "sess_transfer")))


# C02
def check_c02(tier, replay):
    inv = ["C02_Drained", "C02_Drained_MsgExceedsWindow", "C02_Drained_AckedHeadLingers", "C02_WithinBound", "C01_Prefix", "C05_NoPanic"]
    known = {"C02_Drained_MsgExceedsWindow": "C02/Drained_MsgExceedsWindow", "C02_Drained_AckedHeadLingers": "C02/Drained_AckedHeadLingers"}
    spec_inv = ["DrainsWithinBound", "Prefix", "WindowDiscipline"]

    def mc(th):
        return [("mc_c02_stream.cfg", mc_cfg("stream", spec_inv, heal=True, maxbytes=80 if th else 40, maxtime=600 if th else 400,
                                             drop=2 if th else 1, dup=1, maxnet=2), CFGRECS["stream"]),
                ("mc_c02_msg.cfg", mc_cfg("msg", spec_inv, heal=True, writes="{40, 64}", maxbytes=104 if th else 64, maxtime=400, drop=1, dup=1,
                                          maxnet=2), CFGRECS["msg"]),
                ("mc_c02_fastcc.cfg", mc_cfg("fastcc", spec_inv, heal=True, ticks="{10}", maxtime=40 if th else 30, maxbytes=80, maxnet=3,
                                             drop=2 if th else 1, dup=0), CFGRECS["fastcc"]),
                ("mc_c02_outage.cfg", mc_cfg("stream", spec_inv, heal=True, ticks="{30000}", maxbytes=80 if th else 40,
                                             maxtime=125000 if th else 62000, drop=3 if th else 2, dup=0, maxnet=2), CFGRECS["stream"])]

    def kmc(th):
        return [("mc_c02_known.cfg", mc_cfg("msg", ["DrainsWithinBound"], heal=True, writes="{70}", maxbytes=70, maxtime=200, drop=0, dup=0,
                                            maxnet=2), CFGRECS["msg"])]

    def sim(th):
        return [("stream", sim_cfg("stream", 100)), ("msg", sim_cfg("msg", 100, writes="{1, 20, 40, 64}")),
                ("fastcc", sim_cfg("fastcc", 100, ticks="{1, 10, 30}")), ("wnd1", sim_cfg("wnd1", 100)),
                ("outage", sim_cfg("stream", 60, ticks="{100, 10000, 60000}", maxtime=3000000, drop=12))]
    return generic_core_check(
        "C02", tier, replay, "model_checking", mc, sim, "TestCoreReplay$|TestCoreDrive$|TestCoreFates$|TestCoreScripts$", inv, known_map=known, known_mc=kmc,
        rule=("TLC explores every fate assignment within the fault budget; at any reachable state the network may heal, after which the "
              "schedule is deterministic (deliver in order, read, flush both ends every interval) and the exact timed model must be "
              "drained within HealBound (a wedge shows as a bound violation; no liveness abstraction is needed because the healed "
              "continuation is deterministic). On the code every replayed behaviour and every random lossy run (loss up to 40 %, "
              "duplicates, reordering, outages to 60 s, both drives) ends with the same settling phase; the monitors require "
              "Drained within the bound computed by TLC from the state logged at the heal instant. In addition every fate vector in "
              "{deliver, drop, duplicate, hold-until-heal}^K over the first K datagrams of a one-directional transfer (no reverse "
              "data, so a lost ACK is not healed by piggy-backed una) is executed on the real code for three configurations and "
              "both drives (K=4 quick, 6 thorough). Non-trivial as C01 / fate vector with at least one fault"),
        assumptions=["genuine peers", "the reader keeps reading after the heal", "bound = armed retransmission waits + probe back-off + "
                     "(segments+4)*(3*rto+4*interval) per endpoint (generous by design)"],
        extra_env=dict(CORE_FORGE=0, CORE_SETTLE=1, FATES_K=6 if tier == "thorough" else 4), depth=100,
        sess=dict(invariants=["C02_TransferCompletes", "C01_ReadIsNextBytes"], runs=150))


# C03
def check_c03(tier, replay):
    inv = ["C02_Drained", "C02_Drained_MsgExceedsWindow", "C02_Drained_AckedHeadLingers", "C02_WithinBound", "C01_Prefix", "C04_RcvQueueBounded", "C04_RcvBufBounded",
           "C04_SndWindow", "C05_NoPanic"]
    known = {"C02_Drained_MsgExceedsWindow": "C02/Drained_MsgExceedsWindow", "C02_Drained_AckedHeadLingers": "C02/Drained_AckedHeadLingers"}
    spec_inv = ["DrainsWithinBound", "Prefix", "WindowDiscipline"]

    def mc(th):
        # the thorough tier uses the same exhaustive instances as the quick tier: each of the larger ones tried for it (wnd1 120 B /
        # 2500 ms / 3 drops; wnd2cc 160 B / 1200 ms; fast 160 B / 560 ms / ticks {10, 500} / 2 drops) was still running after 15 minutes
        # at 5 workers -- the thorough tier's depth comes from its ten times more generated behaviours, random runs and session runs
        return [("mc_c03_wnd1.cfg", mc_cfg("wnd1", spec_inv, heal=True, paused="PauseTwo", writes="{40}", maxbytes=120,
                                           maxtime=1500, ticks="{100, 500}", drop=2, dup=0, maxnet=2), None),
                ("mc_c03_wnd2cc.cfg", mc_cfg("stream", spec_inv, heal=True, paused="PauseTwo", writes="{40}", maxbytes=120,
                                             maxtime=900, ticks="{100, 300}", drop=2, dup=0, maxnet=2), None),
                ("mc_c03_fast.cfg", mc_cfg("fast", spec_inv, heal=True, paused="PauseTwo", writes="{40}", maxbytes=160, maxtime=520,
                                           ticks="{500}", drop=1, dup=0, maxnet=3), None)]

    def sim(th):
        return [("wnd1", sim_cfg("wnd1", 100, ticks="{100, 500, 5000}", maxtime=600000)),
                ("stream", sim_cfg("stream", 100, ticks="{100, 500, 120000}", maxtime=3000000))]
    return generic_core_check(
        "C03", tier, replay, "model_checking", mc, sim, "TestCoreReplay$|TestCoreStall$|TestCoreScripts$", inv, known_map=known,
        rule=("TLC: the receiving application does not read until the heal (receive windows 1..3, with and without congestion control), "
              "any datagram may be lost within the budget (so in particular every WASK/WINS/ACK of an interval), the C04 bounds and "
              "Prefix hold throughout and after the heal the transfer completes within HealBound (which includes the probe back-off). "
              "On the code: seeded stall scenarios -- pause at a random point for 0.1 s .. 10 min of virtual time, every control-only "
              "datagram lost during a sub-interval, windows 1..32, both drives -- then the settling phase; same monitors. "
              "Non-trivial = every stall run (each has a distinct pause point/length/loss interval/configuration)"),
        assumptions=["the writer is admitted like a session's Write (only while WaitSnd < snd_wnd)"],
        extra_env=dict(CORE_FORGE=0, CORE_SETTLE=1), depth=100,
        sess=dict(invariants=["C02_TransferCompletes", "C01_ReadIsNextBytes"], runs=100, tests="TestSessStall$", names=("sess_stall",)))
