#!/usr/bin/env python3
"""Writes /verif/MANIFEST.json from the table below (one source of truth for the registered checks)."""
import json
import os
import subprocess

ROOT = os.path.dirname(os.path.dirname(os.path.abspath(__file__)))

BASELINE_OFF = ("cd /repo && go build ./... && go test -json -vet=off -count=1 -timeout 25m ./...")

CHECKS = {
    "C20": dict(
        category="model_checking",
        text=("RingBuffer.tla transcribes ringbuffer.go operation by operation next to the unbounded FIFO model (Fifo.tla); "
              "TLC checks refinement, returned values, iteration order/early stop/mutation and dead-slot zeroing exhaustively on "
              "bounded instances (all head offsets, all three growth regimes with scaled constants; the real MinCap=8). Every "
              "transition of a real-constant graph is replayed on RingBuffer[int] and RingBuffer[*int] with the layout compared per "
              "step, and traces of replayed and long random runs (beyond 1024 slots) are validated by TLC against the queue model "
              "(RingObs: verdict) and the layout spec (RingBufferTrace: drift)."),
        design_ref="§4 C20, §3.1",
        note=("Trusted: TLC, Fifo.tla as the meaning of 'FIFO queue', the verif-tag layout accessors. Exhaustive only within the "
              "bounded graphs; beyond them seeded random sequences."),
        technique="TLA+ refinement spec + TLC; edge-covering replay into the code; TLC trace validation of recorded runs",
    ),
}

CORE_NOTE = ("Trusted: TLC, the harness' normalisation of sequence numbers/clock, the independent wire parser, the verif-tag "
             "projections and flush hooks, testing/synctest's virtual clock. Exhaustive only inside the small TLC instances; "
             "the code is bound by replay (projection compared per step) and by trace validation of seeded random runs.")
CHECKS.update({
    "C01": dict(
        category="model_checking",
        text=("KcpCore.tla transcribes kcp.go (Send/Recv/Input/flush/Update/Check with the code's integer arithmetic); KcpNet.tla closes it "
              "with a lossy/duplicating/reordering network. TLC checks Prefix/MsgPrefix exhaustively on small instances (stream, message, "
              "fast modes). TLC-generated behaviours and goal-directed witnesses are replayed on two real KCP objects under virtual "
              "time with the full projected state compared per step; every Recv's bytes are checked against the writer's stream; "
              "recorded traces (replays + seeded random lossy runs + hand-written boundary scripts: messages of 254..257 fragments, too-small "
              "Recv buffers, forged fragment trains, zero-window / loss-and-fast schedules) are validated by TLC: KcpObs monitors decide, "
              "KcpCoreTrace conformance reports drift. Session level: 150 transfers judged by SessObs -- every Read returns the next bytes, "
              "and in message mode exactly min(buffer, rest of the current message) -- plus vectored writes (WriteBuffers, 2-4 slices) behind small "
              "send windows with short write deadlines, where the application retries what a failed call says it did not accept. A genuine defect (stream-mode Send keeping part of a "
              "buffer it refuses) was repaired."),
        design_ref="§4 C01, §3.2, §5", note=CORE_NOTE,
        technique="TLA+ spec of the ARQ core + TLC; behaviour replay with per-step state comparison; TLC trace validation"),
    "C02": dict(
        category="model_checking",
        text=("KcpNet.tla with a Heal action: TLC explores every fate assignment within the fault budget (drops, duplicates, reordering, "
              "outages up to 60-120 s) and from every reachable state the healed continuation is deterministic (deliver in order, read, "
              "flush both ends every interval); the exact timed model must then be drained within HealBound -- a wedge (data never "
              "retransmitted, ACK never sent, queue not advancing) shows up as a bound violation. On the code every replayed behaviour, "
              "goal witness and seeded random lossy run (both drives) ends with the same settling phase and the C02 monitors (Drained, "
              "WithinBound computed by TLC from the state logged at the heal instant) decide; boundary scripts add the zero-window schedules "
              "(over-estimated window, burst of w+1..2w, the single window update lost). TLC finds one wedge of the pinned code "
              "(message with more fragments than the receiver's window), reproduced on the code each run: listed known finding."),
        design_ref="§4 C02", note=CORE_NOTE + " Liveness is checked as bounded progress on the exact timed model (deterministic healed phase), not as a temporal formula under fairness.",
        technique="TLA+ timed model with deterministic healed phase + TLC (bounded-progress invariant); settle-phase traces judged by TLC monitors"),
    "C03": dict(
        category="model_checking",
        text=("As C02 with the receiving application not reading until the heal: receive windows 1..3, with/without congestion control, "
              "fast mode; within the budget any datagram (in particular every WASK/WINS/ACK) may be lost; Prefix and the C04 bounds "
              "hold throughout and the transfer completes within HealBound (which includes the 120 s probe cap) after the reader "
              "resumes. On the code: seeded stall scenarios (pause 0.1 s..10 min of virtual time at a random point, every control-only "
              "datagram lost during a sub-interval, windows 1..32, both drives) and the zero-window boundary scripts, with the same monitors."),
        design_ref="§4 C03", note=CORE_NOTE,
        technique="TLA+ timed model with paused reader + TLC; virtual-time stall scenarios judged by TLC monitors"),
    "C04": dict(
        category="model_checking",
        text=("The C04 bounds are invariants of KcpNet.tla checked by TLC including forged-segment steps (boundary classes of sn/una/wnd/ts); "
              "admission is checked at the flush hook (segments admitted vs. min(snd_wnd, rmt_wnd, cwnd)); the same formulas are "
              "evaluated by TLC on the state observed after every API call and datagram of replayed and random runs of the real core, and of "
              "boundary scripts (one flush that declares a timeout loss AND retransmits fast/early; forged fragment trains). Session level: the "
              "write-admission hook (fires under the session mutex in the queuing branch of WriteBuffers) must show fewer than a send window "
              "of segments pending at every admission, and both ends' queue lengths are sampled throughout 100 transfers. "
              "One corner of the 'nothing new after a timeout loss' clause fails on the pinned code and is a listed known finding."),
        design_ref="§4 C04, §3.2", note=CORE_NOTE,
        technique="TLA+ invariants + TLC incl. adversarial Forge action; monitors over observed state via TLC trace validation"),
    "C05": dict(
        category="exploration",
        text=("Boundary classes come from the specifications (Frame.tla's packet classes, KcpNet's Forge classes, FecNet's arrival patterns); "
              "at session level random byte strings of boundary lengths and structure-aware mutations of captured datagrams are injected "
              "into live lossy traffic on listener and dialled paths for every cipher/FEC class; a panic anywhere in the library ends the "
              "run and is the violation; queue lengths, shard sets and pool balance are sampled and judged by TLC monitors (C05_Bounds). "
              "Raw core: boundary scripts (forged fragment trains with inconsistent frg bytes read with a buffer of exactly PeekSize(), "
              "fragment-count boundaries, three reservations in one flush) validated against KcpCore.tla; bare FEC decoder: sequence ids "
              "altered into the boundary regions of the id space with thousands of distinct shard ids (C05_DecoderBounded)."),
        design_ref="§4 C05", note="Not coverage-guided fuzzing; 'does not panic' is observed, not modelled. Trusted: synctest, simnet, the sanitizer hooks.",
        technique="model-derived boundary classes + seeded mutation of captured traffic; TLC monitors over sampled bounds"),
    "C06": dict(
        category="model_checking",
        text=("Frame.tla transcribes the input routing of UDPSession.packetInput/kcpInput and Listener.packetInput as a function from abstract "
              "packet classes to effect classes; TLC checks IntegrityGuards (a failed or missing integrity field leads only to drop/counter) "
              "for every class and cipher kind. On the code, corruptions that the check is guaranteed to catch (AEAD bit flips; bursts of "
              "<=32 bits / changed CRC applied through the reference cipher; too-short datagrams) of captured datagrams of every kind are "
              "injected into listener (known and unknown source) and dialled session for 13 ciphers; deep digests before/after and the "
              "counter delta are judged by the C06 monitors via TLC. The session's own input routing is bound to FrameRouting!SessionEffect by "
              "trace validation (SessionRouteTrace): crafted datagrams of every class, three cipher kinds, exits reported by the input hooks."),
        design_ref="§4 C06, §3.4", note="Trusted: reference ciphers/CRC32 (independent of crypt.go), VerifDigest (verif tag), synctest quiescence (synctest.Wait).",
        technique="TLA+ routing decision model + TLC; guaranteed-detectable corruption injection judged by TLC monitors"),
    "C08": dict(
        category="model_checking",
        text=("Cfb.tla transcribes the hand-unrolled CFB loops of crypt.go over a symbolic memory (terms of the free XOR algebra over "
              "plaintext/ciphertext blocks and applications of the block cipher), with dst==src aliasing as a shared array; TLC checks "
              "that for every length class the output terms are exactly the textbook full-block CFB recurrence with the fixed IV, for "
              "encryption and decryption. The harness runs the real code for EVERY length 0..1500, every cipher, in place and into a "
              "separate buffer, and evaluates the same recurrence with Go's crypto/cipher (and reference stream ciphers / GCM); TLC judges "
              "the per-length comparison lines. A genuine defect (salsa20, packets shorter than the nonce, separate buffer) was repaired."),
        design_ref="§4 C08, §6", note="The model is about control structure and buffers for any block cipher; numeric equality is evaluated by the reference implementation. Not a proof about AES.",
        technique="symbolic TLA+ transcription + TLC; exhaustive per-length comparison with reference ciphers judged by TLC monitors"),
    "C09": dict(
        category="model_checking",
        text=("Frame.tla (output side = Fec!EncodeOp wrapped in the cipher/FEC header arithmetic) is model-checked for SizeFieldRule, "
              "TypeMatchesPosition, IdsDistinct, ParityCoversGroup for every cipher kind x FEC class. On the code every datagram of seeded "
              "session runs (all ciphers/FEC/MTU/window/mode classes, loss, duplication, reordering, outages, SetMtu, OOB) is decoded at the "
              "WriteTo boundary by a parser written from README.md with reference ciphers, CRC32 and a fresh Reed-Solomon codec; TLC judges "
              "layout, FEC numbering (Fec.tla's id/type rule incl. skipped parity), parity = RS code of the padded size-prefixed payloads, "
              "nonce and datagram freshness (the shared entropy source positioned just before its periodic reseed in a third of the runs), and "
              "that the stream reassembled from the wire alone equals what was written. Dialled sessions' FEC encoders start one or two "
              "groups before the wrap value of the sequence ids, idle gaps make the encoder skip parity: ids must stay in the documented "
              "range and type must match the absolute id's position. A genuine defect (SM4) was repaired."),
        design_ref="§4 C09, §3.4", note="Trusted: the independent parser and reference evaluators in harness/wire and harness/refcrypt.",
        technique="TLA+ framing model + TLC; independent wire decoder; TLC monitors over every datagram"),
    "C10": dict(
        category="model_checking",
        text=("Frame.tla!LenBound (every datagram incl. parity, OOB and AEAD tag <= the session MTU in force, with SetMtu as an action "
              "between any two requests -- the pinned variant without the parity guard must still be refuted by TLC) and KcpCore's "
              "OutSizeOK are model-checked; SetMtuOp follows the repaired KCP.SetMtu. On the code: SetMtu with boundary values at random "
              "points of bidirectional transfers, OOB of maximum size and +1; the wire monitor compares every datagram with the MTU in "
              "force, the core's output sizes are judged in the core traces (C10_OutSize); a deterministic witness re-checks the repaired "
              "parity defect."),
        design_ref="§4 C10", note="Two genuine defects (SetMtu accepting values it cannot honour; parity of a group open at a shrinking SetMtu) were repaired; see known_findings.json.",
        technique="TLA+ length arithmetic + TLC; wire-length monitor via TLC trace validation"),
    "C11": dict(
        category="model_checking",
        text=("Listener.tla (routing table address -> session, accept backlog, replacement on a new conversation, application Close) over "
              "FrameRouting.tla's packet classes is model-checked for Isolation, TableConsistent, OneAcceptPerSession, BacklogBounded, "
              "ForeignNeverCloses over every interleaving of datagram classes from 2 addresses x 2 conversations with Accept and Close. "
              "Code -> model: crafted datagrams of every class at a real listener; the exit of Listener.packetInput (hook l.in) and every "
              "Accept result must equal what the model computes from its own table and backlog, datagram by datagram (ListenerTrace). "
              "Observable level: several real clients with distinct contents, reconnects, small backlog, slow accept loop and an adversary "
              "(forged, stale, foreign datagrams at listener and dialled sessions); every byte read on either side and every Accept is judged "
              "by the ListObs monitors via TLC. One listed known finding (FEC shards of a previous conversation after a reconnect), with a "
              "deterministic witness."),
        design_ref="§4 C11", note="Trusted: reference cipher/CRC used to craft valid datagrams; synctest quiescence. A hang of the listener's receive goroutine or an orphan session kills the driver and is reported from the goroutine dump.",
        technique="TLA+ routing/backlog model + TLC; trace validation of packetInput exits and Accept results; content-isolation monitors via TLC"),
    "C13": dict(
        category="model_checking",
        text=("SessionWait.tla follows the wait loops of Read/WriteBuffers label by label (timer object, the select's timeout channel c, one-slot "
              "token, die, socket error) with time advancing only at quiescence; TLC checks NoEarlyTimeout, ArmedForDeadline, NothingStranded, "
              "CloseWakesAll, ErrorWakesAll for 1-3 callers over all deadline scripts. The 'pinned' variant (the code before the repair) is "
              "kept: TLC must still find the repaired defects in it. TLC-generated scripts run on real dialled and accepted sessions in "
              "virtual time; what each call returned and at which virtual second is judged by the WaitObs monitors and must be explainable by "
              "SessionWait (WaitTrace, nondeterministic token hand-off left to TLC), on {dialled, accepted} x {callers blocked in Read, callers "
              "blocked in Write behind a full send window}; every sequence of <= 3 deadline changes is enumerated on both sides; Close, a "
              "failing transport and the Close of a listener that owns its transport are issued while callers are blocked; the monitors are "
              "evaluated at every tick (nobody blocked although closed / failed / the resource is there / the deadline is reached), not only "
              "at the end. Events INSIDE a call: hook points of the wait loops (deadline loaded / about to park) serve as scheduler gates, so the "
              "interleavings between the labels of SessionWait.tla (a deadline set, shortened, extended or cleared, a unit arriving, Close, a "
              "socket error -- between the load of the deadline, the locked check and the park) are executed on the real calls. "
              "Accept and after-Close clauses are scripted API cases. "
              "Two listed known findings (deadline change with concurrent callers; Accept deadline changed while blocked)."),
        design_ref="§4 C13, §3.6", note="Trusted: synctest's virtual clock and synctest.Wait as the quiescence detector.",
        technique="TLA+ model of the wait loops + TLC; TLC-generated scripts on real sessions; trace validation with silent steps"),
    "C15": dict(
        category="model_checking",
        text=("Lifecycle.tla models the goroutines/callbacks started per session and listener and what ends each; TLC checks under weak fairness "
              "that after every order of Close calls they all terminate (ReleasedHeld). On the code every session run ends by closing client, "
              "accepted session, listener and transport in a seeded order (half of them in mid-transfer); 12 virtual seconds later no "
              "goroutine with a kcp-go frame may remain in the bubble; the pool sanitizer reports double Put and writes into recycled "
              "buffers; TLC monitors decide. Variants: paced output (SetRateLimit) so that Close finds the post-processing queue busy, "
              "transports failing writes before Close, sessions/listeners that own their transport, and a FORCED interleaving (the input "
              "hook as scheduler gate): a datagram past the receive loop's closed-check is processed after Close has completed; and Close after a "
              "long silence (peer gone, 4-90 virtual minutes past the dead-link threshold), where a dialled session owning its transport must "
              "release it by itself. "
              "A leak of sessions never handed out by Accept is a listed known finding (its model-level form must still be refuted by TLC)."),
        design_ref="§4 C15", note="Trusted: synctest's bubble goroutine tracking, runtime.Stack parsing, the sanitizer (verif tag).",
        technique="TLA+ lifecycle model + TLC (liveness); bubble leak detection + pool sanitizer judged by TLC monitors"),
    "C17": dict(
        category="model_checking",
        text=("TimedSched.tla models Put, the prepend hand-over and the workers' heap/timer logic (Stop, conditional drain, Reset, the timer "
              "case) under both Go timer-channel semantics; TLC checks ExactlyOnce, NeverEarly, Prompt, Covered, NoStuckDrain and ExactTime "
              "with time advancing only at quiescence. TLC-generated scripts and seeded concurrent drives run on the real scheduler inside a "
              "synctest bubble (exact execution times, compared with the model's prediction) and in real time with asynctimerchan=0/1; the "
              "SchedObs monitors decide via TLC. A genuine defect (task never run when the timer fires exactly at its deadline) was repaired."),
        design_ref="§4 C17, §3.7", note="Trusted: synctest's virtual clock; real-time runs use a 2 s grace.",
        technique="TLA+ model with two timer semantics + TLC; scripts/drives in virtual and real time judged by TLC monitors"),
    "C19": dict(
        category="model_checking",
        text=("Frame.tla: OOBConsumesNoSeqid (action property), OOBNeverEntersFecOrKcp, refusal rule and LenBound for OOB are model-checked. "
              "On the code OOB messages of boundary lengths are interleaved with Write traffic in both directions under loss; every handler "
              "invocation must equal a message sent by that session's peer, refusal exactly for oversize/no-FEC, the FEC id sequence on the "
              "wire must be unaffected and the stream monitors (C01/C02) must stay green on the same runs; the FEC encoder's continuity rule is "
              "part of SessObs.tla: a group completed within 500 ms of the flow's previous data packet must be followed by all its parity "
              "packets, whatever out-of-band traffic is interleaved (FecProtectionKept); well-formed OOB datagrams of OTHER "
              "conversations between the same two addresses must not reach the handler (a genuine defect of the dialled side was repaired); "
              "the session's input routing is validated against FrameRouting!SessionEffect (SessionRouteTrace)."),
        design_ref="§4 C19", note="Trusted as C09.",
        technique="TLA+ framing model + TLC; session runs with OOB judged by TLC monitors"),
    "C07": dict(
        category="model_checking",
        text=("Fec.tla follows fecEncoder.encode / fecDecoder.decode branch by branch (sequence ids in a word of W values, paws, shard sets, "
              "discard horizon, skipped parity); Reed-Solomon is abstracted by its MDS property with ghost packet identities. TLC checks "
              "OnlyOriginals / Recoverable / Bounded for matching ratios d+p<=5 over every arrival subset, order and duplicate within the "
              "budgets with the wrap point inside the run. TLC behaviours are replayed on the real encoder/decoder (decoder state and every "
              "reconstructed packet compared per step); seeded runs up to 128/127 incl. positions around the real wrap value are "
              "validated by TLC (FecObs monitors decide with byte-exact identification of reconstructed packets; FecTrace reports drift)."),
        design_ref="§4 C07, §3.3", note="Trusted: TLC, the harness' byte comparison against the packets it generated, the verif-tag codec accessors. Exhaustive only inside the small TLC instances.",
        technique="TLA+ spec of the FEC framing + TLC; behaviour replay; TLC trace validation with ghost identities"),
    "C16": dict(
        category="model_checking",
        text=("FecNet.tla with differing encoder/decoder ratios and the auto-tuner (autotune.go FindPeriod transcribed): TLC checks Converges "
              "(after an uninterrupted run of RingN+2(d+p) packets, ring scaled to 10, after every fault pattern in the budget, wrap inside "
              "the run) and Stable (matching ratios never retune under any fault pattern). On the code every pair with d+p<=6 plus sampled "
              "pairs to 255 and boundary pairs with d+p = 255 / 254, at several positions incl. just below the real wrap value: faulty prefix, exactly 258+2(d+p) in-order packets, "
              "then the adopted ratio and loss recovery are judged by the C16/C07 monitors via TLC."),
        design_ref="§4 C16, §3.3", note="Trusted as C07. Session-level delivery under mismatch is exercised by the session checks.",
        technique="TLA+ spec incl. auto-tuner + TLC; exhaustive small-pair drives validated by TLC monitors"),
    "C12": dict(
        category="model_checking",
        text=("Design level: KcpNet is model-checked in a scaled sequence/clock space (Mod=4096) with offsets that make sn and clock wrap "
              "mid-run. Code level: every generated behaviour is executed at offset 0 and at offsets near 2^31/2^32; the normalised "
              "observations (returns, every datagram header field, full state) are paired and TLC requires them identical, and both "
              "runs must conform to the offset-free specification. FEC ids: the same history (incl. parity skipped at exactly the last group "
              "before the wrap value) at encoder/decoder position 0 and just before the wrap value must stamp the same relative ids and "
              "reconstruct the same packets (FecObs!C12_ShiftInvariant); session level: encoders positioned before the wrap value, wire monitors."),
        design_ref="§4 C12", note=CORE_NOTE,
        technique="TLC on a scaled modular space; metamorphic replay (shifted vs unshifted) judged by a TLC pair monitor"),
    "C18": dict(
        category="model_checking",
        text=("Clean-path instance of KcpNet (FIFO, no loss, reader keeps up) model-checked for 'xmit <= 1, no retransmission counted'; "
              "RtoBounds is part of the endpoint invariant in all instances incl. forged ACK timestamps and 30 s outages. On the code: "
              "event-driven clean runs in virtual time (both drives, random delays/intervals satisfying the precondition) and forged-ACK "
              "runs incl. echoed timestamps over the whole non-negative range of the signed 32-bit difference (days, weeks in the past), "
              "judged by C18 monitors via TLC."),
        design_ref="§4 C18", note=CORE_NOTE,
        technique="TLA+ clean-path instance + TLC; virtual-time clean runs validated by TLC monitors"),
})

CHECKS["C14"] = dict(
    category="exploration",
    text=("RaceProgs.tla spans the space of concurrent programs over the 24 supported public methods of UDPSession and Listener: TLC "
          "enumerates every unordered pair (thorough: under every cipher/FEC class, on the dialled and on the accepted session) and samples "
          "triples; each program runs its methods on separate goroutines against one session while traffic flows both ways on it and on a "
          "neighbour session of the same listener (shared pool, entropy source, counters, scheduler), with the shared entropy source "
          "positioned just before its periodic reseed, in real time over the in-memory network, built with -race. A report of the Go race "
          "detector with a kcp-go frame is the violation. A genuine defect (GetOOBMaxSize / SetLogger outside the session mutex) was "
          "repaired. Exploration, not model checking: a TLA+ model cannot observe unsynchronised memory accesses; the specification "
          "only supplies the program space."),
    design_ref="§4 C14, §6",
    note=("The judgement 'data race' is the Go race detector's (happens-before over the accesses that actually executed); a race on a path "
          "no program reaches is not seen. Deprecated methods excluded as the property says. Reports confined to harness frames are exit 2."),
    technique="TLC-enumerated concurrent programs (RaceProgs.tla) executed under the Go race detector",
)

NOT_YET = {}


def main():
    props = [json.loads(l) for l in open(os.path.join(ROOT, "properties.jsonl"))]
    hooks_commits = subprocess.run(["git", "-C", "/repo", "log", "--format=%H %s"], capture_output=True, text=True).stdout.splitlines()
    hook_shas = [l.split()[0] for l in hooks_commits if l.split(" ", 1)[1].startswith("verif:")]
    checks = []
    na = []
    for p in props:
        pid = p["id"]
        c = CHECKS.get(pid)
        if not c:
            na.append(dict(property_id=pid, reason=NOT_YET.get(pid, "check not built yet in this round (planned: see DESIGN.md §4)")))
            continue
        checks.append(dict(
            property_id=pid,
            quick_cmd="./tools/check %s --tier quick" % pid,
            thorough_cmd="./tools/check %s --tier thorough" % pid,
            evidence_file="evidence/%s.json" % pid,
            replay_cmd_template="./tools/check %s --replay {path}" % pid,
            engine="tlc+go-harness",
            level_claimed=dict(category=c["category"], text=c["text"], design_ref=c["design_ref"]),
            level_note=c["note"],
            technique=c["technique"],
        ))
    m = dict(
        version=1,
        setup_cmd="./tools/setup.sh",
        hooks=dict(guard="verif (Go build tag)",
                   enable="go1.26 test -tags verif (harness module replaces github.com/xtaci/kcp-go/v5 => /repo)",
                   baseline_off_cmd=BASELINE_OFF,
                   source_commits=hook_shas,
                   add_only=True),
        engines=[dict(name="tlc+go-harness", path="tools/check",
                      serves_properties=[c["property_id"] for c in checks],
                      kind_free_text=("explicit TLA+ specifications model-checked by TLC; TLC-generated behaviours replayed into the real "
                                      "code under a virtual clock (testing/synctest) and traces recorded from the real code validated by "
                                      "TLC against the specifications and the property monitors"))],
        checks=checks,
        not_applicable=na,
        notes="See DESIGN.md. Exit codes: 0 held, 1 VIOLATION, 2 machinery error.",
    )
    with open(os.path.join(ROOT, "MANIFEST.json"), "w") as f:
        json.dump(m, f, indent=1)
    print("MANIFEST.json: %d checks, %d not_applicable" % (len(checks), len(na)))


if __name__ == "__main__":
    main()
