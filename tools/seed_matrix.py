#!/usr/bin/env python3
"""Rewrites the table of DESIGN.md section 10 (between the SEED-MATRIX markers) from seeded/*/meta.json."""
import glob
import json
import os
import re

ROOT = os.path.dirname(os.path.dirname(os.path.abspath(__file__)))


def main():
    rows = []
    for f in sorted(glob.glob(os.path.join(ROOT, "seeded", "*", "meta.json"))):
        m = json.load(open(f))
        det = m.get("detection", [])
        caught = {}
        for d in det:
            if d.get("rc") == 1:
                caught.setdefault(d["check"], set()).update(s.split("/", 1)[-1] for s in d.get("signatures", []))
        missed = sorted({d["check"] for d in det if d.get("rc") == 0} - set(caught))
        by = "; ".join("%s (%s)" % (c, ", ".join(sorted(x for x in s if x)[:3])) for c, s in sorted(caught.items())) or "—"
        title = re.sub(r"^(Seed )?C\d\d\s*[/-]?\s*(seed )?[A-Z]\s*[—-]\s*", "", m.get("title", ""), flags=re.I)
        rows.append("| %s | %s | %s | %s |" % (m["seed"], title.replace("|", "/")[:150], by, (", ".join(missed) + " (quick)") if missed and not caught else ""))
    table = "| seed | change | caught by (monitors) | not caught by |\n|---|---|---|---|\n" + "\n".join(rows)
    p = os.path.join(ROOT, "DESIGN.md")
    s = open(p).read()
    a, b = "<!-- SEED-MATRIX-BEGIN -->", "<!-- SEED-MATRIX-END -->"
    if a in s:
        s = s[:s.index(a) + len(a)] + "\n" + table + "\n" + s[s.index(b):]
        open(p, "w").write(s)
    n = sum(1 for r in rows if "| — |" not in r)
    print("%d seeds, %d caught" % (len(rows), n))


if __name__ == "__main__":
    main()
