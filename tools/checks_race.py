"""C14: data-race freedom (programs enumerated by TLC from RaceProgs.tla, executed under the Go race detector)."""
import json
import os
import re

import vlib
from vlib import MachineryError
import checks_core as cc


def check_c14(tier, replay):
    v = vlib.Verdict("C14", tier, "exploration")
    scr = vlib.Scratch("c14")
    th = tier == "thorough"
    try:
        if replay:
            # the programs are enumerated by TLC; the seed recorded in the replay file selects the sampled triples and the schedules' random choices
            v.write_evidence = False
            os.environ["VERIF_SEED"] = str(json.load(open(replay)).get("replay", {}).get("seed", vlib.seed()))
        ind, outd = scr.sub("in"), scr.sub("out")
        ppath = os.path.join(ind, "race_progs.ndjson")
        n = 0
        with open(ppath, "w") as f:
            r = vlib.run_tlc(scr, "RaceProgs", "RaceProgs_all.cfg" if th else "RaceProgs_pairs.cfg", workers=1, timeout=300)
            vlib.must_ok(r, "RaceProgs pairs")
            v.notes["tlc_pairs"] = r.generated
            for p in vlib.iter_marked(r.outpath, "PROG"):
                f.write(json.dumps(p) + "\n")
                n += 1
            # sampled triples: simulation of depth 2
            cfgp = cc.write_cfg(scr, "RaceProgs_triples.cfg", "SPECIFICATION Spec\nCONSTANT AllCombos = TRUE\nINVARIANT EmitTriples\nCHECK_DEADLOCK FALSE\n")
            r = vlib.run_tlc(scr, "RaceProgs", "RaceProgs_triples.cfg", workers=1,
                             extra=("-simulate", "num=%d" % (300 if th else 40), "-depth", "2", "-seed", str(vlib.seed())), timeout=300,
                             extra_files=[cfgp])
            for p in vlib.iter_marked(r.outpath, "PROG"):
                if len(p["ms"]) == 3:
                    f.write(json.dumps(p) + "\n")
                    n += 1
        if n < 300:
            raise MachineryError("TLC enumerated only %d programs" % n)
        env = dict(VERIF_IN=ind, VERIF_OUT=outd, GORACE="halt_on_error=0")
        rc, out = vlib.go_test("./racedrv", "TestRacePrograms$", env, timeout=3000, race=True, logpath=os.environ.get("VERIF_C14_LOG"))
        races = re.findall(r"WARNING: DATA RACE.*?(?:==================)", out, re.S)
        kcp_races = [x for x in races if "github.com/xtaci/kcp-go/v5" in x]
        if kcp_races:
            seen = set()
            for x in kcp_races:
                # signature: the first kcp-go function of each of the two conflicting access stacks
                blocks = re.split(r"\n\n", x)
                tops = []
                for b in blocks[:2]:
                    m = re.search(r"github.com/xtaci/kcp-go/v5\.([^\n]*?)\(\)\n", b)
                    if m:
                        tops.append(m.group(1))
                sig = "C14/Race/" + "+".join(sorted(set(tops)))
                if sig in seen:
                    continue
                seen.add(sig)
                v.violation(sig, "the race detector reports:\n" + x[:2500], dict(kind="race-run", seed=vlib.seed()))
        elif rc != 0:
            if races:
                raise MachineryError("race reports confined to harness frames:\n" + races[0][:2000])
            raise MachineryError("race driver failed:\n" + out[-3000:])
        sp = os.path.join(outd, "race_stall.txt")
        if os.path.exists(sp):
            v.notes["stalled_programs"] = open(sp).read()[:3000]  # (driver watchdog: a program released after 30 s; not a verdict)
        s = json.load(open(os.path.join(outd, "race.json"))) if os.path.exists(os.path.join(outd, "race.json")) else dict(Programs=n, Methods=0, List=[])
        v.cov["evaluations"] = s["Programs"]
        v.cov["distinct_nontrivial"] = s["Programs"]
        v.cov["programs"] = s["Programs"]
        v.cov["rule"] = ("TLC enumerates every unordered pair of the %d supported public methods of UDPSession/Listener (RaceProgs.tla) and samples "
                         "triples by simulation; each program runs its methods on separate goroutines (6 calls each) against one dialled session "
                         "while traffic flows both ways on that session and on a neighbour session of the same listener (shared pool, entropy "
                         "source, counters), for 5 cipher/FEC classes rotating over the programs, in real time over the in-memory network, with "
                         "the harness built with -race. Every program is distinct and non-trivial (two or more concurrent methods + traffic)") % s.get("Methods", 24)
        v.cov["samples"] = s["List"][:6]
        v.assumptions = ["the judgement 'data race' is the Go race detector's (happens-before on real memory accesses)",
                         "race reports without a kcp-go frame are harness problems (exit 2)"]
        return v.finish()
    finally:
        scr.cleanup()
