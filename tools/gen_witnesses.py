#!/usr/bin/env python3
"""Goal-directed behaviour generation (DESIGN.md section 1.4): for every coverage goal of spec/KcpGoals.tla and a few
configurations, TLC's breadth-first search produces a shortest behaviour that reaches the goal (the goal is checked
as an invariant, its violation is the witness). Witnesses are stored in spec/witness/core_witness.ndjson.gz and are
replayed into the real code by the core checks (quick tier: the stored witnesses; thorough tier: regenerated).

usage: gen_witnesses.py [--out FILE] [--timeout SEC] [--jobs N] [goal-substring ...]"""
import argparse
import concurrent.futures
import gzip
import json
import os
import re
import sys
import time

sys.path.insert(0, os.path.dirname(os.path.abspath(__file__)))
import vlib  # noqa: E402
import checks_core as cc  # noqa: E402

CFGRECS = {
    "CfgStream": dict(mtu=56, sndwnd=2, rcvwnd=2, nodelay=0, interval=100, resend=0, nc=0, stream=1, acknodelay=0),
    "CfgMsg": dict(mtu=56, sndwnd=2, rcvwnd=2, nodelay=0, interval=100, resend=0, nc=0, stream=0, acknodelay=0),
    "CfgFast": dict(mtu=56, sndwnd=3, rcvwnd=3, nodelay=1, interval=10, resend=2, nc=1, stream=1, acknodelay=1),
    "CfgFastCC": dict(mtu=56, sndwnd=3, rcvwnd=3, nodelay=1, interval=10, resend=2, nc=0, stream=1, acknodelay=1),
    "CfgWnd1": dict(mtu=56, sndwnd=4, rcvwnd=1, nodelay=0, interval=100, resend=0, nc=0, stream=1, acknodelay=0),
    "CfgWide": dict(mtu=80, sndwnd=5, rcvwnd=5, nodelay=1, interval=10, resend=1, nc=0, stream=1, acknodelay=0),
}

# (label, cfg record name, keyword arguments for checks_core.mc_cfg)
VARIANTS = [
    ("stream", "CfgStream", dict(writes="{20, 40}", reads="{16, 64}", ticks="{100, 200}", maxbytes=160, drop=3, dup=1, maxnet=4, maxtime=3000, writers="{1, 2}")),
    ("msg", "CfgMsg", dict(writes="{20, 70}", reads="{16, 200}", ticks="{100, 200}", maxbytes=160, drop=2, dup=1, maxnet=4, maxtime=2000)),
    ("fastcc", "CfgFastCC", dict(writes="{40}", reads="{200}", ticks="{10, 30}", maxbytes=240, drop=3, dup=1, maxnet=5, maxtime=400)),
    ("fast", "CfgFast", dict(writes="{40}", reads="{200}", ticks="{10, 30}", maxbytes=240, drop=3, dup=1, maxnet=5, maxtime=400)),
    ("wnd1", "CfgWnd1", dict(writes="{40, 64}", reads="{200}", ticks="{100, 500}", maxbytes=200, drop=2, dup=0, maxnet=4, maxtime=4000)),
    ("wide", "CfgWide", dict(writes="{56, 112}", reads="{300}", ticks="{10, 30}", maxbytes=560, drop=3, dup=1, maxnet=6, maxtime=600)),
]


def goals():
    txt = open(os.path.join(vlib.SPEC, "KcpGoals.tla")).read()
    return re.findall(r"^(Goal_\w+)\s*==", txt, re.M)


def one(job):
    goal, label, cfgname, kw, timeout, drive = job
    scr = vlib.Scratch("wit")
    try:
        cc.CFGS[cfgname] = cfgname
        text = cc.mc_cfg(cfgname, [goal], drive=drive, **kw)
        name = "%s__%s_%s.cfg" % (goal, label, drive)
        cexp = scr.path("cex.json")
        try:
            r = cc.run_mc(scr, name, text, module="KcpGoals", workers=4, extra=("-dumpTrace", "json", cexp), timeout=timeout)
        except vlib.MachineryError:
            return (goal, label, drive, None, "timeout")
        if r.ok:
            return (goal, label, drive, None, "unreachable within bounds (%d states)" % r.distinct)
        if r.violation != goal or not os.path.exists(cexp):
            return (goal, label, drive, None, "TLC: %s" % r.violation)
        steps = cc.cex_to_behaviour(cexp, goal)
        beh = dict(cfg=CFGRECS[cfgname], snoff=[0, 0], clk=0, steps=steps, src="%s/%s/%s" % (goal, label, drive), goal=goal)
        return (goal, label, drive, beh, "ok %d steps, %d states" % (len(steps), r.distinct))
    finally:
        scr.cleanup()


def main():
    ap = argparse.ArgumentParser()
    ap.add_argument("--out", default=os.path.join(vlib.SPEC, "witness", "core_witness.ndjson.gz"))
    ap.add_argument("--timeout", type=int, default=90)
    ap.add_argument("--jobs", type=int, default=4)
    ap.add_argument("filter", nargs="*")
    a = ap.parse_args()
    jobs = []
    for g in goals():
        if a.filter and not any(f in g for f in a.filter):
            continue
        for (label, cfgname, kw) in VARIANTS:
            for drive in ("tick", "free"):
                jobs.append((g, label, cfgname, kw, a.timeout, drive))
    t0 = time.time()
    found, report = [], {}
    with concurrent.futures.ThreadPoolExecutor(a.jobs) as ex:
        for (goal, label, drive, beh, msg) in ex.map(one, jobs):
            report.setdefault(goal, []).append("%s/%s: %s" % (label, drive, msg))
            if beh:
                found.append(beh)
            print(goal, label, drive, msg, flush=True)
    os.makedirs(os.path.dirname(a.out), exist_ok=True)
    with gzip.open(a.out, "wt") as f:
        for b in found:
            f.write(json.dumps(b) + "\n")
    reached = {b["goal"] for b in found}
    print("witnesses: %d for %d/%d goals in %.0fs -> %s" % (len(found), len(reached), len(report), time.time() - t0, a.out))
    for g in report:
        if g not in reached:
            print("UNREACHED", g, report[g])


if __name__ == "__main__":
    main()
