#!/usr/bin/env python3
"""Driver: ./tools/check <ID> [--tier quick|thorough] [--replay file]
exit 0 = property held on everything explored; 1 = VIOLATION line printed; 2 = machinery error."""
import argparse
import importlib
import os
import sys
import traceback

sys.path.insert(0, os.path.dirname(os.path.abspath(__file__)))
import vlib  # noqa: E402

REGISTRY = {
    "C20": ("checks_ring", "check_c20"),
    "C01": ("checks_core", "check_c01"),
    "C02": ("checks_core", "check_c02"),
    "C03": ("checks_core", "check_c03"),
    "C04": ("checks_core", "check_c04"),
    "C05": ("checks_sess", "check_c05"),
    "C06": ("checks_sess", "check_c06"),
    "C08": ("checks_crypt", "check_c08"),
    "C09": ("checks_sess", "check_c09"),
    "C10": ("checks_sess", "check_c10"),
    "C13": ("checks_wait", "check_c13"),
    "C11": ("checks_list", "check_c11"),
    "C14": ("checks_race", "check_c14"),
    "C15": ("checks_sess", "check_c15"),
    "C17": ("checks_sched", "check_c17"),
    "C19": ("checks_sess", "check_c19"),
    "C07": ("checks_fec", "check_c07"),
    "C16": ("checks_fec", "check_c16"),
    "C12": ("checks_core", "check_c12"),
    "C18": ("checks_core", "check_c18"),
}


def main():
    ap = argparse.ArgumentParser()
    ap.add_argument("prop")
    ap.add_argument("--tier", default=os.environ.get("VERIF_TIER", "quick"), choices=["quick", "thorough"])
    ap.add_argument("--replay", default=None)
    a = ap.parse_args()
    if a.prop not in REGISTRY:
        print("unknown property", a.prop)
        return 2
    if a.replay:
        try:
            import json
            a.tier = json.load(open(a.replay)).get("replay", {}).get("tier", a.tier)
        except Exception:
            pass
    os.environ["VERIF_TIER"] = a.tier
    modname, fn = REGISTRY[a.prop]
    try:
        mod = importlib.import_module(modname)
        return getattr(mod, fn)(a.tier, a.replay)
    except vlib.MachineryError as e:
        print("MACHINERY-ERROR property=%s: %s" % (a.prop, e))
        return 2
    except Exception:
        traceback.print_exc()
        print("MACHINERY-ERROR property=%s: unexpected exception" % a.prop)
        return 2


if __name__ == "__main__":
    sys.exit(main())
