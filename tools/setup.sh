#!/bin/sh
# Build the framework from files on disk only (offline): parse every specification, build and vet the harness.
set -e
cd "$(dirname "$0")/.."
. tools/env.sh
T=$(mktemp -d)
trap 'rm -rf "$T"' EXIT
cp spec/*.tla spec/*.cfg "$T"/
for f in "$T"/*.tla; do
  ( cd "$T" && tla-sany "$(basename "$f")" > "$T/sany.out" 2>&1 ) || { cat "$T/sany.out"; echo "SANY failed on $f"; exit 1; }
  if grep -q "Fatal\|\*\*\* Errors\|Could not" "$T/sany.out"; then cat "$T/sany.out"; exit 1; fi
done
cat /repo/go.sum > harness/go.sum
[ -f harness/go.sum.extra ] && cat harness/go.sum.extra >> harness/go.sum
cd harness
$GO build -tags verif ./...
$GO vet -tags verif ./...
echo "setup ok"
