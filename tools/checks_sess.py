"""Session-level checks (real UDPSession / Listener over the in-memory network in virtual time):
C05 C06 C09 C10 C15 C19, and the session-level stage shared with C01 C02 C03."""
import json
import os
import re

import vlib
from vlib import MachineryError
import checks_core as cc

KNOWN_SESS = {"C15_NoLeak_BacklogSession": "C15/NoLeak_BacklogSession"}


def obs_cfg_sess(invariants):
    return "SPECIFICATION Spec\nINVARIANTS " + " ".join(invariants) + "\nCHECK_DEADLOCK FALSE\n"


def crash_signature(out):
    """A panic inside kcp-go kills the test process (library goroutines cannot be recovered by the harness)."""
    m = re.search(r"^panic: (.*)$", out, re.M)
    if not m:
        return None
    frames = re.findall(r"github.com/xtaci/kcp-go/v5\.[^\n(]*", out)
    if "deadlock: main bubble goroutine has exited" in out:
        return ("leak", "goroutines of the library still blocked when the bubble ended: " + ", ".join(sorted(set(frames))[:4]))
    if not frames:
        return None
    return ("panic", "%s in %s" % (m.group(1)[:200], frames[0]))


def run_sess(v, scr, prop, tests, env, timeout=3000):
    outd = scr.sub("sess-out")
    e = dict(VERIF_OUT=outd)
    e.update(env)
    rc, out = vlib.go_test("./sessdrv", tests, e, timeout=timeout)
    if rc != 0:
        cs = crash_signature(out)
        if cs:
            kind, desc = cs
            seedline = "seed=%s env=%s tests=%s" % (vlib.seed(), json.dumps(env), tests)
            if kind == "panic":
                v.violation("%s/ProcessPanic" % ("C05" if prop not in ("C10", "C05") else prop), "the process panicked inside kcp-go: %s\n%s\n%s" % (desc, seedline, out[-2500:]),
                            dict(kind="sess-run", tests=tests, env=env, seed=vlib.seed()))
            else:
                v.violation("C15/LeakAtBubbleEnd", desc + "\n" + seedline, dict(kind="sess-run", tests=tests, env=env, seed=vlib.seed()))
            return None
        raise MachineryError("session driver failed:\n" + out[-4000:])
    return outd


def validate_sess(v, scr, prop, outd, names, invariants, known=None):
    km = dict(KNOWN_SESS)
    km.update(known or {})
    old = cc.obs_cfg
    cc.obs_cfg = obs_cfg_sess
    try:
        for n in names:
            p = os.path.join(outd, n + ".ndjson")
            if not os.path.exists(p):
                continue
            cc.validate_traces(v, scr, prop, p, n, invariants, km, conformance=False, obs_module="SessObs")
            sp = os.path.join(outd, n + ".json")
            if os.path.exists(sp):
                s = json.load(open(sp))
                v.cov["evaluations"] += s["Events"]
                v.cov["distinct_nontrivial"] += s["Nontrivial"]
                v.notes[n] = dict(runs=s["Runs"], events=s["Events"], kinds=s.get("Kinds"))
    finally:
        cc.obs_cfg = old


def sample_trace(outd, name, nlines=12):
    p = os.path.join(outd, name + ".ndjson")
    out = []
    if os.path.exists(p):
        with open(p) as f:
            for i, ln in enumerate(f):
                if i >= nlines:
                    break
                o = json.loads(ln)
                out.append({k: o[k] for k in list(o)[:12]})
    return out


def sess_stage(v, scr, prop, invariants, env, tests="TestSessTransfer$", names=("sess_transfer",), known=None):
    """Shared by the core-level checks: session-level runs judged by the given SessObs monitors."""
    outd = run_sess(v, scr, prop, tests, env)
    if outd is None:
        return None
    validate_sess(v, scr, prop, outd, names, invariants, known)
    return outd


FRAME_QUICK = (("FrameMC", "Frame_mc_crc_2_1.cfg"), ("FrameMC", "Frame_mc_aead_3_2.cfg"), ("FrameMC", "Frame_mc_nil_0_0.cfg"))
FRAME_ALL = tuple(("FrameMC", "Frame_mc_%s_%d_%d.cfg" % (ck, d, p)) for ck in ("nil", "crc", "aead") for (d, p) in ((0, 0), (2, 1), (3, 2), (1, 1)))


def frame_mc(v, scr, cfgs, thorough=False):
    if cfgs == "frame":
        cfgs = FRAME_ALL if thorough else FRAME_QUICK
    for (module, name) in cfgs:
        r = vlib.run_tlc(scr, module, name, timeout=900)
        if not r.ok:
            raise MachineryError("%s: %s in %s.tla\n%s" % (name, r.violation, module, r.out[-2500:]))
        v.add_tlc(r, name)


def generic_sess_check(prop, tier, replay, level, invariants, tests, names, env_quick, env_thorough, rule, assumptions, mc_cfgs=(),
                       known=None, extra_stage=None):
    v = vlib.Verdict(prop, tier, level)
    scr = vlib.Scratch(prop.lower())
    th = tier == "thorough"
    try:
        env = dict(env_thorough if th else env_quick)
        if replay:
            v.write_evidence = False
            rp = json.load(open(replay))["replay"]
            os.environ["VERIF_SEED"] = str(rp.get("seed", vlib.seed()))
            env, tests_ = rp.get("env", env), rp.get("tests", tests)
            outd = run_sess(v, scr, prop, tests_, env)
            if outd:
                validate_sess(v, scr, prop, outd, names, invariants, known)
            v.cov["evaluations"] = max(1, v.cov["evaluations"])
            v.cov["distinct_nontrivial"] = max(2, v.cov["distinct_nontrivial"])
            return v.finish()
        frame_mc(v, scr, mc_cfgs, th)
        if extra_stage:
            extra_stage(v, scr, th)
        outd = run_sess(v, scr, prop, tests, env)
        if outd:
            validate_sess(v, scr, prop, outd, names, invariants, known)
            v.cov["samples"] = sample_trace(outd, names[0])
        else:
            v.cov["samples"] = [dict(note="the run crashed; see the violation")]
        # replay information for violations found in traces: seed + env re-create the run
        for i, (sig, desc, rp) in enumerate(v.violations):
            if rp.get("kind") == "core-actions":
                v.violations[i] = (sig, desc, dict(kind="sess-run", tests=tests, env=env, seed=vlib.seed(), trace_meta=rp.get("meta")))
        v.cov["rule"] = rule
        v.assumptions = list(assumptions)
        return v.finish()
    finally:
        scr.cleanup()


SESS_ASSUME = ["virtual time (testing/synctest) and the in-memory PacketConn stand for the OS clock and UDP",
               "reference evaluators independent of the code under test: crypto/cipher CFB with the documented IV, x/crypto salsa20, "
               "pbkdf2 XOR table, crypto/cipher GCM, hash/crc32, a fresh klauspost/reedsolomon codec, a wire parser written from README.md"]

RULE_TRANSFER = ("seeded scenarios: configuration drawn from {nil, aes-128, 3des, salsa20, xor, none, aes-gcm, sm4, blowfish, tea} x FEC "
                 "{off, 1/1, 2/1, 3/2, 10/3} x MTU {default, 200, 576, 1400, 1500} x windows {4..1024} x nodelay/interval/resend/nc x "
                 "stream/message x write-delay x ack-no-delay; client->server and optional server->client streams with write sizes "
                 "1 B..6 kB and read buffers 1 B..70 kB; loss 0-20 %, duplication, delays to 60 ms (reordering), outages to 60 s, "
                 "reader pauses to 40 s with control-datagram loss, SetMtu at random points, OOB messages of boundary sizes, Close in the "
                 "middle of the transfer in a seeded order. Non-trivial = run with at least one fault / pause / mid-transfer event")


def check_c09(tier, replay):
    inv = ["C09_Layout", "C09_ParityIsReedSolomon", "C09_FecTypeMatchesPosition", "C09_FecIdInRange", "C09_FecSequence", "C09_NonceFresh", "C09_WireReassembles"]
    return generic_sess_check("C09", tier, replay, "model_checking", inv, "TestSessTransfer$", ("sess_transfer",),
                              dict(SESS_RUNS=200), dict(SESS_RUNS=2500), RULE_TRANSFER + "; every datagram at the WriteTo boundary is decoded by the "
                              "independent parser and judged by the C09 monitors; the stream is reassembled from the wire alone",
                              SESS_ASSUME, mc_cfgs="frame")


def c10_stage(v, scr, th):
    """(a) the pinned framing model (parity sent whatever the MTU in force) must still be refuted by TLC -- the machinery sees the
    repaired defect; (b) its deterministic witness on the real code: a smaller MTU accepted while an FEC group is open."""
    # (c) the protocol core's own output sizes on the boundary scripts (three reservations in one flush, fragment-count boundaries)
    cc.scripts_stage(v, scr, "C10", ["C10_OutSize", "C05_NoPanic"])
    r = vlib.run_tlc(scr, "FrameMC", "Frame_pinned_crc_2_1.cfg", timeout=600)
    if r.ok or r.violation != "LenBound":
        raise MachineryError("Frame_pinned_crc_2_1.cfg: TLC no longer finds the pre-repair parity defect (%s)" % r.violation)
    v.notes.setdefault("tlc_runs", []).append(dict(label="Frame_pinned_crc_2_1.cfg (must be refuted: LenBound)", **r.summary()))
    rc, out = vlib.go_test("./sessdrv", "TestWitnessParityAfterShrink$", dict(VERIF_WITNESS_EXPECT="held"), timeout=300)
    if rc != 0:
        if "oversize parity packet after an accepted smaller MTU" in out or "an oversize datagram that is not the parity" in out:
            v.violation("C10/C10_LenWithinMtu/ParityOfGroupOpenAtShrink",
                        "a datagram above the accepted MTU: SetMtu(576) accepted while an FEC group (3+1) holding a 1128-byte data packet "
                        "is open; the parity packet is as long as that data packet\n" + out[-1500:],
                        dict(kind="sess-run", tests="TestWitnessParityAfterShrink$", env=dict(VERIF_WITNESS_EXPECT="held"), seed=vlib.seed()))
        else:
            cs = crash_signature(out)
            if cs and cs[0] == "panic":
                v.violation("C10/ProcessPanic", "the process panicked inside kcp-go: %s\n%s" % (cs[1], out[-2500:]),
                            dict(kind="sess-run", tests="TestWitnessParityAfterShrink$", env={}, seed=vlib.seed()))
            else:
                raise MachineryError("witness driver failed:\n" + out[-3000:])
    v.cov["evaluations"] += 1


def check_c10(tier, replay):
    inv = ["C10_LenWithinMtu", "C09_Layout"]
    return generic_sess_check("C10", tier, replay, "model_checking", inv, "TestSessTransfer$|TestSessMtu$", ("sess_transfer", "sess_mtu"),
                              dict(SESS_RUNS=120, SESS_MTU_EVENTS=1), dict(SESS_RUNS=1500, SESS_MTU_EVENTS=1),
                              RULE_TRANSFER + "; SetMtu with boundary values (header+24, +25, +50, 300..1500, 1600, 100000, -5, 0) at random "
                              "points of the transfer, OOB of GetOOBMaxSize and +1; the wire monitor compares every datagram length with the "
                              "session MTU in force; the core's own output sizes are judged by C10_OutSize in the core traces",
                              SESS_ASSUME + ["a datagram built before a shrinking SetMtu returned and sent at the same instant is judged by the previous MTU",
                                             "while a SetMtu call is executing either the old or the new value may be in force"],
                              mc_cfgs="frame", extra_stage=c10_stage)


def c19_stage(v, scr, th):
    import checks_list
    checks_list.sess_routing_stage(v, scr, "C19", ["C19_HandlerOnlyOwnConversation", "C19_OOBLeavesStateAlone"], th)


def c06_stage(v, scr, th):
    import checks_list
    checks_list.sess_routing_stage(v, scr, "C06", ["C06_IntegrityGuard"], th)


def check_c19(tier, replay):
    inv = ["C19_IntactOrAbsent", "C19_RefusalRule", "C19_OOBFrame", "C19_FecProtectionKept", "C09_FecSequence", "C09_FecTypeMatchesPosition", "C09_FecIdInRange", "C01_ReadIsNextBytes",
           "C02_TransferCompletes", "C10_LenWithinMtu"]
    return generic_sess_check("C19", tier, replay, "model_checking", inv, "TestSessTransfer$", ("sess_transfer",),
                              dict(SESS_RUNS=200, SESS_OOB=1), dict(SESS_RUNS=2500, SESS_OOB=1),
                              RULE_TRANSFER + "; OOB payloads of length 0, 1, 100, max, max+1 and random interleaved with Write traffic in both "
                              "directions, handlers on both sides; every handler invocation must equal a message sent by the peer of that "
                              "session; refusal exactly for oversize / no FEC; the FEC id sequence on the wire must be unaffected; after the "
                              "transfer well-formed out-of-band datagrams of OTHER conversations between the same two addresses arrive at the "
                              "dialled session and must not reach its handler; crafted datagrams of every class at a dialled session, three "
                              "cipher kinds: the handler runs exactly for own-conversation messages with valid integrity (SessionRouteTrace)",
                              SESS_ASSUME, mc_cfgs="frame", extra_stage=c19_stage)


def c15_stage(v, scr, th):
    """The strict form (also sessions never handed out by Accept are released) must still be refuted by TLC on the model of the
    pinned code: it is the model-level form of the listed known finding C15/NoLeak_BacklogSession."""
    r = vlib.run_tlc(scr, "Lifecycle", "Lifecycle_known.cfg", timeout=600)
    if r.ok:
        raise MachineryError("Lifecycle_known.cfg: ReleasedAll holds -- the model no longer shows the backlog-session leak")
    if r.violation in ("error", None):
        raise MachineryError("Lifecycle_known.cfg: TLC error\n" + r.out[-2000:])
    v.notes.setdefault("tlc_runs", []).append(dict(label="Lifecycle_known.cfg (must be refuted: ReleasedAll)", **r.summary()))


def check_c15(tier, replay):
    inv = ["C15_NoLeak", "C15_NoLeak_BacklogSession", "C15_PoolOwnership", "C13_AfterClose"]
    return generic_sess_check("C15", tier, replay, "model_checking", inv, "TestSessTransfer$|TestSessCloseRace$|TestSessDeadLink$", ("sess_transfer", "sess_closerace", "sess_deadlink"),
                              dict(SESS_RUNS=200, SESS_CLOSEMID=1), dict(SESS_RUNS=2500, SESS_CLOSEMID=1),
                              RULE_TRANSFER + "; every run ends by closing client, accepted session, listener and transport in a seeded order "
                              "(half of the runs in the middle of the transfer); 12 virtual seconds later no goroutine with a kcp-go frame "
                              "may remain in the bubble; the pool sanitizer (verif tag) tracks every Get/Put: a second Put of the same "
                              "acquisition or a write into a recycled (poisoned, quarantined) buffer is an anomaly; in a quarter of the mid-transfer runs "
                              "the output is paced (SetRateLimit) so that packets wait in the post-processing queue when Close comes, in half of them "
                              "the transports start failing writes shortly before; every fifth run uses sessions / listeners that own their transport; "
                              "forced interleaving (the input hook as a scheduler gate): a datagram that has passed the receive loop's closed-check "
                              "waits at the entry of kcpInput while Close of that session runs to completion, then is processed (lossy FEC traffic: "
                              "the decoder holds shards); Close after a long silence: the peer goes away with data unacknowledged, the session idles for "
                              "4 / 45 / 90 virtual minutes (far past the dead-link threshold of 20 transmissions), then is closed -- dialled sessions "
                              "that own their transport are not helped by the application closing the socket",
                              SESS_ASSUME + ["buffers still owned when a session is dropped are left to the garbage collector (not an ownership violation)"],
                              mc_cfgs=(("Lifecycle", "Lifecycle_mc.cfg"), ("Lifecycle", "Lifecycle_mc_owned.cfg")), extra_stage=c15_stage)


def check_c06(tier, replay):
    inv = ["C06_NoEffect", "C06_CounterOnly", "C01_ReadIsNextBytes"]
    return generic_sess_check("C06", tier, replay, "model_checking", inv, "TestSessCorrupt$", ("sess_corrupt",),
                              dict(SESS_RUNS=78), dict(SESS_RUNS=780),
                              "for every cipher: after a lossy transfer, corrupted copies of captured datagrams (data, ACK-only, parity, OOB, "
                              "retransmissions) are injected in a quiet moment -- AEAD: one flipped bit; CRC ciphers: the datagram is decrypted "
                              "with the reference cipher, an error burst of 1..32 bits is applied to the CRC-covered bytes or the stored CRC is "
                              "changed, and it is re-encrypted; too-short datagrams -- into the listener (from the session's peer and from an "
                              "unknown address) and into the dialled session; deep digests (protocol state, FEC decoder incl. the auto-tune "
                              "sample ring, stream carry-over, wake-up tokens, session table, accept backlog) before and after must be equal "
                              "and InCsumErrors must change by exactly 1 (0 for too-short); crafted datagrams of every class at a dialled "
                              "session: a failing / missing integrity field leads only to the two drop exits, no handler, unchanged digest "
                              "(SessionRouteTrace). Non-trivial = every injected corruption",
                              SESS_ASSUME, mc_cfgs="frame", extra_stage=c06_stage)


def c05_stage(v, scr, th):
    """The raw core and the bare FEC decoder under forged input: (a) the boundary scripts of checks_core (forged fragment trains
    read with the PeekSize idiom, fragment-count boundaries) judged by C05_NoPanic and the C04 bounds; (b) forged FEC sequence
    ids from the boundary regions of the id space fed to the real decoder, judged by C05_NoPanic / C05_DecoderBounded."""
    import checks_fec as cf
    outd = scr.sub("c05-out")
    cc.scripts_stage(v, scr, "C05", ["C05_NoPanic", "C04_RcvQueueBounded", "C04_RcvBufBounded", "C10_OutSize"])
    # (c) an on-path adversary against sessions without a cipher: the packet the receiver RECONSTRUCTS carries a forged size prefix
    sess_stage(v, scr, "C05", ["C05_Bounds", "C01_ReadIsNextBytes", "C02_TransferCompletes", "C15_PoolOwnership"], dict(SESS_RUNS=600 if th else 60),
               tests="TestSessForgedRecovery$", names=("sess_forgedrec",))
    rc, out = vlib.go_test("./fecdrv", "TestFecForged$", dict(VERIF_OUT=outd, FEC_RUNS=96 if th else 16), timeout=1200)
    if rc != 0:
        raise MachineryError("fec driver failed:\n" + out[-3000:])
    cf.summarize(v, outd, ["fec_forged"])
    old = cc.obs_cfg
    cc.obs_cfg = cf.obs_cfg_fec
    try:
        cc.validate_traces(v, scr, "C05", os.path.join(outd, "fec_forged.ndjson"), "fec_forged", ["C05_NoPanic", "C05_DecoderBounded"], None,
                           conformance=False, obs_module="FecObs")
    finally:
        cc.obs_cfg = old


def check_c05(tier, replay):
    inv = ["C05_Bounds", "C15_PoolOwnership"]
    return generic_sess_check("C05", tier, replay, "exploration", inv, "TestSessGarbage$", ("sess_garbage",),
                              dict(SESS_RUNS=90), dict(SESS_RUNS=900),
                              "while lossy traffic flows, random byte strings of boundary lengths (0,1,5,6,7,8,11,12,19,20,23,24,25,48,200,1400,"
                              "1500) and structure-aware mutations of captured datagrams (truncation, extension, bit flips, 32/16-bit field "
                              "splicing with boundary values) arrive from the peer's address and from unknown addresses, for every cipher/FEC "
                              "class (with no cipher they reach the FEC and KCP parsers); a panic anywhere in the library kills the run and is "
                              "the violation; queue lengths, shard-set count and pool balance are sampled. Raw core: boundary scripts (forged fragment "
                              "trains whose frg bytes are inconsistent, read with a buffer of exactly PeekSize() bytes; messages of 254..257 "
                              "fragments) validated against KcpCore.tla and judged by C05_NoPanic / the C04 bounds; bare FEC decoder: genuine "
                              "traffic mixed with datagrams whose sequence id is altered into the boundary regions of the id space (around 2^31 "
                              "from the newest id, around the wrap value, top of the word, far behind, random; type/position kept consistent; "
                              "thousands of distinct shard ids), judged by C05_DecoderBounded; on-path adversary against cipher-less FEC sessions: one data packet "
                              "of every fourth group dropped and the first parity packet altered (solved with a reference Reed-Solomon codec) so that "
                              "the packet the receiver RECONSTRUCTS has a boundary value in its size prefix (0, 1, 2, 3, around a KCP header, true "
                              "size +/- 1, more than it holds, 65535) -- no crash, stream intact. Further forged input reaches the core and the "
                              "decoder in the C04/C07 checks. Non-trivial = every run (each injects 200-2000 datagrams)",
                              SESS_ASSUME + ["heap growth is bounded through the library's own accounting (queue lengths, shard sets, pool balance)"],
                              mc_cfgs=(("FrameMC", "Frame_mc_nil_0_0.cfg"),), extra_stage=c05_stage)
