"""C07 (FEC reconstructs exactly the missing packets) and C16 (ratio mismatch / auto-tune), on Fec.tla / FecNet.tla."""
import json
import os
import shutil

import vlib
from vlib import MachineryError
import checks_core as cc


def fec_cfg(ed, ep, dd, dp, start, invariants, w=64, ringn=4, sizes="{10}", groups=3, drop=2, dup=1, air=4, skip=True, calm=0,
            spec="Spec", extra="", view=True):
    s = "SPECIFICATION %s\nCONSTANTS\n  W = %d\n  RingN = %d\n  MaxSets = 3\n" % (spec, w, ringn)
    s += "  Ed = %d\n  Ep = %d\n  Dd = %d\n  Dp = %d\n  Start = %d\n  Sizes = %s\n" % (ed, ep, dd, dp, start, sizes)
    s += "  MaxGroups = %d\n  MaxDrop = %d\n  MaxDup = %d\n  MaxAir = %d\n  AllowSkip = %s\n  CalmNeeded = %d\n" % (
        groups, drop, dup, air, "TRUE" if skip else "FALSE", calm)
    s += extra
    s += "INVARIANTS " + " ".join(invariants) + "\n"
    if view:
        s += "VIEW View\n"
    s += "CHECK_DEADLOCK FALSE\n"
    return s


def run_fec_mc(v, scr, name, text, timeout=1500, budget=None):
    """budget (seconds): for the additional instances of the thorough tier -- an instance that TLC has not exhausted within the budget is
    recorded in the evidence as incomplete (nothing was violated in what was explored) instead of failing the check."""
    p = cc.write_cfg(scr, name, text)
    try:
        r = vlib.run_tlc(scr, "FecNetMC", name, extra_files=[p], timeout=budget or timeout)
    except MachineryError as e:
        if budget and "timed out" in str(e):
            v.notes.setdefault("instances_not_exhausted_within_budget", []).append("%s (%d s)" % (name, budget))
            return None
        raise
    if not r.ok:
        # Fec.tla follows the code; a counterexample here must be confirmed on the code by the drives (the FecObs monitors
        # evaluate the same formulas on real traces). It is reported as machinery unless the drives reproduce it.
        raise MachineryError("%s: %s in the specification\n%s" % (name, r.violation, r.out[-2500:]))
    v.add_tlc(r, name)
    return r


def gen_fec_behaviours(scr, outpath, cfgs, num, depth, seed):
    n = 0
    with open(outpath, "a") as f:
        for i, (label, text) in enumerate(cfgs):
            name = "fsim_%s.cfg" % label
            p = cc.write_cfg(scr, name, text)
            workers = 4
            r = vlib.run_tlc(scr, "FecNetSim", name, workers=workers,
                             extra=("-simulate", "num=%d" % max(1, num // workers), "-depth", str(depth + 2), "-seed", str(seed * 77 + i)),
                             timeout=900, extra_files=[p])
            if not r.ok:
                raise MachineryError("fec simulation %s stopped: %s\n%s" % (label, r.violation, r.out[-2000:]))
            for b in vlib.iter_marked(r.outpath, "BEH"):
                b["src"] = label
                f.write(json.dumps(b) + "\n")
                n += 1
            shutil.rmtree(r.wd, ignore_errors=True)
    return n


def validate(v, scr, prop, outd, names, invariants, known_map=None):
    for n in names:
        p = os.path.join(outd, n + ".ndjson")
        if os.path.exists(p):
            cc.validate_traces(v, scr, prop, p, n, invariants, known_map, conformance=True, obs_module="FecObs",
                               trace_module="FecTrace", trace_cfg="FecTrace.cfg")


def obs_cfg_fec(invariants):
    return "SPECIFICATION Spec\nINVARIANTS " + " ".join(invariants) + "\nCHECK_DEADLOCK FALSE\n"


def summarize(v, outd, names):
    for n in names:
        p = os.path.join(outd, n + ".json")
        if not os.path.exists(p):
            continue
        s = json.load(open(p))
        v.cov["evaluations"] += s["Steps"]
        v.cov["distinct_nontrivial"] += s["Nontrivial"]
        for d in s.get("Drift") or []:
            v.drift.append(n + ": " + d)
        v.notes[n] = dict(behaviours=s["Behaviours"], steps=s["Steps"], kinds=s["Kinds"])
        if s.get("Panics"):
            v.notes.setdefault("panics", []).extend(s["Panics"][:5])


def sim_text(ed, ep, dd, dp, depth, groups=8, drop=6, dup=3, air=12, skip=True):
    return fec_cfg(ed, ep, dd, dp, 0, ["EmitBeh"], w=0, ringn=258, sizes="{0, 1, 33, 700, 1392}", groups=groups, drop=drop, dup=dup,
                   air=air, skip=skip, spec="SimSpec", extra="  SimDepth = %d\n" % depth, view=False)


def check_c07(tier, replay):
    v = vlib.Verdict("C07", tier, "model_checking")
    scr = vlib.Scratch("c07")
    th = tier == "thorough"
    inv = ["C07_OnlyOriginals", "C07_Recoverable", "C16_Stable", "C05_NoPanic", "C05_DecoderBounded"]
    spec_inv = ["OnlyOriginals", "Recoverable", "Stable", "Bounded"]
    try:
        cc.obs_cfg = obs_cfg_fec  # FecObs has no Mod constant
        if replay:
            vlib.replay_as_rerun(v, replay)   # everything is derived from the seed and tier recorded in the replay file
        # 1. MC: matching ratios, every subset / order / duplicate within the budgets, wrap point inside the run (W = 64)
        insts = [(2, 1, 54), (2, 1, 0), (1, 1, 58), (1, 2, 57), (2, 2, 52)]
        if th:
            insts += [(3, 1, 52), (3, 2, 50), (2, 1, 57), (1, 1, 60)]
        for (d, p, start) in insts:
            n = d + p
            run_fec_mc(v, scr, "mc_c07_%d_%d_%d.cfg" % (d, p, start),
                       fec_cfg(d, p, d, p, start, spec_inv, groups=3 if n <= 3 else 2, air=n + 1 if n <= 3 else n, drop=2, dup=1,
                               sizes="{10, 20}" if th and n <= 3 else "{10}"))
        # 2. GEN
        ind, outd = scr.sub("in"), scr.sub("out")
        bpath = os.path.join(ind, "fec_behaviours.ndjson")
        open(bpath, "w").close()
        sims = [("m21", sim_text(2, 1, 2, 1, 60)), ("m32", sim_text(3, 2, 3, 2, 80)), ("m11", sim_text(1, 1, 1, 1, 50)),
                ("m13", sim_text(1, 3, 1, 3, 60)), ("m52", sim_text(5, 2, 5, 2, 90, groups=6, air=14))]
        nb = gen_fec_behaviours(scr, bpath, sims, 400 if th else 80, 90, vlib.seed())
        v.notes["generated_behaviours"] = nb
        # 3./4.
        env = dict(VERIF_IN=ind, VERIF_OUT=outd, FEC_RUNS=160 if th else 40, FEC_GROUPS=60 if th else 30)
        rc, out = vlib.go_test("./fecdrv", "TestFecReplay$|TestFecDrive$", env, timeout=2400)
        if rc != 0:
            raise MachineryError("fec driver failed:\n" + out[-4000:])
        names = ["fec_replay", "fec_drive"]
        summarize(v, outd, names)
        validate(v, scr, "C07", outd, names, inv)
        v.cov["rule"] = ("TLC: matching ratios with d+p <= 5, every arrival subset/order/duplicate within the budgets, two neighbouring "
                         "groups interleaved, parity skipped, the wrap point inside the run (scaled word). Code: TLC-generated behaviours "
                         "(no wrap) replayed on the real encoder/decoder with decoder state and reconstructed packets compared per step; "
                         "seeded random runs up to 128/127 with payload sizes 0..1392, loss up to 50 %, duplicates, reordering across "
                         "groups, skipped parity, encoder positioned within three groups of the real wrap value; every reconstructed "
                         "packet is compared byte for byte (with its length) with the originals. Non-trivial = behaviour/run with at "
                         "least one drop, duplicate or reconstruction")
        with open(bpath) as f:
            b = json.loads(f.readline())
        v.cov["samples"] = [dict(ratio=[b["ed"], b["ep"]], actions=[s["a"] for s in b["steps"][:30]])]
        v.assumptions = ["Reed-Solomon arithmetic abstracted by its MDS property in the model; byte equality observed on the real codec",
                         "a group is 'among the few most recent' while at most 2 newer groups have been seen"]
        return v.finish()
    finally:
        scr.cleanup()


def check_c16(tier, replay):
    v = vlib.Verdict("C16", tier, "model_checking")
    scr = vlib.Scratch("c16")
    th = tier == "thorough"
    inv = ["C16_Stable", "C16_Converges", "C07_OnlyOriginals", "C07_Recoverable", "C05_NoPanic", "C05_DecoderBounded"]
    try:
        cc.obs_cfg = obs_cfg_fec
        if replay:
            vlib.replay_as_rerun(v, replay)   # everything is derived from the seed and tier recorded in the replay file
        # 1. MC: convergence for mismatched pairs (RingN scaled to 10), stability for matching pairs under all fault patterns
        pairs = [(2, 1, 1, 1, 0), (2, 1, 1, 1, 42), (1, 1, 2, 1, 0)]
        if th:
            pairs += [(1, 2, 2, 1, 0), (2, 2, 1, 1, 40), (3, 1, 1, 1, 0), (1, 1, 3, 2, 0), (2, 1, 2, 2, 36), (1, 3, 2, 1, 44), (3, 2, 2, 1, 0)]
        base_pairs = 3
        for pi, (ed, ep, dd, dp, start) in enumerate(pairs):
            n = ed + ep
            need = 10 + 2 * n
            groups = (need + 2 * n) // n + 3
            run_fec_mc(v, scr, "mc_c16_%d_%d_%d_%d_%d.cfg" % (ed, ep, dd, dp, start),
                       fec_cfg(ed, ep, dd, dp, start, ["Converges", "Bounded"], w=64 if start == 0 else 128, ringn=10, groups=groups, drop=1, dup=1,
                               air=n, skip=False, calm=need), budget=600 if pi >= base_pairs else None)
        for si, (d, p, start) in enumerate([(2, 1, 54), (1, 1, 58), (1, 2, 0)] + ([(2, 2, 52), (3, 1, 48)] if th else [])):
            n = d + p
            run_fec_mc(v, scr, "mc_c16_stable_%d_%d_%d.cfg" % (d, p, start),
                       fec_cfg(d, p, d, p, start, ["Stable", "Bounded"], ringn=6, groups=3, air=n + 1, drop=2, dup=2), budget=600 if si >= 3 else None)
        # 2. GEN (matching + mismatched, replayed far from wrap; RingN is the real 258 in the code so no tuning happens in 90 steps
        #    unless the ratio differs -- then the model says 'tuning' and so must the code)
        ind, outd = scr.sub("in"), scr.sub("out")
        bpath = os.path.join(ind, "fec_behaviours.ndjson")
        open(bpath, "w").close()
        sims = [("x21_11", sim_text(2, 1, 1, 1, 70, skip=False)), ("x11_32", sim_text(1, 1, 3, 2, 70, skip=False)),
                ("x32_21", sim_text(3, 2, 2, 1, 80, skip=False)), ("m21", sim_text(2, 1, 2, 1, 60))]
        nb = gen_fec_behaviours(scr, bpath, sims, 300 if th else 60, 80, vlib.seed())
        v.notes["generated_behaviours"] = nb
        env = dict(VERIF_IN=ind, VERIF_OUT=outd, FEC_PAIR_SUM=9 if th else 6, FEC_BIG_PAIRS=40 if th else 8, FEC_BOUNDARY_PAIRS=10 if th else 3)
        rc, out = vlib.go_test("./fecdrv", "TestFecReplay$|TestFecMismatch$", env, timeout=3000)
        if rc != 0:
            raise MachineryError("fec driver failed:\n" + out[-4000:])
        names = ["fec_replay", "fec_mismatch"]
        summarize(v, outd, names)
        validate(v, scr, "C16", outd, names, inv)
        v.cov["rule"] = ("TLC: convergence after an uninterrupted run of RingN+2(d+p) packets for mismatched pairs (ring scaled to 10), after "
                         "every fault pattern within the budget and with the wrap point inside the run; stability for matching pairs under "
                         "all fault patterns. Code: every pair with d+p <= 6 (9 in thorough) on both sides plus sampled pairs up to 255, "
                         "starting at 0, mid-space and within ~600 ids below the real wrap value: faulty prefix, then exactly 258+2(d+p) "
                         "in-order packets, then the adopted ratio must equal the sender's, then one data packet per group is lost and "
                         "must be reconstructed. Non-trivial = pair with differing ratios")
        v.cov["samples"] = [dict(pairs=pairs[:4])]
        v.assumptions = ["'uninterrupted run' = consecutive sequence ids without a skipped parity block",
                         "what a mismatched decoder emits before convergence is rejected by KCP's header validation (observed at session level)"]
        return v.finish()
    finally:
        scr.cleanup()
