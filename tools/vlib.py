"""Shared machinery for the /verif checks: scratch space, TLC runs, behaviour
extraction (edge lists -> covering paths, simulation histories), the Go harness
runner, trace validation, known findings, evidence files, verdict/exit codes."""
import hashlib
import json
import os
import re
import shutil
import subprocess
import sys
import tempfile
import time

ROOT = os.path.dirname(os.path.dirname(os.path.abspath(__file__)))
SPEC = os.path.join(ROOT, "spec")
HARNESS = os.path.join(ROOT, "harness")
# VERIF_REPO / VERIF_EVIDENCE_DIR are for the maintainer's own mutant sweeps (tools/sweep_seeds.py): a scratch worktree of
# /repo with a seeded change is checked without touching /repo or the committed evidence. Registered commands never set them.
REPO = os.environ.get("VERIF_REPO") or "/repo"
EVID = os.environ.get("VERIF_EVIDENCE_DIR") or os.path.join(ROOT, "evidence")
REPLAYS = os.environ.get("VERIF_REPLAY_DIR") or os.path.join(ROOT, "replays")
NCPU = os.cpu_count() or 4

GOENV = dict(GOFLAGS="-mod=mod", GOPROXY="off", GOSUMDB="off", GOTOOLCHAIN="local")
GO = "go1.26"


class MachineryError(Exception):
    """Anything that is not a verdict about kcp-go: exit 2, never a VIOLATION."""


def log(*a):
    print(*a, flush=True)


def seed():
    try:
        return int(os.environ.get("VERIF_SEED", "1"))
    except ValueError:
        return 1


# --------------------------------------------------------------------------
# scratch
# --------------------------------------------------------------------------
class Scratch:
    def __init__(self, tag):
        base = os.environ.get("VERIF_SCRATCH") or tempfile.gettempdir()
        self.dir = tempfile.mkdtemp(prefix="verif-%s-" % tag, dir=base)

    def path(self, *p):
        d = os.path.join(self.dir, *p)
        return d

    def sub(self, name):
        d = os.path.join(self.dir, name)
        os.makedirs(d, exist_ok=True)
        return d

    def cleanup(self):
        if os.environ.get("VERIF_KEEP"):
            log("scratch kept at", self.dir)
            return
        shutil.rmtree(self.dir, ignore_errors=True)


# --------------------------------------------------------------------------
# TLC
# --------------------------------------------------------------------------
class TlcResult:
    def __init__(self):
        self.ok = False
        self.generated = 0
        self.distinct = 0
        self.depth = 0
        self.out = ""
        self.violation = None  # name of violated invariant / property, or "deadlock" / "error"
        self.wall = 0.0
        self.rc = 0
        self.error_trace = []

    def summary(self):
        return dict(states=self.distinct, transitions=self.generated, depth=self.depth,
                    wall_s=round(self.wall, 2))


_RE_STATES = re.compile(r"(\d+) states generated, (\d+) distinct states found")
_RE_DEPTH = re.compile(r"depth of the complete state graph search is (\d+)")
_RE_INV = re.compile(r"Invariant (\S+) is violated")
_RE_PROP = re.compile(r"(?:Temporal properties were violated|Action property (\S+) is violated|property (\S+) is violated|Temporal property (\S+) was violated)")


def run_tlc(scr, module, cfg, workers=None, extra=(), timeout=600, java_opts=None, copy_from=SPEC,
            keep_stdout_path=None, extra_files=()):
    """Run TLC on spec/<module>.tla with spec/<cfg> inside a private directory."""
    wd = scr.sub("tlc-%s-%d" % (os.path.splitext(cfg)[0], int(time.time() * 1000) % 100000))
    for f in os.listdir(copy_from):
        if f.endswith(".tla") or f.endswith(".cfg"):
            shutil.copy(os.path.join(copy_from, f), wd)
    for src in extra_files:
        shutil.copy(src, wd)
    cmd = ["tlc", "-workers", str(workers or NCPU), "-metadir", os.path.join(wd, "md"), "-config", cfg]
    cmd += list(extra) + [module + ".tla"]
    env = dict(os.environ)
    jo = "-Xss256m"
    if java_opts:
        jo += " " + java_opts
    env["JAVA_TOOL_OPTIONS"] = (env.get("JAVA_TOOL_OPTIONS", "") + " " + jo).strip()
    t0 = time.time()
    outpath = keep_stdout_path or os.path.join(wd, "tlc.out")
    with open(outpath, "w") as fo:
        try:
            p = subprocess.run(cmd, cwd=wd, env=env, stdout=fo, stderr=subprocess.STDOUT, timeout=timeout)
            rc = p.returncode
        except subprocess.TimeoutExpired:
            subprocess.run(["pkill", "-f", wd], check=False)
            raise MachineryError("TLC timed out after %ds: %s %s" % (timeout, module, cfg))
    r = TlcResult()
    r.wall = time.time() - t0
    r.rc = rc
    r.outpath = outpath
    r.wd = wd
    # only keep non-bulk lines in memory
    lines = []
    with open(outpath, errors="replace") as f:
        for ln in f:
            if ln.startswith('<<"EDGE"') or ln.startswith('<<"BEH"'):
                continue
            lines.append(ln)
    r.out = "".join(lines)
    for m in _RE_STATES.finditer(r.out):
        r.generated, r.distinct = int(m.group(1)), int(m.group(2))
    m = _RE_DEPTH.search(r.out)
    if m:
        r.depth = int(m.group(1))
    if "Model checking completed. No error has been found." in r.out or (
            "Finished in" in r.out and rc == 0):
        r.ok = True
    else:
        m = _RE_INV.search(r.out)
        if m:
            r.violation = m.group(1)
        elif "Deadlock reached" in r.out:
            r.violation = "deadlock"
        elif _RE_PROP.search(r.out):
            m = _RE_PROP.search(r.out)
            r.violation = m.group(1) or m.group(2) or m.group(3) or "temporal"
        elif "The postcondition" in r.out or "Postcondition" in r.out:
            r.violation = "postcondition"
        elif "is violated" in r.out:
            r.violation = "violated"
        else:
            r.violation = "error"
    return r


def tlc_error_state(r):
    """Return the text of the last state printed in TLC's error trace (or '')."""
    parts = re.split(r"\nState \d+: ", r.out)
    if len(parts) < 2:
        return ""
    return parts[-1].split("\n\n")[0]


def tlc_last_var(r, var):
    """Value text of `var` in the last state of TLC's error trace."""
    st = tlc_error_state(r)
    m = re.search(r"/\\ %s = (.*)" % re.escape(var), st)
    return m.group(1).strip() if m else None


def must_ok(r, what):
    if not r.ok:
        tail = "\n".join(r.out.splitlines()[-40:])
        raise MachineryError("%s: TLC did not finish cleanly (%s)\n%s" % (what, r.violation, tail))
    return r


def iter_marked(outpath, mark):
    """Yield the JSON payloads of lines `<<"MARK", "json">>` printed by PrintT."""
    pre = '<<"%s", ' % mark
    with open(outpath, errors="replace") as f:
        for ln in f:
            if not ln.startswith(pre):
                continue
            s = ln.strip()[len(pre):-2]
            try:
                inner = json.loads(s)
                yield json.loads(inner)
            except Exception as e:  # truncated line etc.
                raise MachineryError("cannot parse %s line: %s (%s)" % (mark, ln[:200], e))


# --------------------------------------------------------------------------
# edge list -> covering paths
# --------------------------------------------------------------------------
def _key(o):
    return hashlib.sha1(json.dumps(o, sort_keys=True).encode()).hexdigest()[:16]


def edges_to_paths(outpath, is_init, max_path_len=3000):
    """Read EDGE lines; return (paths, nstates, nedges). Each path is a list of
    {"a": action, "s": expected post-projection}; the first element of each path is
    an initial state. Every distinct edge appears in at least one path."""
    nodes = {}  # key -> node obj
    out = {}    # key -> list of (edge_id, tokey)
    edges = []
    seen = set()
    for e in iter_marked(outpath, "EDGE"):
        fk, tk = _key(e["from"]), _key(e["to"])
        if (fk, tk) in seen:
            continue
        seen.add((fk, tk))
        nodes.setdefault(fk, e["from"])
        nodes.setdefault(tk, e["to"])
        out.setdefault(fk, []).append((len(edges), tk))
        edges.append((fk, tk))
    inits = [k for k, n in nodes.items() if is_init(n)]
    if not inits:
        raise MachineryError("no initial state among %d nodes" % len(nodes))
    # BFS tree from the initial states (shortest route to every node)
    parent = {k: None for k in inits}
    order = list(inits)
    i = 0
    while i < len(order):
        k = order[i]
        i += 1
        for (eid, tk) in out.get(k, []):
            if tk not in parent:
                parent[tk] = k
                order.append(tk)

    def route(k):
        r = []
        while k is not None:
            r.append(k)
            k = parent[k]
        r.reverse()
        return r

    covered = [False] * len(edges)
    uncov = {k: len(out.get(k, [])) for k in nodes}
    nxt_idx = {k: 0 for k in nodes}
    paths = []

    def next_uncovered(cur):
        lst = out.get(cur, [])
        j = nxt_idx[cur]
        while j < len(lst) and covered[lst[j][0]]:
            j += 1
        nxt_idx[cur] = j
        return lst[j] if j < len(lst) else None

    def nearest(cur):
        """shortest route (list of node keys after cur) to a node that still has an uncovered out-edge"""
        prev = {cur: None}
        dq = [cur]
        i = 0
        while i < len(dq):
            k = dq[i]
            i += 1
            if uncov[k] > 0 and k != cur:
                r = []
                while k != cur:
                    r.append(k)
                    k = prev[k]
                r.reverse()
                return r
            for (_, tk) in out.get(k, []):
                if tk not in prev:
                    prev[tk] = k
                    dq.append(tk)
        return None

    for start_eid in range(len(edges)):
        if covered[start_eid]:
            continue
        fk, _ = edges[start_eid]
        if fk not in parent:
            continue  # unreachable (cannot happen: TLC only explores reachable states)
        p = route(fk)
        cur = fk
        while len(p) < max_path_len:
            e = next_uncovered(cur)
            if e is None:
                r = nearest(cur)
                if r is None:
                    break
                p.extend(r)
                cur = r[-1]
                continue
            eid, tk = e
            covered[eid] = True
            uncov[cur] -= 1
            p.append(tk)
            cur = tk
        paths.append([nodes[k] for k in p])
    # tree edges are covered implicitly by routes; mark for the record
    return paths, len(nodes), len(edges)


# --------------------------------------------------------------------------
# Go harness
# --------------------------------------------------------------------------
def go_env(extra=None):
    env = dict(os.environ)
    env.update(GOENV)
    if extra:
        env.update({k: str(v) for k, v in extra.items()})
    return env


def prepare_harness():
    """go.sum comes from /repo (the harness only adds cached modules). Returns extra `go` arguments
    (a -modfile pointing at an alternate repository when VERIF_REPO is set)."""
    src = os.path.join(REPO, "go.sum")
    extra = os.path.join(HARNESS, "go.sum.extra")
    data = open(src).read()
    if os.path.exists(extra):
        data += open(extra).read()
    if REPO != "/repo":
        d = os.path.join(REPO, ".verif-mod")
        os.makedirs(d, exist_ok=True)
        mod = open(os.path.join(HARNESS, "go.mod")).read().replace("=> /repo", "=> " + REPO)
        for name, content in (("go.mod", mod), ("go.sum", data)):
            pth = os.path.join(d, name)
            if not os.path.exists(pth) or open(pth).read() != content:
                with open(pth, "w") as f:
                    f.write(content)
        return ["-modfile=" + os.path.join(d, "go.mod")]
    dst = os.path.join(HARNESS, "go.sum")
    if not os.path.exists(dst) or open(dst).read() != data:
        with open(dst, "w") as f:
            f.write(data)
    return []


def go_test(pkg, run, env, timeout=900, race=False, tags="verif", count=1, extra_args=(), logpath=None):
    """Build (from /repo's working tree) and run one harness test. Returns (rc, output)."""
    modargs = prepare_harness()
    cmd = [GO, "test"] + modargs + ["-tags", tags, "-count", str(count), "-run", run, "-timeout", "%ds" % timeout]
    if race:
        cmd.append("-race")
    cmd += list(extra_args) + [pkg]
    try:
        p = subprocess.run(cmd, cwd=HARNESS, env=go_env(env), stdout=subprocess.PIPE, stderr=subprocess.STDOUT,
                           timeout=timeout + 120)
    except subprocess.TimeoutExpired:
        raise MachineryError("go test timed out: %s %s" % (pkg, run))
    out = p.stdout.decode(errors="replace")
    if logpath:
        with open(logpath, "w") as f:
            f.write(out)
    if "[build failed]" in out or "[setup failed]" in out:
        raise MachineryError("harness does not build against /repo:\n" + out[-4000:])
    return p.returncode, out


# --------------------------------------------------------------------------
# findings
# --------------------------------------------------------------------------
def load_findings():
    p = os.path.join(ROOT, "known_findings.json")
    if not os.path.exists(p):
        return []
    return json.load(open(p))


def known_signatures(prop):
    """Listed known findings by signature. A finding is identified by its signature (monitor + history class), whichever check's
    traces exhibit it: e.g. the C02 finding 'message with more fragments than the receiver's window' also shows in the settle
    phase of C03's replays. The KNOWN-FINDING line names the property the finding is listed under."""
    return {f["signature"]: f for f in load_findings() if f.get("status") == "known"}


def replay_as_rerun(v, replay_path):
    """Replay for checks whose cases are all derived from (seed, tier): the check is run again with the seed recorded in the replay
    file; its evidence file is left alone. (A violation is reproduced when the re-run reports the same signature.)"""
    rp = json.load(open(replay_path)).get("replay", {})
    os.environ["VERIF_SEED"] = str(rp.get("seed", seed()))
    v.write_evidence = False


# --------------------------------------------------------------------------
# verdict
# --------------------------------------------------------------------------
class Verdict:
    def __init__(self, prop, tier, level):
        self.prop = prop
        self.tier = tier
        self.level = level
        self.t0 = time.time()
        self.violations = []   # (signature, description, replay_obj)
        self.known_hits = []
        self.drift = []
        self.cov = dict(evaluations=0, distinct_nontrivial=0, rule="", samples=[], states=0, transitions=0,
                        traces_validated_against_impl=0, exhaustive=False)
        self.assumptions = []
        self.notes = {}
        self.write_evidence = True

    def add_tlc(self, r, label):
        self.cov["states"] += r.distinct
        self.cov["transitions"] += r.generated
        self.notes.setdefault("tlc_runs", []).append(dict(label=label, **r.summary()))

    def violation(self, signature, desc, replay):
        known = known_signatures(self.prop)
        if signature in known:
            if signature not in [k[0] for k in self.known_hits]:
                self.known_hits.append((signature, known[signature].get("what", desc)))
            return
        self.violations.append((signature, desc, replay))

    def finish(self):
        os.makedirs(EVID, exist_ok=True)
        for sig, what in self.known_hits:
            log("KNOWN-FINDING: property=%s %s [%s]" % (sig.split("/")[0], what, sig))
        for d in self.drift[:20]:
            log("MODEL-DRIFT property=%s %s" % (self.prop, d))
        rc = 0
        if self.violations:
            os.makedirs(REPLAYS, exist_ok=True)
            for i, (sig, desc, replay) in enumerate(self.violations[:5]):
                if isinstance(replay, dict):
                    replay.setdefault("seed", seed())
                    replay.setdefault("tier", self.tier)
                path = os.path.join(REPLAYS, "%s-%d-%d.json" % (self.prop, seed(), i))
                with open(path, "w") as f:
                    json.dump(dict(property=self.prop, signature=sig, description=desc, replay=replay), f, indent=1)
                log("VIOLATION property=%s replay=%s" % (self.prop, path))
                log("  signature: %s" % sig)
                log("  %s" % desc[:2000])
            rc = 1
        cov = dict(self.cov)
        if not cov.get("samples"):
            cov["samples"] = [dict(note="the run ended before sampling (fatal observation)", signatures=[x[0] for x in self.violations][:5])]
        cov["drift"] = len(self.drift)
        cov["known_findings_hit"] = [k[0] for k in self.known_hits]
        cov.update(self.notes)
        ev = dict(property_id=self.prop, tier=self.tier, seed=seed(), level=self.level, coverage=cov,
                  assumptions=self.assumptions, wall_s=round(time.time() - self.t0, 2),
                  violations=len(self.violations))
        if self.write_evidence:
            with open(os.path.join(EVID, self.prop + ".json"), "w") as f:
                json.dump(ev, f, indent=1, default=str)
        log("%s %s: %s  (evaluations=%d nontrivial=%d states=%d traces=%d drift=%d, %.1fs)" % (
            self.prop, self.tier, "VIOLATED" if rc else "held", cov["evaluations"], cov["distinct_nontrivial"],
            cov["states"], cov["traces_validated_against_impl"], len(self.drift), time.time() - self.t0))
        return rc
