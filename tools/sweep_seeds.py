#!/usr/bin/env python3
"""Maintainer tool (not a registered check): run checks against the seeded changes of /verif/seeded/<id>/.

Each seed is applied in its own scratch worktree of /repo under /tmp (never in /repo), the harness is pointed at the
worktree through VERIF_REPO (a -modfile with the replace directive rewritten), evidence and replay files go to the
worktree, and the worktree is removed afterwards.  The result of every run is merged into seeded/<id>/meta.json:

  property, needs (from NOTES.md), confirmation (what was run to confirm the seed is a real, test-passing breakage),
  detection: [{check, tier, seed, rc, signatures, wall_s, at_commit}]

usage: tools/sweep_seeds.py [-j N] [--tier quick] [--seed S] [--checks C01,C04 | --own] [ids...]
"""
import argparse
import concurrent.futures as cf
import json
import os
import re
import shutil
import subprocess
import sys
import time

ROOT = os.path.dirname(os.path.dirname(os.path.abspath(__file__)))
SEEDED = os.path.join(ROOT, "seeded")


def sh(cmd, **kw):
    return subprocess.run(cmd, shell=isinstance(cmd, str), stdout=subprocess.PIPE, stderr=subprocess.STDOUT, text=True, **kw)


def needs_from_notes(d):
    p = os.path.join(d, "NOTES.md")
    if not os.path.exists(p):
        return ""
    s = open(p).read()
    m = re.search(r"^## (?:What it needs[^\n]*|Requirements)\n(.*?)(?=^## |\Z)", s, re.S | re.M)
    txt = (m.group(1) if m else "").strip()
    return re.sub(r"\s+", " ", txt)[:1500]


def title_from_notes(d):
    p = os.path.join(d, "NOTES.md")
    if not os.path.exists(p):
        return ""
    for ln in open(p):
        if ln.startswith("# "):
            return ln[2:].strip()
    return ""


def run_one(sid, checks, tier, seed, keep):
    d = os.path.join(SEEDED, sid)
    patch = os.path.join(d, "patch_head.diff")
    if not os.path.exists(patch):
        patch = os.path.join(d, "patch.diff")
    wt = "/tmp/sw-%s-%d" % (sid, os.getpid())
    sh(["git", "-C", "/repo", "worktree", "remove", "--force", wt])
    r = sh(["git", "-C", "/repo", "worktree", "add", "-q", "--detach", wt, "HEAD"])
    if r.returncode != 0:
        return sid, [dict(check="-", rc=2, error="worktree: " + r.stdout[-300:])]
    out = []
    try:
        r = sh(["git", "-C", wt, "apply", patch])
        if r.returncode != 0:
            return sid, [dict(check="-", rc=2, error="patch does not apply: " + r.stdout[-300:])]
        head = sh(["git", "-C", ROOT, "rev-parse", "--short", "HEAD"]).stdout.strip()
        for c in checks:
            env = dict(os.environ, VERIF_REPO=wt, VERIF_EVIDENCE_DIR=os.path.join(wt, ".verif-ev"),
                       VERIF_REPLAY_DIR=os.path.join(wt, ".verif-replays"), VERIF_SEED=str(seed),
                       VERIF_SCRATCH=os.path.join(wt, ".verif-scratch"))
            os.makedirs(env["VERIF_SCRATCH"], exist_ok=True)
            t0 = time.time()
            try:
                p = subprocess.run([os.path.join(ROOT, "tools", "check"), c, "--tier", tier], cwd=ROOT, env=env,
                                   stdout=subprocess.PIPE, stderr=subprocess.STDOUT, text=True, timeout=5400)
                rc, o = p.returncode, p.stdout
            except subprocess.TimeoutExpired as e:
                rc, o = 2, "TIMEOUT\n" + (e.stdout or "")[-2000:] if isinstance(e.stdout, str) else "TIMEOUT"
            sigs = re.findall(r"^\s+signature: (.*)$", o, re.M)
            rec = dict(check=c, tier=tier, seed=seed, rc=rc, signatures=sigs[:6], wall_s=round(time.time() - t0, 1),
                       verif_commit=head)
            if rc == 2:
                rec["machinery_error"] = o[-1500:]
            if keep:
                with open("/tmp/sweep-%s-%s.log" % (sid, c), "w") as f:
                    f.write(o)
            out.append(rec)
    finally:
        sh(["git", "-C", "/repo", "worktree", "remove", "--force", wt])
        shutil.rmtree(wt, ignore_errors=True)
    return sid, out


def merge_meta(sid, recs):
    d = os.path.join(SEEDED, sid)
    mp = os.path.join(d, "meta.json")
    meta = json.load(open(mp)) if os.path.exists(mp) else {}
    conf = json.load(open(os.path.join(d, "confirm.json"))) if os.path.exists(os.path.join(d, "confirm.json")) else {}
    meta.setdefault("seed", sid)
    meta["property"] = conf.get("property", sid.split("-")[0])
    meta["title"] = title_from_notes(d) or meta.get("title", "")
    meta["needs_to_manifest"] = needs_from_notes(d) or meta.get("needs_to_manifest", "")
    meta["confirmation"] = dict(
        what="confirmed independently in a scratch worktree by tools/confirm_seed.sh: builds and vets with the change, the "
             "demonstration fails with it and passes without it, the unedited repository suite passes with it",
        result={k: conf.get(k) for k in ("base_commit", "build", "vet", "demo_with_change", "existing_suite_with_change",
                                         "demo_without_change", "demo_test")},
        commands=conf.get("commands", []))
    meta["patch"] = "patch_head.diff (rebased onto the current /repo HEAD)" if os.path.exists(os.path.join(d, "patch_head.diff")) else "patch.diff"
    det = [x for x in meta.get("detection", []) if not any(x.get("check") == r.get("check") and x.get("tier") == r.get("tier") and
                                                            x.get("seed") == r.get("seed") for r in recs)]
    det += recs
    meta["detection"] = det
    meta["detected"] = any(x.get("rc") == 1 for x in det)
    with open(mp, "w") as f:
        json.dump(meta, f, indent=1)


def main():
    ap = argparse.ArgumentParser()
    ap.add_argument("ids", nargs="*")
    ap.add_argument("-j", type=int, default=3)
    ap.add_argument("--tier", default="quick")
    ap.add_argument("--seed", type=int, default=1)
    ap.add_argument("--checks", default="")
    ap.add_argument("--keep-logs", action="store_true")
    a = ap.parse_args()
    ids = a.ids or sorted(x for x in os.listdir(SEEDED) if os.path.isdir(os.path.join(SEEDED, x)))
    jobs = []
    with cf.ThreadPoolExecutor(a.j) as ex:
        for sid in ids:
            checks = a.checks.split(",") if a.checks else [sid.split("-")[0]]
            jobs.append(ex.submit(run_one, sid, checks, a.tier, a.seed, a.keep_logs))
        for j in cf.as_completed(jobs):
            sid, recs = j.result()
            merge_meta(sid, recs)
            for r in recs:
                print("%s %s rc=%s %s %ss" % (sid, r.get("check"), r.get("rc"), ";".join(r.get("signatures", []))[:160] or r.get("error", ""),
                                              r.get("wall_s", "")), flush=True)


if __name__ == "__main__":
    sys.exit(main())
