"""C13: blocked Read/Write/Accept always wake (SessionWait.tla)."""
import json
import os
import shutil

import vlib
from vlib import MachineryError
import checks_core as cc

KNOWN = {"C13_NoEarlyTimeout_ConcurrentCallers": "C13/DeadlineChange_ConcurrentCallers",
         "C13_NotBlockedPastDeadline_Tick_ConcurrentCallers": "C13/DeadlineChange_ConcurrentCallers",
         "C13_NotBlockedPastDeadline_ConcurrentCallers": "C13/DeadlineChange_ConcurrentCallers",
         "C13_AcceptDeadline_ChangedWhileBlocked": "C13/AcceptDeadline_ChangedWhileBlocked"}
INV = ["C13_NoEarlyTimeout", "C13_TimeoutAtDeadline", "C13_NoEarlyTimeout_ConcurrentCallers", "C13_NotBlockedPastDeadline",
       "C13_NotBlockedPastDeadline_ConcurrentCallers", "C13_NothingStranded", "C13_CloseWakesAll", "C13_ErrorWakesAll",
       "C13_AcceptDeadline", "C13_AcceptDeadline_ChangedWhileBlocked", "C13_AfterClose",
       "C13_CloseWakesAll_Tick", "C13_ErrorWakesAll_Tick", "C13_NothingStranded_Tick", "C13_NotBlockedPastDeadline_Tick",
       "C13_NotBlockedPastDeadline_Tick_ConcurrentCallers"]


def sw_cfg(callers, maxtime, deadlines, arrivals, sets, variant, invariants, spec="Spec", extra="", side="read"):
    s = "SPECIFICATION %s\nCONSTANTS\n  Callers = {%s}\n  MaxTime = %d\n  Deadlines = %s\n  MaxArrivals = %d\n  MaxSets = %d\n  Variant = \"%s\"\n  Side = \"%s\"\n" % (
        spec, ", ".join('"r%d"' % (i + 1) for i in range(callers)), maxtime, deadlines, arrivals, sets, variant, side)
    s += extra
    if invariants:
        s += "INVARIANTS " + " ".join(invariants) + "\n"
    s += "CHECK_DEADLOCK FALSE\n"
    return s


def enum_scripts(th):
    """The deadline clause of C13 enumerated: one caller blocked in Read / in Write; EVERY sequence of up to three deadline changes
    over {cleared, +2, +3, +4} (none->set, set->later, set->earlier, set->cleared->set, the same value again, ...), with or without a
    deadline already set before the call, all at one instant or one time unit apart; then time passes, finally one unit of what
    the caller waits for arrives. Also: the session is closed / its socket fails / its owning listener is closed while the caller
    is blocked, after every such prefix of length <= 1. The scripts are checked like the TLC-generated ones (monitors + WaitTrace)."""
    import itertools

    def st(ev, x="", v=0):
        return dict(ev=ev, x=x, v=v)
    out = []
    vals = [0, 2, 3, 4]
    for mode in ("read", "write"):
        for pre in (None, 2, 3):
            for k in (1, 2, 3):
                for seq in itertools.product(vals, repeat=k):
                    for spaced in (False, True):
                        steps = [st("setdl", v=pre)] if pre is not None else []
                        steps.append(st("start", "r1"))
                        for v in seq:
                            if spaced:
                                steps.append(st("tick"))
                            steps.append(st("setdl", v=v))
                        steps += [st("tick")] * 5 + [st("arrive"), st("tick")]
                        out.append(dict(callers=1, steps=steps, src="enum-deadlines", mode=mode, side=("client", "server")[len(out) % 2]))
        for side, errby in (("client", "fail"), ("server", "fail"), ("server", "lclose")):
            for pre in (None, 3):
                for v in (None, 0, 4):
                    for fin in ("close", "sockerr"):
                        steps = [st("setdl", v=pre)] if pre is not None else []
                        steps.append(st("start", "r1"))
                        if v is not None:
                            steps.append(st("setdl", v=v))
                        steps += [st("tick"), st(fin), st("tick"), st("tick")]
                        out.append(dict(callers=1, steps=steps, src="enum-" + fin, mode=mode, side=side, errby=errby))
    # several callers blocked at once (the one-slot token wakes ONE of them: Close / a socket error must reach all, and k units of the
    # resource must release min(k, callers) of them)
    for mode in ("read", "write"):
        for side, errby in (("client", "fail"), ("server", "fail"), ("server", "lclose")):
            for k in (2, 3):
                for spaced in (False, True):
                    starts = []
                    for i in range(k):
                        starts.append(st("start", "r%d" % (i + 1)))
                        if spaced:
                            starts.append(st("tick"))
                    for fin in ("close", "sockerr"):
                        out.append(dict(callers=k, steps=starts + [st("tick"), st(fin), st("tick"), st("tick")], src="enum-multi-" + fin,
                                        mode=mode, side=side, errby=errby))
                    if errby == "fail":
                        for j in range(1, k + 1):
                            out.append(dict(callers=k, steps=starts + [st("arrive")] * j + [st("tick"), st("tick"), st("close"), st("tick")],
                                            src="enum-multi-arrive", mode=mode, side=side, errby=errby))
    # events INSIDE a call (hook points of the wait loops used as scheduler gates): the caller is held after it has loaded its deadline
    # (g=1) or after its locked check found nothing and before it parks (g=2) while a deadline is set / shortened / extended / cleared,
    # a unit of the resource arrives, the session is closed or its socket fails; then time passes. SessionWait.tla has these
    # interleavings (its labels are exactly these points); scripts executed only while callers are parked cannot reach them.
    def gst(x, g, inner):
        d = st("start", x)
        d["g"] = g
        d["in"] = inner
        return d
    for mode in ("read", "write"):
        for side, errby in (("client", "fail"), ("server", "fail"), ("server", "lclose")):
            for g in (1, 2):
                for pre in (None, 2, 4):
                    acts = [[st("setdl", v=2)], [st("setdl", v=3)], [st("setdl", v=0)], [st("setdl", v=4)], [st("arrive")], [st("close")],
                            [st("sockerr")], [st("setdl", v=0), st("setdl", v=3)], [st("setdl", v=2), st("arrive")]]
                    for inner in acts:
                        if errby == "lclose" and inner[0]["ev"] != "sockerr":
                            continue
                        steps = [st("setdl", v=pre)] if pre is not None else []
                        steps.append(gst("r1", g, inner))
                        steps += [st("tick")] * 5
                        if inner[-1]["ev"] not in ("close", "sockerr"):
                            steps += [st("arrive"), st("tick")]
                        out.append(dict(callers=1, steps=steps, src="enum-gate", mode=mode, side=side, errby=errby))
                # a second caller held inside its call while the first one is parked
                for inner in ([st("arrive")], [st("arrive"), st("arrive")], [st("close")], [st("sockerr")], [st("setdl", v=2)]):
                    if errby == "lclose" and inner[0]["ev"] != "sockerr":
                        continue
                    steps = [st("start", "r1"), st("tick"), gst("r2", g, inner)] + [st("tick")] * 4
                    if inner[-1]["ev"] not in ("close", "sockerr"):
                        steps += [st("arrive"), st("arrive"), st("tick")]
                    out.append(dict(callers=2, steps=steps, src="enum-gate-multi", mode=mode, side=side, errby=errby))
    if not th:
        # quick tier: every third deadline script (rotating with the seed), all close / error scripts
        r = vlib.seed() % 3
        out = [s for i, s in enumerate(out) if s["src"] != "enum-deadlines" or i % 3 == r]
    return out


def aw_cfg(acceptors, maxtime, deadlines, peers, sets, invariants, spec="ASpec", extra="", backlog=2):
    s = "SPECIFICATION %s\nCONSTANTS\n  Acceptors = {%s}\n  MaxTime = %d\n  Deadlines = %s\n  MaxPeers = %d\n  MaxSets = %d\n  Backlog = %d\n" % (
        spec, ", ".join('"a%d"' % (i + 1) for i in range(acceptors)), maxtime, deadlines, peers, sets, backlog)
    s += extra
    if invariants:
        s += "INVARIANTS " + " ".join(invariants) + "\n"
    s += "CHECK_DEADLOCK FALSE\n"
    return s


ACCEPT_KNOWN = {"C13_AcceptDeadline_ChangedWhileBlocked": "C13/AcceptDeadline_ChangedWhileBlocked"}
ACCEPT_INV = ["C13_AcceptNoEarlyTimeout", "C13_AcceptTimeoutAtDeadline", "C13_AcceptNothingStranded", "C13_AcceptCloseWakesAll",
              "C13_AcceptErrorWakesAll", "C13_AcceptNotBlockedPastDeadline", "C13_AcceptDeadline_ChangedWhileBlocked"]


def accept_enum_scripts():
    """Accept, enumerated: one or two goroutines blocked in Accept; a deadline set before the call or not; then one of: a peer connects,
    two peers connect, the listener is closed, its socket fails, the deadline is set / changed / cleared while the call is blocked."""
    def st(ev, x="", v=0):
        return dict(ev=ev, x=x, v=v)
    out = []
    for k in (1, 2):
        starts = [st("start", "a%d" % (i + 1)) for i in range(k)]
        for pre in (None, 2, 3):
            head = ([st("setdl", v=pre)] if pre is not None else []) + starts
            for ev in (["connect"], ["connect", "connect"], ["close"], ["sockerr"], ["tick", "connect"], ["tick", "tick", "connect"], ["tick", "close"],
                       ["tick", "sockerr"], []):
                tail = [] if "close" in ev else [st("close"), st("tick")]
                out.append(dict(callers=k, steps=head + [st(e) for e in ev] + [st("tick")] * 4 + tail, src="enum-accept"))
            for chg in ((2,), (0,), (4,), (0, 2), (3, 2)):
                steps = head + [st("tick")]
                for v in chg:
                    steps.append(st("setdl", v=v))
                out.append(dict(callers=k, steps=steps + [st("tick")] * 5 + [st("connect"), st("connect"), st("tick"), st("close"), st("tick")],
                                src="enum-accept-change"))
    # a session already waiting in the backlog when the call starts; a deadline in the past
    out.append(dict(callers=1, steps=[st("connect"), st("tick"), st("start", "a1"), st("tick")], src="enum-accept"))
    out.append(dict(callers=1, steps=[st("tick"), st("tick"), st("setdl", v=1), st("start", "a1"), st("tick"), st("tick")], src="enum-accept"))
    return out


def accept_stage(v, scr, th):
    """AcceptWait.tla: MC, the strict deadline property must be refuted (known finding), scripts on a real Listener, monitors, trace validation."""
    props = ["NoEarlyTimeout", "NothingStranded", "CloseWakesAll", "ErrorWakesAll", "DeadlineHonoured"]
    for (name, text) in [("mc_accept_two.cfg", aw_cfg(2, 5 if th else 4, "{0, 2, 3}", 2, 3 if th else 2, props)),
                         ("mc_accept_one.cfg", aw_cfg(1, 5, "{0, 1, 2, 3, 4}", 2, 3, props))]:
        p = cc.write_cfg(scr, name, text)
        r = vlib.run_tlc(scr, "AcceptWait", name, extra_files=[p], timeout=1800)
        if not r.ok:
            raise MachineryError("%s: %s violated in AcceptWait.tla\n%s" % (name, r.violation, r.out[-2000:]))
        v.add_tlc(r, name)
    p = cc.write_cfg(scr, "mc_accept_strict.cfg", aw_cfg(1, 4, "{0, 2, 3}", 1, 2, ["DeadlineHonouredStrict"]))
    r = vlib.run_tlc(scr, "AcceptWait", "mc_accept_strict.cfg", extra_files=[p], timeout=600)
    if r.ok or r.violation != "DeadlineHonouredStrict":
        raise MachineryError("AcceptWait.tla: the strict deadline property is not refuted (%s) -- the model no longer shows the known finding" % r.violation)
    v.notes.setdefault("tlc_runs", []).append(dict(label="mc_accept_strict.cfg (must be refuted: DeadlineHonouredStrict)", **r.summary()))
    ind, outd = scr.sub("acc-in"), scr.sub("acc-out")
    spath = os.path.join(ind, "accept_scripts.ndjson")
    n = 0
    with open(spath, "w") as f:
        for i, (label, acc, depth) in enumerate([("one", 1, 12), ("two", 2, 14)]):
            text = aw_cfg(acc, 6, "{0, 1, 2, 3, 4, 5}", 3, 4, ["EmitBeh"], spec="SimSpec", extra="  SimDepth = %d\n" % depth, backlog=128)
            p = cc.write_cfg(scr, "sim_accept_%s.cfg" % label, text)
            r = vlib.run_tlc(scr, "AcceptWaitSim", "sim_accept_%s.cfg" % label, workers=4,
                             extra=("-simulate", "num=%d" % ((400 if th else 80) // 4), "-depth", "200", "-seed", str(vlib.seed() * 37 + i)),
                             timeout=900, extra_files=[p])
            if not r.ok:
                raise MachineryError("accept script generation stopped: %s\n%s" % (r.violation, r.out[-1500:]))
            for b in vlib.iter_marked(r.outpath, "BEH"):
                b["src"] = "accept-" + label
                f.write(json.dumps(b) + "\n")
                n += 1
            shutil.rmtree(r.wd, ignore_errors=True)
        es = accept_enum_scripts()
        for sc in es:
            f.write(json.dumps(sc) + "\n")
    v.notes["accept_scripts"] = dict(generated=n, enumerated=len(es))
    rc, out = vlib.go_test("./waitdrv", "TestAcceptScripts$", dict(VERIF_IN=ind, VERIF_OUT=outd), timeout=1800)
    if rc != 0:
        raise MachineryError("accept driver failed:\n" + out[-4000:])
    old = cc.obs_cfg
    cc.obs_cfg = lambda inv: "SPECIFICATION Spec\nINVARIANTS " + " ".join(inv) + "\nCHECK_DEADLOCK FALSE\n"
    try:
        cc.validate_traces(v, scr, "C13", os.path.join(outd, "accept_scripts.ndjson"), "accept_scripts", ACCEPT_INV, ACCEPT_KNOWN, conformance=False,
                           obs_module="AcceptObs")
    finally:
        cc.obs_cfg = old
    s = json.load(open(os.path.join(outd, "accept_scripts.json")))
    v.cov["evaluations"] += s["Steps"] + s["Scripts"]
    v.cov["distinct_nontrivial"] += s["Nontrivial"]
    v.notes["accept_results"] = s["Kinds"]
    tp = scr.path("trace.ndjson")
    shutil.copy(os.path.join(outd, "accept_scripts.ndjson"), tp)
    r = vlib.run_tlc(scr, "AcceptTrace", "AcceptTrace.cfg", workers=1, extra_files=[tp], timeout=1800)
    if not r.ok:
        rej = [ln for ln in r.out.splitlines() if "REJECTED-AT" in ln]
        if r.violation == "postcondition" or rej:
            v.drift.append("AcceptTrace: observed returns not explainable by AcceptWait.tla %s" % (rej[:1],))
        else:
            raise MachineryError("AcceptTrace could not be evaluated:\n" + r.out[-2500:])
    else:
        v.notes["accept_trace_states"] = r.distinct


def check_c13(tier, replay):
    v = vlib.Verdict("C13", tier, "model_checking")
    scr = vlib.Scratch("c13")
    th = tier == "thorough"
    props = ["NoEarlyTimeout", "ArmedForDeadline", "NothingStranded", "CloseWakesAll", "ErrorWakesAll"]
    try:
        if replay:
            # the scripts are regenerated by TLC (and by the enumeration) from the seed recorded in the replay file: the whole check is re-run with it
            v.write_evidence = False
            os.environ["VERIF_SEED"] = str(json.load(open(replay)).get("replay", {}).get("seed", vlib.seed()))
        # 1. MC on the model of the tree as it is ("fixed")
        for (name, text) in [
            ("mc_c13_one.cfg", sw_cfg(1, 5 if th else 4, "{0, 1, 2, 3, 4}" if th else "{0, 1, 2, 3}", 2, 4 if th else 3, "fixed", props)),
            ("mc_c13_two.cfg", sw_cfg(2, 4, "{0, 2, 3}", 2, 3 if th else 2, "fixed", props)),
            ("mc_c13_one_write.cfg", sw_cfg(1, 5 if th else 4, "{0, 1, 2, 3, 4}" if th else "{0, 1, 2, 3}", 2, 4 if th else 3, "fixed", props, side="write")),
            ("mc_c13_two_write.cfg", sw_cfg(2, 4, "{0, 2, 3}", 2, 3 if th else 2, "fixed", props, side="write")),
        ] + ([("mc_c13_three.cfg", sw_cfg(3, 3, "{0, 2}", 3, 2, "fixed", props)),
              ("mc_c13_three_write.cfg", sw_cfg(3, 3, "{0, 2}", 3, 2, "fixed", props, side="write"))] if th else []):
            p = cc.write_cfg(scr, name, text)
            r = vlib.run_tlc(scr, "SessionWait", name, extra_files=[p], timeout=2400)
            if not r.ok:
                raise MachineryError("%s: %s violated in SessionWait.tla (variant 'fixed' must satisfy its properties)\n%s" % (name, r.violation, r.out[-2000:]))
            v.add_tlc(r, name)
        # 1b. the pinned variant is kept as a regression of the machinery: TLC must find the repaired defects in it
        p = cc.write_cfg(scr, "mc_c13_pinned.cfg", sw_cfg(2, 4, "{0, 2, 3}", 2, 3, "pinned", props))
        r = vlib.run_tlc(scr, "SessionWait", "mc_c13_pinned.cfg", extra_files=[p], timeout=600)
        if r.ok:
            raise MachineryError("the model of the code before fix 6f8deec satisfies the C13 properties: the model has lost its teeth")
        v.notes["pinned_variant_counterexample"] = r.violation
        # 2. GEN scripts
        ind, outd = scr.sub("in"), scr.sub("out")
        spath = os.path.join(ind, "wait_scripts.ndjson")
        n = 0
        with open(spath, "w") as f:
            for i, (label, callers, depth) in enumerate([("one", 1, 14), ("two", 2, 16), ("three", 3, 18)]):
                text = sw_cfg(callers, 6, "{0, 1, 2, 3, 4, 5}", 3, 5, "fixed", ["EmitBeh"], spec="SimSpec", extra="  SimDepth = %d\n" % depth)
                p = cc.write_cfg(scr, "sim_c13_%s.cfg" % label, text)
                num = (600 if th else 100)
                r = vlib.run_tlc(scr, "SessionWaitSim", "sim_c13_%s.cfg" % label, workers=4,
                                 extra=("-simulate", "num=%d" % (num // 4), "-depth", "200", "-seed", str(vlib.seed() * 31 + i)),
                                 timeout=900, extra_files=[p])
                if not r.ok:
                    raise MachineryError("script generation stopped: %s\n%s" % (r.violation, r.out[-1500:]))
                for b in vlib.iter_marked(r.outpath, "BEH"):
                    b["src"] = label
                    f.write(json.dumps(b) + "\n")
                    n += 1
                shutil.rmtree(r.wd, ignore_errors=True)
        if n == 0:
            raise MachineryError("TLC generated no scripts")
        v.notes["scripts"] = n
        es = enum_scripts(th)
        with open(spath, "a") as f:
            for sc in es:
                f.write(json.dumps(sc) + "\n")
        v.notes["enumerated_scripts"] = len(es)
        # 3. execute on real sessions
        rc, out = vlib.go_test("./waitdrv", "TestWaitScripts$|TestWaitApi$", dict(VERIF_IN=ind, VERIF_OUT=outd), timeout=2400)
        if rc != 0:
            raise MachineryError("wait driver failed:\n" + out[-4000:])
        # 4. TV
        old = cc.obs_cfg
        cc.obs_cfg = lambda inv: "SPECIFICATION Spec\nINVARIANTS " + " ".join(inv) + "\nCHECK_DEADLOCK FALSE\n"
        try:
            for name in ("wait_scripts", "wait_api"):
                cc.validate_traces(v, scr, "C13", os.path.join(outd, name + ".ndjson"), name, INV, KNOWN, conformance=False, obs_module="WaitObs")
                s = json.load(open(os.path.join(outd, name + ".json")))
                v.cov["evaluations"] += s["Steps"] + s["Scripts"]
                v.cov["distinct_nontrivial"] += s["Nontrivial"]
                v.notes[name] = dict(scripts=s["Scripts"], kinds=s["Kinds"])
        finally:
            cc.obs_cfg = old
        # Accept: its own model, scripts, monitors and trace validation
        accept_stage(v, scr, th)
        # conformance: the observed returns must be explainable by SessionWait (drift only)
        # (one run per side of the model: the traces of scripts executed on blocked Reads / blocked Writes are separated)
        tp = scr.path("trace.ndjson")
        base = open(os.path.join(vlib.SPEC, "WaitTrace.cfg")).read()
        for side in ("read", "write"):
            n_side = 0
            with open(os.path.join(outd, "wait_scripts.ndjson")) as fin, open(tp, "w") as fout:
                keep = False
                for ln in fin:
                    if '"ev":"reset"' in ln:
                        keep = json.loads(ln).get("mode", "read") == side
                        n_side += keep
                    if keep:
                        fout.write(ln)
            if n_side == 0:
                continue
            cname = "WaitTrace_%s.cfg" % side
            cfgp = cc.write_cfg(scr, cname, base.replace('Side = "read"', 'Side = "%s"' % side))
            r = vlib.run_tlc(scr, "WaitTrace", cname, workers=1, extra_files=[tp, cfgp], timeout=2400)
            if not r.ok:
                rej = [ln for ln in r.out.splitlines() if "REJECTED-AT" in ln]
                if r.violation == "postcondition" or rej:
                    v.drift.append("WaitTrace(%s side): observed returns not explainable by SessionWait.tla %s" % (side, rej[:1]))
                else:
                    raise MachineryError("WaitTrace could not be evaluated:\n" + r.out[-2500:])
            else:
                v.notes["wait_trace_states_" + side] = r.distinct
                v.notes["wait_trace_scripts_" + side] = n_side
        v.cov["rule"] = ("TLC explores SessionWait.tla (1-3 callers, data arrivals, deadline scripts none->set / set->later / set->earlier / "
                         "set->zero->set / past at any label, Close, socket error, time advancing only at quiescence) for the deadline, "
                         "stranding and wake-up properties, for the Read and the WriteBuffers form of the loop; TLC-generated scripts are executed on "
                         "real sessions ({dialled, accepted} x {callers blocked in Read, callers blocked in Write behind a full send window}; the "
                         "socket error is a failing transport or the Close of a listener that owns its transport) in "
                         "virtual time with every caller in its own goroutine; what each call returned and at which virtual second is "
                         "judged by the WaitObs monitors and must be explainable by the model (WaitTrace). Accept has its own model (AcceptWait.tla: the "
                         "deadline is read once on entry; backlog, Close, socket error; 1-2 goroutines blocked): TLC-generated and enumerated scripts on a "
                         "real Listener, AcceptObs monitors at every return and every tick, AcceptTrace validation. The after-Close clauses are "
                         "scripted API cases. Non-trivial = every script (each contains at least one blocking call)")
        with open(spath) as f:
            v.cov["samples"] = [json.loads(f.readline())]
        v.assumptions = ["virtual time: callers are prompt (a caller that can take a step takes it before time advances)",
                         "write side: a unit of the resource is one slot of send window, opened by SetWindowSize while the network is cut; "
                         "a socket error / an owned listener's Close is followed by an out-of-band send so that the session uses its socket at once"]
        return v.finish()
    finally:
        scr.cleanup()
