"""C17: timed scheduler (TimedSched.tla)."""
import json
import os
import shutil

import vlib
from vlib import MachineryError
import checks_core as cc

INV = ["C17_ExactlyOnce", "C17_NeverEarly", "C17_Prompt"]


def ts_cfg(w, tasks, rel, maxtime, asyncchan, invariants, spec="Spec", extra=""):
    s = "SPECIFICATION %s\nCONSTANTS\n  W = %d\n  MaxTasks = %d\n  Rel <- %s\n  MaxTime = %d\n  AsyncChan = %s\n" % (
        spec, w, tasks, rel, maxtime, "TRUE" if asyncchan else "FALSE")
    s += extra
    s += "INVARIANTS " + " ".join(invariants) + "\nCHECK_DEADLOCK FALSE\n"
    return s


def check_c17(tier, replay):
    v = vlib.Verdict("C17", tier, "model_checking")
    scr = vlib.Scratch("c17")
    th = tier == "thorough"
    props = ["ExactlyOnceSoFar", "NeverEarly", "Prompt", "Covered", "NoStuckDrain", "ExactTime"]
    try:
        if replay:
            vlib.replay_as_rerun(v, replay)   # everything is derived from the seed and tier recorded in the replay file
        # 1. MC under both timer-channel semantics
        for (name, text) in [("mc_c17_sync.cfg", ts_cfg(2, 4 if th else 3, "RelB" if th else "RelA", 6 if th else 4, False, props)),
                             ("mc_c17_async.cfg", ts_cfg(2, 4 if th else 3, "RelB" if th else "RelA", 6 if th else 4, True, props)),
                             ("mc_c17_one_worker.cfg", ts_cfg(1, 4, "RelA", 5, False, props))]:
            p = cc.write_cfg(scr, name, text)
            r = vlib.run_tlc(scr, "TimedSchedMC", name, extra_files=[p], timeout=3000)
            if not r.ok:
                raise MachineryError("%s: %s in TimedSched.tla\n%s" % (name, r.violation, r.out[-2000:]))
            v.add_tlc(r, name)
        # 2. GEN scripts
        ind, outd = scr.sub("in"), scr.sub("out")
        spath = os.path.join(ind, "sched_scripts.ndjson")
        n = 0
        with open(spath, "w") as f:
            for i, (label, w, tasks) in enumerate([("w1", 1, 5), ("w2", 2, 6), ("w3", 3, 6)]):
                text = ts_cfg(w, tasks, "RelB", 8, False, ["EmitBeh"], spec="SimSpec", extra="  SimDepth = 16\n")
                p = cc.write_cfg(scr, "sim_c17_%s.cfg" % label, text)
                num = 600 if th else 120
                r = vlib.run_tlc(scr, "TimedSchedSim", "sim_c17_%s.cfg" % label, workers=4,
                                 extra=("-simulate", "num=%d" % (num // 4), "-depth", "400", "-seed", str(vlib.seed() * 17 + i)),
                                 timeout=900, extra_files=[p])
                if not r.ok:
                    raise MachineryError("script generation stopped: %s\n%s" % (r.violation, r.out[-1500:]))
                for b in vlib.iter_marked(r.outpath, "BEH"):
                    b["src"] = label
                    f.write(json.dumps(b) + "\n")
                    n += 1
                shutil.rmtree(r.wd, ignore_errors=True)
        if n == 0:
            raise MachineryError("TLC generated no scripts")
        v.notes["scripts"] = n
        # 3. execute: bubble (virtual clock, synchronous timer channels), then real time under both semantics
        env = dict(VERIF_IN=ind, VERIF_OUT=outd, SCHED_RUNS=200 if th else 40)
        rc, out = vlib.go_test("./scheddrv", "TestSchedScripts$|TestSchedDriveBubble$", env, timeout=900 if th else 240)
        if rc != 0:
            if "deadlock" in out or "panic: test timed out" in out:
                v.violation("C17/Livelock", "the scheduler never let the virtual clock advance or a worker blocked for good:\n" + out[-1500:],
                            dict(kind="sched-run", seed=vlib.seed()))
                return v.finish()
            raise MachineryError("scheduler driver failed:\n" + out[-4000:])
        for mode, godebug in (("real", "asynctimerchan=0"), ("async", "asynctimerchan=1")):
            e = dict(VERIF_OUT=outd, SCHED_MODE=mode, GODEBUG=godebug, SCHED_REAL_RUNS=6 if th else 3, SCHED_REAL_TASKS=4000 if th else 1500)
            rc, out = vlib.go_test("./scheddrv", "TestSchedDriveReal$", e, timeout=1200)
            if rc != 0:
                raise MachineryError("real-time scheduler driver failed (%s):\n%s" % (mode, out[-3000:]))
        # 4. TV
        old = cc.obs_cfg
        cc.obs_cfg = lambda inv: "SPECIFICATION Spec\nINVARIANTS " + " ".join(inv) + "\nCHECK_DEADLOCK FALSE\n"
        try:
            for name in ("sched_scripts", "sched_bubble", "sched_real", "sched_async"):
                cc.validate_traces(v, scr, "C17", os.path.join(outd, name + ".ndjson"), name, INV, None, conformance=False, obs_module="SchedObs")
                s = json.load(open(os.path.join(outd, name + ".json")))
                v.cov["evaluations"] += s["Tasks"]
                v.cov["distinct_nontrivial"] += s["Nontrivial"]
                for d in s.get("Drift") or []:
                    v.drift.append(name + ": " + d)
                v.notes[name] = dict(runs=s["Scripts"], tasks=s["Tasks"])
        finally:
            cc.obs_cfg = old
        v.cov["rule"] = ("TLC explores TimedSched.tla (Put, prepend hand-over, per-worker heap and timer with the Stop/drain/Reset dance) under "
                         "both Go timer-channel semantics for ExactlyOnce, NeverEarly, Prompt, Covered (a far task never delays a nearer one), "
                         "NoStuckDrain, ExactTime. TLC-generated scripts and seeded concurrent drives (1-16 submitting goroutines, 1-16 workers, "
                         "10-16000 tasks, deadline mixes past/now/equal/increasing/decreasing/far future, blocking task bodies) run on the real "
                         "scheduler inside a synctest bubble where every task must run exactly once at exactly max(deadline, submission) "
                         "(and at the time the model predicts); real-time runs with GODEBUG=asynctimerchan=0 and =1 check exactly-once, "
                         "never-early and lateness <= 2 s. Non-trivial = every script / drive")
        with open(spath) as f:
            b = json.loads(f.readline())
        v.cov["samples"] = [dict(workers=b["w"], steps=b["steps"][:20])]
        v.assumptions = ["virtual clock: goroutines are prompt", "real-time lateness grace of 2 s is deliberately generous",
                         "old timer semantics cannot run inside a synctest bubble (synctest refuses asynctimerchan=1): covered by the model "
                         "and by real-time runs"]
        return v.finish()
    finally:
        scr.cleanup()
