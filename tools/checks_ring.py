"""C20: the ring buffer is a FIFO queue for every operation sequence."""
import json
import os
import shutil

import vlib
from vlib import MachineryError, log


def _line_info(trace_path, lineno):
    """Return (trace meta, offset in trace, line object) for 1-based line number."""
    meta, start = None, 0
    with open(trace_path) as f:
        for i, ln in enumerate(f, 1):
            if ln.startswith('{"ev":"reset"') or '"ev":"reset"' in ln[:40]:
                meta, start = json.loads(ln), i
            if i == lineno:
                return meta, i - start, json.loads(ln)
    return meta, 0, None


def _ops_prefix(trace_path, lineno):
    """The operations of the trace containing line `lineno`, up to that line (the replay schedule)."""
    ops, meta = [], None
    with open(trace_path) as f:
        for i, ln in enumerate(f, 1):
            o = json.loads(ln)
            if o["ev"] == "reset":
                meta, ops = o, []
            else:
                ops.append(dict(op=o["op"], a=o["a"], b=o["b"]))
            if i == lineno:
                break
    return dict(init=meta, ops=ops)


def validate_ring_trace(v, scr, trace_path, label):
    """RingObs decides the verdict; RingBufferTrace reports drift."""
    nlines = sum(1 for _ in open(trace_path))
    ntraces = sum(1 for ln in open(trace_path) if '"ev":"reset"' in ln[:40])
    wd_trace = scr.path("trace.ndjson")
    shutil.copy(trace_path, wd_trace)
    r = vlib.run_tlc(scr, "RingObs", "RingObs.cfg", workers=1, extra_files=[wd_trace], timeout=1800)
    if r.violation in ("error", None) and not r.ok:
        raise MachineryError("RingObs could not evaluate %s:\n%s" % (label, r.out[-3000:]))
    if not r.ok:
        l = vlib.tlc_last_var(r, "l")
        lineno = int(l) - 1 if l else 0
        meta, off, obj = _line_info(trace_path, lineno)
        desc = "monitor %s fails at %s line %d (trace %s, step %d): observed %s; queue model: q=%s aret=%s" % (
            r.violation, label, lineno, meta and meta.get("src"), off, json.dumps(obj),
            vlib.tlc_last_var(r, "q"), vlib.tlc_last_var(r, "aret"))
        v.violation("C20/%s" % r.violation, desc, _ops_prefix(trace_path, lineno))
        return
    if r.distinct != nlines + 1:
        raise MachineryError("RingObs consumed %d of %d lines of %s" % (r.distinct - 1, nlines, label))
    v.cov["traces_validated_against_impl"] += ntraces
    v.notes.setdefault("trace_lines", 0)
    v.notes["trace_lines"] += nlines
    # conformance (drift only)
    r2 = vlib.run_tlc(scr, "RingBufferTrace", "RingBufferTrace.cfg", workers=1, extra_files=[wd_trace], timeout=3600)
    if not r2.ok:
        if r2.violation in ("error",):
            raise MachineryError("RingBufferTrace could not evaluate %s:\n%s" % (label, r2.out[-3000:]))
        l = vlib.tlc_last_var(r2, "l")
        lineno = int(l) - 1 if l else 0
        meta, off, obj = _line_info(trace_path, lineno)
        v.drift.append("%s: %s at line %d (trace %s step %d): observed head=%s tail=%s cap=%s; spec head=%s tail=%s" % (
            label, r2.violation, lineno, meta and meta.get("src"), off, obj and obj.get("head"), obj and obj.get("tail"),
            obj and obj.get("cap"), vlib.tlc_last_var(r2, "head"), vlib.tlc_last_var(r2, "tail")))


def check_c20(tier, replay):
    v = vlib.Verdict("C20", tier, "model_checking")
    scr = vlib.Scratch("c20")
    try:
        if replay:
            return _replay(v, scr, replay)
        thorough = tier == "thorough"
        # 1. MC: exhaustive on scaled constants (all growth regimes, every head offset)
        cfgs = ["RingBuffer_mc_small.cfg"] + (["RingBuffer_mc_mid.cfg", "RingBuffer_mc_real.cfg"] if thorough else [])
        for cfg in cfgs:
            r = vlib.run_tlc(scr, "RingBufferMC", cfg, timeout=3000)
            if not r.ok and r.violation not in ("error",):
                # a counterexample in the specification itself: the spec is written after the code,
                # so this means spec and queue model disagree -> machinery (the code is judged on traces)
                raise MachineryError("RingBuffer.tla violates %s under %s:\n%s" % (r.violation, cfg, r.out[-3000:]))
            vlib.must_ok(r, cfg)
            v.add_tlc(r, cfg)
        # 2. GEN: every transition of the small graph -> covering paths
        r = vlib.run_tlc(scr, "RingBufferMC", "RingBuffer_mc_edges.cfg", workers=1, timeout=3000)
        vlib.must_ok(r, "edges")
        paths, nstates, nedges = vlib.edges_to_paths(r.outpath, lambda n: n["a"]["op"] == "Init")
        ind = scr.sub("in")
        outd = scr.sub("out")
        with open(os.path.join(ind, "ring_paths.json"), "w") as f:
            json.dump(paths, f)
        v.notes["graph"] = dict(states=nstates, edges=nedges, paths=len(paths), steps=sum(len(p) - 1 for p in paths))
        # 3. REPLAY + 4. DRIVE (real code, rebuilt from /repo)
        env = dict(VERIF_IN=ind, VERIF_OUT=outd, RING_MODEL_MUT=100,
                   RING_RUNS=36 if thorough else 8, RING_STEPS=4000 if thorough else 1500)
        rc, out = vlib.go_test("./ringdrv", "TestRingReplay|TestRingDrive", env, timeout=1800)
        if rc != 0:
            # a panic inside the ring is a property-relevant event only if it came from the ring's code
            if "ringbuffer.go" in out and "panic" in out:
                v.violation("C20/panic", "ring buffer panicked:\n" + out[-3000:], dict(note="see output"))
                return v.finish()
            raise MachineryError("ring driver failed:\n" + out[-4000:])
        rep = json.load(open(os.path.join(outd, "ring_replay.json")))
        drv = json.load(open(os.path.join(outd, "ring_drive.json")))
        for d in rep.get("Drift") or []:
            v.drift.append("replay: " + d)
        # 5. TV
        validate_ring_trace(v, scr, os.path.join(outd, "ring_replay.ndjson"), "replay")
        validate_ring_trace(v, scr, os.path.join(outd, "ring_drive.ndjson"), "drive")
        v.cov["evaluations"] = rep["Steps"] + drv["Steps"]
        # distinct non-trivial: distinct model transitions replayed whose operation is not a plain
        # Push/Peek on an unwrapped, non-full ring, plus distinct growth steps seen by the driver
        nontriv = 0
        seen = set()
        for p in paths:
            for a, b in zip(p, p[1:]):
                k = vlib._key([a, b])
                if k in seen:
                    continue
                seen.add(k)
                s = a["s"]
                wrapped = s["head"] > s["tail"]
                grows = len(b["s"]["slots"]) != len(s["slots"])
                if wrapped or grows or b["a"]["op"] in ("Discard", "Clear", "ForEach", "ForEachReverse", "Pop"):
                    nontriv += 1
        v.cov["distinct_nontrivial"] = nontriv + len(drv["Growths"])
        v.cov["rule"] = ("model->code: every distinct transition of the exhaustively explored scaled graph is replayed on "
                         "RingBuffer[int] and RingBuffer[*int] from its exact layout, projection compared per step; "
                         "non-trivial = transition from a wrapped layout, or growing, or Pop/Discard/Clear/iterator; "
                         "code->model: seeded random operation sequences with the real constants, validated by TLC "
                         "against RingObs (verdict) and RingBufferTrace (drift); distinct growth steps counted")
        v.cov["exhaustive"] = (not rep.get("Drift")) and True
        v.cov["samples"] = [dict(path=[n["a"] for n in paths[len(paths) // 2][:12]]),
                            dict(drive_growths=drv["Growths"], max_slots=drv["MaxCap"], ops=drv["Ops"])]
        v.notes["replay"] = dict(paths=rep["Paths"], steps=rep["Steps"], ops=rep["Ops"], growths=rep["Growths"])
        v.assumptions = ["element values are distinct integers (pushed 1,2,3,...); a mutating iterator adds a constant once",
                         "TLC's evaluation of Fifo.tla is the meaning of 'FIFO queue'"]
        return v.finish()
    finally:
        scr.cleanup()


def _replay(v, scr, path):
    v.write_evidence = False
    obj = json.load(open(path))
    rp = obj["replay"]
    ind, outd = scr.sub("in"), scr.sub("out")
    with open(os.path.join(ind, "ring_ops.json"), "w") as f:
        json.dump(rp, f)
    rc, out = vlib.go_test("./ringdrv", "TestRingOps", dict(VERIF_IN=ind, VERIF_OUT=outd), timeout=600)
    if rc != 0:
        raise MachineryError("ring ops replay failed:\n" + out[-3000:])
    validate_ring_trace(v, scr, os.path.join(outd, "ring_ops.ndjson"), "replay-file")
    v.cov["evaluations"] = len(rp.get("ops", [])) or 1
    v.cov["distinct_nontrivial"] = 2
    v.cov["rule"] = "replay of one recorded operation sequence"
    v.cov["samples"] = [rp.get("ops", [])[:10]]
    return v.finish()
