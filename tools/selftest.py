#!/usr/bin/env python3
"""Binding demonstration (DESIGN.md section 8): the trace specifications are not vacuous.

For each code -> model validator a trace is recorded from the real code (unchanged tree), ONE field of ONE line is corrupted,
and TLC must reject the corrupted trace while accepting the original one. Exit 0: every validator rejected its corrupted trace;
exit 1: some validator accepted a corrupted trace (the binding has a hole); exit 2: machinery error.

usage: tools/selftest.py            (takes about a minute; not a property check, not registered in MANIFEST.json)
"""
import json
import os
import shutil
import sys

sys.path.insert(0, os.path.dirname(os.path.abspath(__file__)))
import vlib  # noqa: E402
import checks_core as cc  # noqa: E402


def tlc_accepts(scr, module, cfgtext, trace_path, label):
    tp = scr.path("trace.ndjson")
    shutil.copy(trace_path, tp)
    cfgp = cc.write_cfg(scr, "selftest_%s.cfg" % label, cfgtext)
    r = vlib.run_tlc(scr, module, "selftest_%s.cfg" % label, workers=1, extra_files=[tp, cfgp], timeout=900)
    if not r.ok and r.violation in ("error", None) and "REJECTED-AT" not in r.out:
        raise vlib.MachineryError("%s: TLC error\n%s" % (label, r.out[-2000:]))
    return r.ok


def corrupt(path, outpath, pick, change, limit=4000):
    """Copy the first `limit` lines of path; apply `change` to the first line for which pick(obj) holds (after line 3)."""
    done = False
    with open(path) as f, open(outpath, "w") as g:
        for i, ln in enumerate(f):
            if i >= limit:
                break
            if not done and i > 2:
                o = json.loads(ln)
                if pick(o):
                    change(o)
                    ln = json.dumps(o, separators=(",", ":")) + "\n"
                    done = True
            g.write(ln)
    if not done:
        raise vlib.MachineryError("selftest: no line to corrupt in %s" % path)


def head(path, outpath, limit=4000):
    with open(path) as f, open(outpath, "w") as g:
        for i, ln in enumerate(f):
            if i >= limit:
                break
            g.write(ln)


def main():
    scr = vlib.Scratch("selftest")
    failures = []
    try:
        outd = scr.sub("out")
        ind = scr.sub("in")
        cases = []
        # 1. protocol core: KcpCoreTrace (state / return / datagrams / SNMP)
        cc.boundary_scripts(os.path.join(ind, "core_scripts.ndjson"))
        cc.go_core(scr, "TestCoreScripts$", dict(VERIF_IN=ind, VERIF_OUT=outd))
        core = os.path.join(outd, "core_scripts.ndjson")
        core_cfg = open(os.path.join(vlib.SPEC, "KcpCoreTrace.cfg")).read()
        cases.append(("core-state", "KcpCoreTrace", core_cfg, core, lambda o: o.get("ev") == "op" and o.get("name") == "Flush" and o.get("st"),
                      lambda o: o["st"].__setitem__("cwnd", o["st"]["cwnd"] + 1)))
        cases.append(("core-return", "KcpCoreTrace", core_cfg, core, lambda o: o.get("ev") == "op" and o.get("name") == "Send",
                      lambda o: o.__setitem__("ret", o["ret"] - 1)))
        cases.append(("core-datagram", "KcpCoreTrace", core_cfg, core, lambda o: o.get("ev") == "op" and o.get("out"),
                      lambda o: o["out"][0]["segs"][0].__setitem__("wnd", o["out"][0]["segs"][0]["wnd"] + 1)))
        # 2. session input routing: SessionRouteTrace
        rc, out = vlib.go_test("./listdrv", "TestSessionRouting$|TestListenerRouting$", dict(VERIF_OUT=outd, LIST_STEPS=60, LIST_RUNS=4), timeout=600)
        if rc != 0:
            raise vlib.MachineryError("listdrv failed:\n" + out[-2000:])
        cases.append(("session-routing", "SessionRouteTrace", "SPECIFICATION Spec\nINVARIANTS Drift_SessionExit\nCHECK_DEADLOCK FALSE\n",
                      os.path.join(outd, "sess_routing.ndjson"), lambda o: o.get("ev") == "spkt" and o.get("exits") == [9],
                      lambda o: o.__setitem__("exits", [5])))
        # 3. listener routing: ListenerTrace
        lt_cfg = open(os.path.join(vlib.SPEC, "ListenerTrace_drift.cfg")).read()
        cases.append(("listener-routing", "ListenerTrace", lt_cfg, os.path.join(outd, "list_routing.ndjson"),
                      lambda o: o.get("ev") == "pkt" and o.get("exits") == [10], lambda o: o.__setitem__("exits", [5])))
        # 4. FEC: FecTrace
        rc, out = vlib.go_test("./fecdrv", "TestFecDrive$", dict(VERIF_OUT=outd, FEC_RUNS=3, FEC_GROUPS=6), timeout=600)
        if rc != 0:
            raise vlib.MachineryError("fecdrv failed:\n" + out[-2000:])
        fec_cfg = open(os.path.join(vlib.SPEC, "FecTrace.cfg")).read()
        cases.append(("fec-decoder-state", "FecTrace", fec_cfg, os.path.join(outd, "fec_drive.ndjson"),
                      lambda o: o.get("ev") == "op" and o.get("name") == "Decode" and not o.get("panic"),
                      lambda o: o["dec"].__setitem__("newest", o["dec"]["newest"] + 1)))
        # 5. ring buffer: RingBufferTrace
        rc, out = vlib.go_test("./ringdrv", "TestRingDrive", dict(VERIF_OUT=outd, RING_RUNS=2, RING_STEPS=300), timeout=600)
        if rc != 0:
            raise vlib.MachineryError("ringdrv failed:\n" + out[-2000:])
        ring_cfg = open(os.path.join(vlib.SPEC, "RingBufferTrace.cfg")).read()
        ringp = os.path.join(outd, "ring_drive.ndjson")
        if os.path.exists(ringp):
            cases.append(("ring-layout", "RingBufferTrace", ring_cfg, ringp, lambda o: o.get("ev") == "op" and "head" in o,
                          lambda o: o.__setitem__("head", o["head"] + 1)))
            cases.append(("ring-length", "RingObs", open(os.path.join(vlib.SPEC, "RingObs.cfg")).read(), ringp, lambda o: o.get("ev") == "op" and "len" in o,
                          lambda o: o.__setitem__("len", o["len"] + 1)))
        for (label, module, cfgtext, path, pick, change) in cases:
            good, bad = scr.path("good-%s.ndjson" % label), scr.path("bad-%s.ndjson" % label)
            head(path, good)
            corrupt(path, bad, pick, change)
            ok_good = tlc_accepts(scr, module, cfgtext, good, label + "-good")
            ok_bad = tlc_accepts(scr, module, cfgtext, bad, label + "-bad")
            print("%-18s original %s, corrupted %s" % (label, "accepted" if ok_good else "REJECTED", "rejected" if not ok_bad else "ACCEPTED"))
            if not ok_good:
                failures.append(label + ": the uncorrupted trace is rejected")
            if ok_bad:
                failures.append(label + ": the corrupted trace is accepted")
        if failures:
            print("SELFTEST FAILED:", "; ".join(failures))
            return 1
        print("selftest ok: %d validators reject a single corrupted field" % len(cases))
        return 0
    except vlib.MachineryError as e:
        print("MACHINERY-ERROR selftest:", e)
        return 2
    finally:
        scr.cleanup()


if __name__ == "__main__":
    sys.exit(main())
