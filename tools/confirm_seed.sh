#!/bin/sh
# confirm_seed.sh <seed-src-dir> <seed-id> <property>
# Confirms a seeded defect independently in a scratch worktree (outside /repo and /verif):
# builds + vets with the change, demo FAILS with it, the unedited suite PASSES with it, demo PASSES without it.
# On success copies patch.diff / demo_test.go / NOTES.md to /verif/seeded/<seed-id>/ and writes confirm.json.
set -u
DEMO_FLAGS=${DEMO_FLAGS:-}   # e.g. -race for demonstrations that need the race detector
SRC=$1; ID=$2; PROP=$3
WT=/tmp/confirm-$ID
OUT=/verif/seeded/$ID
export GOFLAGS=-mod=mod GOPROXY=off
git -C /repo worktree remove --force $WT 2>/dev/null
git -C /repo worktree add -q --detach $WT HEAD || exit 2
cd $WT
res() { echo "$1"; }
git apply $SRC/patch.diff || { echo "patch does not apply"; git -C /repo worktree remove --force $WT; exit 3; }
BUILD=fail; VET=fail; DEMO_WITH=unknown; SUITE=unknown; DEMO_WITHOUT=unknown
go build ./... && BUILD=ok
go vet . >/dev/null 2>&1 && VET=ok
TESTNAME=$(grep -o 'func TestSeed[A-Za-z0-9_]*' $SRC/demo_test.go | head -1 | sed 's/func //')
cp $SRC/demo_test.go $WT/seed_demo_test.go
if unshare -n sh -c "ip link set lo up; cd $WT && go test $DEMO_FLAGS -vet=off -count=1 -timeout 10m -run '^${TESTNAME}\$' . " > /tmp/confirm-$ID.demo_with.log 2>&1; then DEMO_WITH=pass; else DEMO_WITH=fail; fi
rm -f $WT/seed_demo_test.go
if unshare -n sh -c "ip link set lo up; cd $WT && go test -vet=off -count=1 -timeout 25m ./..." > /tmp/confirm-$ID.suite.log 2>&1; then SUITE=pass; else SUITE=fail; fi
git checkout -q -- .
cp $SRC/demo_test.go $WT/seed_demo_test.go
if unshare -n sh -c "ip link set lo up; cd $WT && go test $DEMO_FLAGS -vet=off -count=1 -timeout 10m -run '^${TESTNAME}\$' . " > /tmp/confirm-$ID.demo_without.log 2>&1; then DEMO_WITHOUT=pass; else DEMO_WITHOUT=fail; fi
cd /
git -C /repo worktree remove --force $WT
echo "$ID build=$BUILD vet=$VET demo_with_change=$DEMO_WITH suite_with_change=$SUITE demo_without_change=$DEMO_WITHOUT"
if [ $BUILD = ok ] && [ $DEMO_WITH = fail ] && [ $SUITE = pass ] && [ $DEMO_WITHOUT = pass ]; then
  mkdir -p $OUT
  cp $SRC/patch.diff $OUT/patch.diff
  cp $SRC/demo_test.go $OUT/demo_test.go
  [ -f $SRC/NOTES.md ] && cp $SRC/NOTES.md $OUT/NOTES.md
  cat > $OUT/confirm.json <<EOJ
{"seed": "$ID", "property": "$PROP", "base_commit": "$(git -C /repo rev-parse HEAD)", "build": "$BUILD", "vet": "$VET",
 "demo_with_change": "$DEMO_WITH", "existing_suite_with_change": "$SUITE", "demo_without_change": "$DEMO_WITHOUT",
 "demo_test": "$TESTNAME", "demo_flags": "$DEMO_FLAGS",
 "commands": ["git apply patch.diff; go build ./...; go vet .", "go test -vet=off -count=1 -run ^$TESTNAME\$ .  (with change: FAIL)",
              "go test -vet=off -count=1 -timeout 25m ./...  (with change, demo removed, private netns: PASS)",
              "git checkout -- .; go test -run ^$TESTNAME\$ .  (without change: PASS)"]}
EOJ
  rm -f /tmp/confirm-$ID.*.log
  exit 0
fi
exit 1
