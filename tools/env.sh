# sourced by every tool: offline Go environment for the harness (go1.26.8, local toolchain)
export GOFLAGS=-mod=mod GOPROXY=off GOSUMDB=off GOTOOLCHAIN=local
export GO=go1.26
