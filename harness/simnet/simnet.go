// Package simnet is an in-memory datagram network for running kcp-go inside a
// testing/synctest bubble. A Hub owns every datagram between WriteTo and
// ReadFrom: a Policy decides each datagram's fate (drop, deliver after a delay,
// deliver k times, hold until released, corrupt), and every datagram is logged
// at the WriteTo boundary. Conn deliberately does not implement SyscallConn /
// ReadMsgUDP so that kcp-go takes its portable ReadFrom/WriteTo path.
package simnet

import (
	"errors"
	"fmt"
	"net"
	"sync"
	"time"
)

// Dgram is one datagram observed at the WriteTo boundary.
type Dgram struct {
	ID       int
	Src, Dst string
	Data     []byte // private copy
	SentAt   time.Time
}

// Fate of a datagram: each entry of Delays schedules one delivered copy after
// that delay (empty = drop). Hold=true parks the datagram until Release(ID).
type Fate struct {
	Delays []time.Duration
	// Ordered: the copies are delivered in the order in which the datagrams of this (source, destination) flow were written, also
	// when several become due at the same (virtual) instant -- a FIFO path. Without it datagrams due at one instant may overtake
	// each other (their timers fire concurrently), like on a real network.
	Ordered bool
	Hold    bool
	Mutate func([]byte) []byte // applied to each delivered copy (nil = none)
}

// Policy decides fates. Called with the hub mutex held (must not call back into the hub).
type Policy func(d *Dgram) Fate

// Deliver is the default policy: deliver once, immediately.
func Deliver(d *Dgram) Fate { return Fate{Delays: []time.Duration{0}} }

type Hub struct {
	omu sync.Mutex
	oq  map[string][]orderedItem // ordered flows
	mu     sync.Mutex
	conns  map[string]*Conn
	policy Policy
	nextID int
	held   map[int]*Dgram
	Log    []*Dgram // every datagram written, in WriteTo order (when KeepLog)
	// KeepLog controls whether Log is populated.
	KeepLog bool
	// OnWrite is called (hub mutex held) for every datagram written.
	OnWrite func(d *Dgram)
	// OnDeliver is called (no lock held) for every datagram that is queued at a receiver.
	OnDeliver func(src, dst string, data []byte)
	// Dropped counts datagrams that could not be queued (receiver closed/absent/inbox full).
	Dropped int
}

func NewHub() *Hub {
	return &Hub{conns: map[string]*Conn{}, policy: Deliver, held: map[int]*Dgram{}}
}

func (h *Hub) SetPolicy(p Policy) {
	h.mu.Lock()
	if p == nil {
		p = Deliver
	}
	h.policy = p
	h.mu.Unlock()
}

// Listen creates an endpoint with the given "ip:port".
func (h *Hub) Listen(addr string) (*Conn, error) {
	ua, err := net.ResolveUDPAddr("udp", addr)
	if err != nil {
		return nil, err
	}
	h.mu.Lock()
	defer h.mu.Unlock()
	key := ua.String()
	if _, ok := h.conns[key]; ok {
		return nil, fmt.Errorf("simnet: address %s in use", key)
	}
	c := &Conn{hub: h, addr: ua, inbox: make(chan inMsg, 1<<14), closed: make(chan struct{}), errc: make(chan error, 1)}
	h.conns[key] = c
	return c, nil
}

// Held returns the ids of datagrams currently parked by Hold fates, in id order.
func (h *Hub) Held() []int {
	h.mu.Lock()
	defer h.mu.Unlock()
	var ids []int
	for id := range h.held {
		ids = append(ids, id)
	}
	for i := 1; i < len(ids); i++ {
		for j := i; j > 0 && ids[j] < ids[j-1]; j-- {
			ids[j], ids[j-1] = ids[j-1], ids[j]
		}
	}
	return ids
}

// HeldDgram returns the parked datagram with the given id (nil if none).
func (h *Hub) HeldDgram(id int) *Dgram {
	h.mu.Lock()
	defer h.mu.Unlock()
	return h.held[id]
}

// Release delivers a parked datagram `copies` times now (0 = drop it). keep=true leaves it parked.
func (h *Hub) Release(id int, copies int, keep bool) bool {
	h.mu.Lock()
	d, ok := h.held[id]
	if ok && !keep {
		delete(h.held, id)
	}
	h.mu.Unlock()
	if !ok {
		return false
	}
	for i := 0; i < copies; i++ {
		h.deliver(d.Src, d.Dst, d.Data)
	}
	return true
}

// Inject delivers raw bytes to dst as if sent from src (src need not exist).
func (h *Hub) Inject(src, dst string, data []byte) {
	h.deliver(src, dst, append([]byte(nil), data...))
}

func (h *Hub) deliver(src, dst string, data []byte) {
	h.mu.Lock()
	c := h.conns[dst]
	h.mu.Unlock()
	if c == nil {
		h.mu.Lock()
		h.Dropped++
		h.mu.Unlock()
		return
	}
	sa, _ := net.ResolveUDPAddr("udp", src)
	select {
	case <-c.closed:
		h.mu.Lock()
		h.Dropped++
		h.mu.Unlock()
	case c.inbox <- inMsg{from: sa, data: data}:
		if h.OnDeliver != nil {
			h.OnDeliver(src, dst, data)
		}
	default:
		h.mu.Lock()
		h.Dropped++
		h.mu.Unlock()
	}
}

func (h *Hub) write(src *Conn, dst net.Addr, p []byte) {
	d := &Dgram{Src: src.addr.String(), Dst: dst.String(), Data: append([]byte(nil), p...), SentAt: time.Now()}
	h.mu.Lock()
	h.nextID++
	d.ID = h.nextID
	if h.KeepLog {
		h.Log = append(h.Log, d)
	}
	if h.OnWrite != nil {
		h.OnWrite(d)
	}
	f := h.policy(d)
	if f.Hold {
		h.held[d.ID] = d
	}
	h.mu.Unlock()
	if f.Hold {
		return
	}
	if f.Ordered {
		for _, delay := range f.Delays {
			h.enqueueOrdered(d.Src, d.Dst, d.Data, delay)
		}
		return
	}
	for _, delay := range f.Delays {
		data := d.Data
		if f.Mutate != nil {
			data = f.Mutate(append([]byte(nil), d.Data...))
		}
		if delay <= 0 {
			h.deliver(d.Src, d.Dst, data)
		} else {
			src, dstS := d.Src, d.Dst
			time.AfterFunc(delay, func() { h.deliver(src, dstS, data) })
		}
	}
}

type orderedItem struct {
	due  time.Time
	data []byte
}

// enqueueOrdered appends to the flow's FIFO; whichever timer fires first delivers every queued datagram that is due, in order.
func (h *Hub) enqueueOrdered(src, dst string, data []byte, delay time.Duration) {
	key := src + ">" + dst
	h.omu.Lock()
	if h.oq == nil {
		h.oq = map[string][]orderedItem{}
	}
	h.oq[key] = append(h.oq[key], orderedItem{due: time.Now().Add(delay), data: data})
	h.omu.Unlock()
	flush := func() {
		h.omu.Lock()
		defer h.omu.Unlock() // deliveries of one hub's ordered flows are serialised: order within a flow is the queue's order
		q := h.oq[key]
		now := time.Now()
		i := 0
		for i < len(q) && !q[i].due.After(now) {
			h.deliver(src, dst, q[i].data)
			i++
		}
		h.oq[key] = q[i:]
	}
	if delay <= 0 {
		flush()
	} else {
		time.AfterFunc(delay, flush)
	}
}

type inMsg struct {
	from net.Addr
	data []byte
}

// Conn is a net.PacketConn endpoint of a Hub.
type Conn struct {
	hub       *Hub
	addr      *net.UDPAddr
	inbox     chan inMsg
	closed    chan struct{}
	closeOnce sync.Once
	errc      chan error
	mu        sync.Mutex
	writeErr  error
}

var ErrClosed = errors.New("simnet: use of closed connection")

func (c *Conn) ReadFrom(p []byte) (int, net.Addr, error) {
	select {
	case <-c.closed:
		return 0, nil, ErrClosed
	case err := <-c.errc:
		return 0, nil, err
	case m := <-c.inbox:
		n := copy(p, m.data)
		return n, m.from, nil
	}
}

func (c *Conn) WriteTo(p []byte, addr net.Addr) (int, error) {
	select {
	case <-c.closed:
		return 0, ErrClosed
	default:
	}
	c.mu.Lock()
	werr := c.writeErr
	c.mu.Unlock()
	if werr != nil {
		return 0, werr
	}
	c.hub.write(c, addr, p)
	return len(p), nil
}

// FailReads makes the next (or the currently blocked) ReadFrom return err.
func (c *Conn) FailReads(err error) {
	select {
	case c.errc <- err:
	default:
	}
}

// FailWrites makes every later WriteTo return err.
func (c *Conn) FailWrites(err error) {
	c.mu.Lock()
	c.writeErr = err
	c.mu.Unlock()
}

func (c *Conn) Close() error {
	c.closeOnce.Do(func() {
		close(c.closed)
		c.hub.mu.Lock()
		delete(c.hub.conns, c.addr.String())
		c.hub.mu.Unlock()
	})
	return nil
}

func (c *Conn) LocalAddr() net.Addr                { return c.addr }
func (c *Conn) SetDeadline(t time.Time) error      { return nil }
func (c *Conn) SetReadDeadline(t time.Time) error  { return nil }
func (c *Conn) SetWriteDeadline(t time.Time) error { return nil }
