// Package wire is an independent decoder of kcp-go's datagram format, written
// from the "Specification" section of README.md (frame layout) and not from the
// library's encode/decode code: optional 16-byte nonce + CRC32 (or AEAD nonce and
// tag), optional FEC header (seqid uint32 LE, type uint16 LE 0xf1/0xf2/0xf3,
// for data/OOB a uint16 LE size = payload+2), then KCP segments: 24-byte little
// endian header conv(4) cmd(1) frg(1) wnd(2) ts(4) sn(4) una(4) len(4) + len bytes.
package wire

import (
	"encoding/binary"
	"errors"
	"fmt"
)

const (
	HeaderSize = 24
	CmdPush    = 81
	CmdAck     = 82
	CmdWask    = 83
	CmdWins    = 84

	FecHeader  = 6
	TypeData   = 0xf1
	TypeParity = 0xf2
	TypeOOB    = 0xf3
)

// Seg is one KCP segment as found on the wire.
type Seg struct {
	Conv    uint32
	Cmd     uint8
	Frg     uint8
	Wnd     uint16
	Ts      uint32
	Sn      uint32
	Una     uint32
	Len     uint32
	Payload []byte
}

// ParseSegments decodes a sequence of KCP segments that must tile b exactly.
func ParseSegments(b []byte) ([]Seg, error) {
	var out []Seg
	for len(b) > 0 {
		if len(b) < HeaderSize {
			return out, fmt.Errorf("trailing %d bytes (shorter than a header)", len(b))
		}
		s := Seg{
			Conv: binary.LittleEndian.Uint32(b[0:]),
			Cmd:  b[4],
			Frg:  b[5],
			Wnd:  binary.LittleEndian.Uint16(b[6:]),
			Ts:   binary.LittleEndian.Uint32(b[8:]),
			Sn:   binary.LittleEndian.Uint32(b[12:]),
			Una:  binary.LittleEndian.Uint32(b[16:]),
			Len:  binary.LittleEndian.Uint32(b[20:]),
		}
		b = b[HeaderSize:]
		if s.Cmd < CmdPush || s.Cmd > CmdWins {
			return out, fmt.Errorf("unknown cmd %d", s.Cmd)
		}
		if uint64(s.Len) > uint64(len(b)) {
			return out, fmt.Errorf("segment len %d exceeds remaining %d bytes", s.Len, len(b))
		}
		s.Payload = b[:s.Len]
		b = b[s.Len:]
		out = append(out, s)
	}
	return out, nil
}

// Encode writes a segment (header + payload) and returns the bytes.
func (s Seg) Encode() []byte {
	b := make([]byte, HeaderSize+len(s.Payload))
	binary.LittleEndian.PutUint32(b[0:], s.Conv)
	b[4] = s.Cmd
	b[5] = s.Frg
	binary.LittleEndian.PutUint16(b[6:], s.Wnd)
	binary.LittleEndian.PutUint32(b[8:], s.Ts)
	binary.LittleEndian.PutUint32(b[12:], s.Sn)
	binary.LittleEndian.PutUint32(b[16:], s.Una)
	binary.LittleEndian.PutUint32(b[20:], s.Len)
	copy(b[HeaderSize:], s.Payload)
	return b
}

// Fec is the FEC framing of one datagram (after decryption).
type Fec struct {
	Seqid   uint32
	Type    uint16
	Size    uint16 // data / OOB only: payload length + 2
	Payload []byte // data: the KCP segments; OOB: conv(4)+message; parity: everything after the 6-byte header
	Padding []byte // data: bytes after Size (must be empty on the wire)
}

var ErrShort = errors.New("short packet")

// ParseFec decodes the FEC header of b.
func ParseFec(b []byte) (Fec, error) {
	if len(b) < FecHeader {
		return Fec{}, ErrShort
	}
	f := Fec{Seqid: binary.LittleEndian.Uint32(b), Type: binary.LittleEndian.Uint16(b[4:])}
	switch f.Type {
	case TypeData, TypeOOB:
		if len(b) < FecHeader+2 {
			return f, ErrShort
		}
		f.Size = binary.LittleEndian.Uint16(b[6:])
		if int(f.Size) < 2 || int(f.Size) > len(b)-FecHeader {
			return f, fmt.Errorf("size field %d does not fit %d bytes", f.Size, len(b)-FecHeader)
		}
		f.Payload = b[FecHeader+2 : FecHeader+int(f.Size)]
		f.Padding = b[FecHeader+int(f.Size):]
	case TypeParity:
		f.Payload = b[FecHeader:]
	default:
		return f, fmt.Errorf("unknown fec type %#x", f.Type)
	}
	return f, nil
}
