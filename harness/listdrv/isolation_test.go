package listdrv

import (
	"encoding/binary"
	"encoding/hex"
	"errors"
	"fmt"
	"os"
	"runtime"
	"strings"
	"hash/crc32"
	"math/rand"
	"net"
	"path/filepath"
	"sync"
	"testing"
	"time"

	kcp "github.com/xtaci/kcp-go/v5"

	"verifharness/refcrypt"
	"verifharness/simnet"
	"verifharness/vh"
	"verifharness/wire"
)

// forge builds a well-formed datagram (valid integrity for the run's cipher, FEC data framing when FEC is on) that carries
// one PUSH segment of conversation conv with sequence number sn and an attacker payload.
func forge(rng *rand.Rand, su *refcrypt.Suite, fec bool, conv, sn uint32, payload []byte) []byte {
	seg := wire.Seg{Conv: conv, Cmd: wire.CmdPush, Sn: sn, Wnd: 128, Payload: payload}
	seg.Len = uint32(len(payload))
	body := seg.Encode()
	if fec {
		k := body
		body = make([]byte, 8+len(k))
		binary.LittleEndian.PutUint32(body, uint32(rng.Intn(1000)*3))
		binary.LittleEndian.PutUint16(body[4:], 0xf1)
		binary.LittleEndian.PutUint16(body[6:], uint16(len(k)+2))
		copy(body[8:], k)
	}
	if su == nil {
		return body
	}
	plain := make([]byte, 20+len(body))
	rng.Read(plain[:16])
	copy(plain[20:], body)
	binary.LittleEndian.PutUint32(plain[16:], crc32.ChecksumIEEE(plain[20:]))
	out := make([]byte, len(plain))
	su.RefEnc(key[:su.KeyLen], out, plain)
	return out
}

type gen struct {
	addr           string
	conv           uint32
	upID, downID   int
	upN, downN     int64
	abort          bool // the client closes in mid-transfer and reconnects (next generation replaces it)
	replaced       bool // a later generation exists for this address
	accepts        int
	srvDone        chan struct{}
	k              int // index in the chain of conversations of its address
	gone           bool
	live           bool // the listener has a session for this generation and the client has not gone away yet
	srvGot, cliGot int64
}

type isoSum struct {
	Runs, Peers, Accepts, Reconnects, Injected, AttackerSessions int
	BytesChecked                                                 int64
	Traces, Lines                                                int
	Nontrivial                                                   int
}

// TestListenerIsolation (C11): several real clients (distinct addresses and conversation ids, distinct content in both
// directions), reconnects from the same address with a new conversation, a small accept backlog with a slow accept loop,
// and an adversary that injects forged / stale / foreign datagrams at the listener (from attacker addresses, and from client
// addresses with another conversation id) and at the dialled sessions (from addresses that are not their peer).
func TestListenerIsolation(t *testing.T) {
	out := vh.OutDir(t)
	rng := rand.New(rand.NewSource(vh.Seed()*32452843 + 3))
	runs := vh.EnvInt("LIST_ISO_RUNS", 12)
	tf, err := vh.OpenTraceFile(filepath.Join(out, "list_iso.ndjson"))
	vh.Must(err)
	sum := &isoSum{}
	for r := 0; r < runs; r++ {
		seed := rng.Int63()
		vh.Bubble(t, uint32(rng.Intn(1<<20)), 2, func(e *vh.Env) { isoRun(e, r, seed, tf, sum) })
	}
	vh.Must(tf.Close())
	sum.Traces, sum.Lines = tf.N, tf.L
	vh.WriteJSON(filepath.Join(out, "list_iso.json"), sum)
}

func isoRun(e *vh.Env, r int, seed int64, tf *vh.TraceFile, sum *isoSum) {
	rng := rand.New(rand.NewSource(seed))
	tr := &vh.Trace{}
	cipherName := []string{"aes-128", "nil", "aes-128", "sm4", "xor"}[r%5]
	var su *refcrypt.Suite
	newBlock := func() kcp.BlockCrypt { return nil }
	if cipherName != "nil" {
		su = refcrypt.ByName(cipherName)
		newBlock = func() kcp.BlockCrypt { b, err := su.New(key[:su.KeyLen]); vh.Must(err); return b }
	}
	fecs := [][2]int{{0, 0}, {2, 1}, {3, 2}}
	fc := fecs[rng.Intn(len(fecs))]
	fec := fc[0] > 0
	lossPct := []int{0, 0, 3, 10}[rng.Intn(4)]
	maxDelay := []int{0, 5, 30}[rng.Intn(3)]
	backlog := []int{1, 2, 4, 128}[rng.Intn(4)]
	slowAccept := rng.Intn(2) == 0
	nPeers := 2 + rng.Intn(4)
	const laddr = "10.0.0.1:1000"

	var pmu sync.Mutex // protects policy rng
	prng := rand.New(rand.NewSource(seed ^ 0x5555))
	var recMu sync.Mutex
	var recToSrv, recToCli [][]byte
	type dbgD struct {
		at       int64
		src, dst string
		data     []byte
		inj      string
	}
	var dbgLog []dbgD
	var ackLog, pushLog []string
	var dbgMismatch func(conv uint32)
	debug := os.Getenv("LIST_DEBUG") != ""
	e.Hub.OnWrite = func(d *simnet.Dgram) {
		recMu.Lock()
		if debug {
			dbgLog = append(dbgLog, dbgD{e.NowMs(), d.Src, d.Dst, d.Data, ""})
		}
		if d.Dst == laddr {
			if len(recToSrv) < 400 {
				recToSrv = append(recToSrv, d.Data)
			}
		} else if len(recToCli) < 400 {
			recToCli = append(recToCli, d.Data)
		}
		recMu.Unlock()
	}
	type arrT struct {
		At       int64
		Src, Dst string
		Pkt      string
	}
	var arrivals []arrT
	if debug {
		e.Hub.OnDeliver = func(src, dst string, data []byte) {
			body := data
			if su != nil {
				if len(body) < 20 {
					return
				}
				pl := make([]byte, len(body))
				su.RefDec(key[:su.KeyLen], pl, body)
				body = pl[20:]
			}
			recMu.Lock()
			arrivals = append(arrivals, arrT{e.NowMs(), src, dst, hex.EncodeToString(body)})
			recMu.Unlock()
		}
	}
	e.Hub.SetPolicy(func(d *simnet.Dgram) simnet.Fate {
		pmu.Lock()
		defer pmu.Unlock()
		if prng.Intn(100) < lossPct {
			return simnet.Fate{}
		}
		dl := time.Duration(0)
		if maxDelay > 0 {
			dl = time.Duration(prng.Intn(maxDelay+1)) * time.Millisecond
		}
		return simnet.Fate{Delays: []time.Duration{dl}}
	})

	lc, _ := e.Hub.Listen(laddr)
	l, err := kcp.ServeConn(newBlock(), fc[0], fc[1], lc)
	vh.Must(err)
	l.VerifSetAcceptBacklog(backlog)

	var mu sync.Mutex
	gens := map[string]*gen{} // addr/conv -> generation
	keyOf := func(addr string, conv uint32) string { return fmt.Sprintf("%s/%d", addr, conv) }
	attackers := []string{"10.9.9.1:9", "10.9.9.2:9", "10.9.9.3:9"}
	isAttacker := func(a string) bool { return a == attackers[0] || a == attackers[1] || a == attackers[2] }
	var wg sync.WaitGroup
	var srvSessions, cliSessions []*kcp.UDPSession
	stop := make(chan struct{})
	tune := func(s *kcp.UDPSession) {
		s.SetNoDelay(1, 10, 2, 1)
		s.SetWindowSize(128, 128)
	}
	idle := 90 * time.Second
	var dbgPeer func(conv uint32)

	// reads `want` bytes of pattern id from s; reports how it ended
	readStream := func(s *kcp.UDPSession, id int, want int64, got *int64) (match bool, end string) {
		buf := make([]byte, 4096)
		match = true
		for *got < want {
			s.SetReadDeadline(time.Now().Add(idle))
			n, err := s.Read(buf)
			if n > 0 {
				if !vh.Check(buf[:n], id, *got) {
					if match && os.Getenv("LIST_DEBUG") != "" {
						for i := 0; i < n; i++ {
							if buf[i] != vh.Pattern(id, *got+int64(i)) {
								fmt.Printf("MISMATCH %s conv=%d id=%d at offset %d: got % x\n", s.RemoteAddr(), s.GetConv(), id, *got+int64(i), buf[i:min(n, i+16)])
								if dbgMismatch != nil {
									dbgMismatch(s.GetConv())
								}
								break
							}
						}
					}
					match = false
				}
				*got += int64(n)
			}
			if err != nil {
				var ne net.Error
				if errors.As(err, &ne) && ne.Timeout() {
					if os.Getenv("LIST_DEBUG") != "" {
						st := s.VerifKCPState()
						fmt.Printf("STALL %s conv=%d got=%d want=%d una=%d nxt=%d rcvnxt=%d sndq=%d sndb=%d rcvb=%d rcvq=%d rmtwnd=%d cwnd=%d state=%d probe=%d\n", s.RemoteAddr(), s.GetConv(), *got, want,
							st.SndUna, st.SndNxt, st.RcvNxt, len(st.SndQueue), len(st.SndBuf), len(st.RcvBuf), len(st.RcvQueue), st.RmtWnd, st.Cwnd, st.State, st.Probe)
						if dbgPeer != nil {
							dbgPeer(s.GetConv())
						}
					}
					return match, "stall"
				}
				return match, "closed"
			}
		}
		if *got > want {
			match = false
		}
		return match, "complete"
	}
	writeStream := func(s *kcp.UDPSession, id int, n int64, wr *rand.Rand, abortAt int64) {
		buf := make([]byte, 4000)
		for off := int64(0); off < n; {
			if abortAt > 0 && off >= abortAt {
				return
			}
			k := int64(1 + wr.Intn(len(buf)))
			if off+k > n {
				k = n - off
			}
			vh.Fill(buf[:k], id, off)
			s.SetWriteDeadline(time.Now().Add(idle))
			if _, err := s.Write(buf[:k]); err != nil {
				return
			}
			off += k
			if wr.Intn(3) == 0 {
				time.Sleep(time.Duration(wr.Intn(15)) * time.Millisecond)
			}
		}
	}

	dbgPeer = func(conv uint32) {
		mu.Lock()
		defer mu.Unlock()
		for _, s := range cliSessions {
			if s.GetConv() == conv {
				st := s.VerifKCPState()
				fmt.Printf("  PEER client conv=%d una=%d nxt=%d rcvnxt=%d sndq=%d sndb=%d rcvb=%d rcvq=%d rmtwnd=%d cwnd=%d state=%d probe=%d sndb0=%+v\n", conv,
					st.SndUna, st.SndNxt, st.RcvNxt, len(st.SndQueue), len(st.SndBuf), len(st.RcvBuf), len(st.RcvQueue), st.RmtWnd, st.Cwnd, st.State, st.Probe, first(st.SndBuf))
			}
		}
		for _, s := range srvSessions {
			st := s.VerifKCPState()
			fmt.Printf("  SRV session %s conv=%d una=%d nxt=%d rcvnxt=%d sndb=%d rcvb=%d rcvq=%d\n", s.RemoteAddr(), s.GetConv(), st.SndUna, st.SndNxt, st.RcvNxt, len(st.SndBuf), len(st.RcvBuf), len(st.RcvQueue))
		}
		fmt.Printf("  TABLE %v\n", l.VerifSessions())
		var want uint32
		var caddr string
		for _, s := range srvSessions {
			if s.GetConv() == conv {
				want = s.VerifKCPState().RcvNxt
				caddr = s.RemoteAddr().String()
			}
		}
		recMu.Lock()
		defer recMu.Unlock()
		var ackAt int64
		for _, a := range ackLog {
			if strings.Contains(a, fmt.Sprintf("conv=%d ", conv)) && strings.Contains(a, fmt.Sprintf("sn %d una", want)) {
				fmt.Println("  ACKLOG", a)
				fmt.Sscanf(a, "t=%d", &ackAt)
			}
		}
		for _, d := range dbgLog {
			_ = caddr
			body := d.data
			if su != nil {
				if len(body) < 20 {
					continue
				}
				pl := make([]byte, len(body))
				su.RefDec(key[:su.KeyLen], pl, body)
				body = pl[20:]
			}
			desc := ""
			if fec {
				f, err := wire.ParseFec(body)
				if err != nil {
					continue
				}
				desc = fmt.Sprintf("fec seq=%d type=%x", f.Seqid, f.Type)
				if d.dst == caddr && d.at >= ackAt-500 && d.at <= ackAt {
					sg, _ := wire.ParseSegments(f.Payload)
					txt := ""
					if f.Type == wire.TypeData {
						for _, x := range sg {
							txt += fmt.Sprintf(" [conv=%d cmd=%d sn=%d una=%d ts=%d len=%d]", x.Conv, x.Cmd, x.Sn, x.Una, x.Ts, x.Len)
						}
					}
					fmt.Printf("    t=%d %s->%s %s %s len=%d%s\n", d.at, d.src, d.dst, d.inj, desc, len(body), txt)
				}
				if f.Type != wire.TypeData {
					continue
				}
				body = f.Payload
			}
			segs, _ := wire.ParseSegments(body)
			for _, sg := range segs {
				if sg.Sn == want && sg.Conv == conv && (sg.Cmd == wire.CmdPush || sg.Cmd == wire.CmdAck) {
					fmt.Printf("  t=%d %s->%s %s %s conv=%d cmd=%d sn=%d una=%d len=%d\n", d.at, d.src, d.dst, d.inj, desc, sg.Conv, sg.Cmd, sg.Sn, sg.Una, sg.Len)
				}
			}
		}
	}
	dbgMismatch = func(conv uint32) {
		recMu.Lock()
		defer recMu.Unlock()
		var last int64
		var caddr string
		for _, a := range pushLog {
			if strings.Contains(a, fmt.Sprintf("conv=%d ", conv)) && strings.Contains(a, "repeat false") {
				fmt.Println("  FECPUSH", a)
				fmt.Sscanf(a, "t=%d", &last)
			}
		}
		for _, g := range gens {
			if g.conv == conv {
				caddr = g.addr
			}
		}
		var mine []arrT
		for _, a := range arrivals {
			if a.Dst == caddr {
				mine = append(mine, a)
			}
		}
		vh.WriteJSON(filepath.Join(os.Getenv("VERIF_OUT"), "arrivals.json"), map[string]any{"conv": conv, "addr": caddr, "d": fc[0], "p": fc[1], "arrivals": mine})
		for _, d := range dbgLog {
			if d.dst != caddr || d.at < last-1500 || d.at > last {
				continue
			}
			body := d.data
			if su != nil {
				if len(body) < 20 {
					continue
				}
				pl := make([]byte, len(body))
				su.RefDec(key[:su.KeyLen], pl, body)
				body = pl[20:]
			}
			f, err := wire.ParseFec(body)
			if err != nil {
				continue
			}
			txt := ""
			if f.Type == wire.TypeData {
				sg, _ := wire.ParseSegments(f.Payload)
				for _, x := range sg {
					txt += fmt.Sprintf(" [conv=%d cmd=%d sn=%d una=%d ts=%d len=%d]", x.Conv, x.Cmd, x.Sn, x.Una, x.Ts, x.Len)
				}
			}
			fmt.Printf("    t=%d %s->%s %s seq=%d type=%x len=%d%s\n", d.at, d.src, d.dst, d.inj, f.Seqid, f.Type, len(body), txt)
		}
	}
	// server: accept loop
	acceptDone := make(chan struct{})
	go func() {
		defer close(acceptDone)
		arng := rand.New(rand.NewSource(seed ^ 0x77))
		for {
			s, err := l.AcceptKCP()
			if err != nil {
				return
			}
			tune(s)
			addr, conv := s.RemoteAddr().String(), s.GetConv()
			mu.Lock()
			srvSessions = append(srvSessions, s)
			g := gens[keyOf(addr, conv)]
			class, nth := "unknown", 0
			if g != nil {
				g.accepts++
				g.live = g.accepts == 1 && !g.gone
				class, nth = "client", g.accepts
			} else if isAttacker(addr) {
				class = "attacker"
				sum.AttackerSessions++
			}
			sum.Accepts++
			mu.Unlock()
			tr.Add(map[string]any{"ev": "accept", "addr": addr, "conv": conv, "class": class, "nth": nth})
			switch {
			case g != nil && nth == 1:
				wg.Add(2)
				go func() {
					defer wg.Done()
					match, end := readStream(s, g.upID, g.upN, &g.srvGot)
					mu.Lock()
					repl := g.replaced
					mu.Unlock()
					tr.Add(map[string]any{"ev": "stream", "side": "server", "addr": addr, "conv": conv, "want": g.upN, "got": g.srvGot,
						"match": match, "end": end, "replaced": repl, "aborted": g.abort, "fec": fec, "gen": g.k})
					close(g.srvDone)
				}()
				go func() {
					defer wg.Done()
					writeStream(s, g.downID, g.downN, rand.New(rand.NewSource(seed^int64(conv))), 0)
				}()
			default:
				// attacker-made (or unexpected) session: drain whatever arrives until the run ends
				wg.Add(1)
				go func() {
					defer wg.Done()
					buf := make([]byte, 2048)
					for {
						select {
						case <-stop:
							return
						default:
						}
						s.SetReadDeadline(time.Now().Add(2 * time.Second))
						if _, err := s.Read(buf); err != nil {
							var ne net.Error
							if !errors.As(err, &ne) || !ne.Timeout() {
								return
							}
						}
					}
				}()
			}
			if slowAccept {
				time.Sleep(time.Duration(arng.Intn(400)) * time.Millisecond)
			}
		}
	}()

	// clients
	var cwg sync.WaitGroup
	nextConv := uint32(1000 + rng.Intn(1000))
	runClient := func(idx int, addr string, g *gen, crng *rand.Rand) {
		cc, _ := e.Hub.Listen(addr)
		ra, _ := net.ResolveUDPAddr("udp", laddr)
		s, err := kcp.NewConn3(g.conv, ra, newBlock(), fc[0], fc[1], cc)
		vh.Must(err)
		tune(s)
		if debug {
			cv := g.conv
			s.SetLogger(kcp.IKCP_LOG_IN_ACK|kcp.IKCP_LOG_IN_PUSH, func(msg string, args ...any) {
				st := make([]byte, 4096)
				st = st[:runtime.Stack(st, false)]
				sl := stackLines(string(st))
				recMu.Lock()
				if strings.Contains(msg, "ACK") {
					ackLog = append(ackLog, fmt.Sprintf("t=%d client conv=%d %s %v :: %s", e.NowMs(), cv, msg, args, sl))
				} else if strings.Contains(sl, "sess.go:1090") {
					pushLog = append(pushLog, fmt.Sprintf("t=%d client conv=%d %s %v", e.NowMs(), cv, msg, args))
				}
				recMu.Unlock()
			})
		}
		mu.Lock()
		cliSessions = append(cliSessions, s)
		mu.Unlock()
		var rw sync.WaitGroup
		rw.Add(1)
		cliEnd := ""
		cliMatch := true
		go func() {
			defer rw.Done()
			cliMatch, cliEnd = readStream(s, g.downID, g.downN, &g.cliGot)
		}()
		abortAt := int64(0)
		if g.abort {
			abortAt = 1 + g.upN/3
		}
		writeStream(s, g.upID, g.upN, crng, abortAt)
		if g.abort {
			time.Sleep(time.Duration(crng.Intn(50)) * time.Millisecond)
			mu.Lock()
			g.live, g.gone = false, true
			mu.Unlock()
			s.Close()
			rw.Wait()
			cc.Close()
			return
		}
		rw.Wait()
		tr.Add(map[string]any{"ev": "stream", "side": "client", "addr": addr, "conv": g.conv, "want": g.downN, "got": g.cliGot,
			"match": cliMatch, "end": cliEnd, "replaced": false, "aborted": false, "fec": fec, "gen": g.k})
		// wait for the server side to have everything before going away
		select {
		case <-g.srvDone:
		case <-time.After(2 * idle):
		}
		mu.Lock()
		g.live, g.gone = false, true
		mu.Unlock()
		s.Close()
		cc.Close()
	}
	for i := 0; i < nPeers; i++ {
		addr := fmt.Sprintf("10.0.1.%d:%d", i+1, 4000+i)
		ngen := 1
		if rng.Intn(3) == 0 {
			ngen = 2 + rng.Intn(2)
		}
		var chain []*gen
		for k := 0; k < ngen; k++ {
			nextConv += uint32(1 + rng.Intn(5))
			g := &gen{addr: addr, conv: nextConv, upID: 1000*r + 10*i + k, downID: 500000 + 1000*r + 10*i + k,
				upN: int64(3000 + rng.Intn(60000)), downN: int64(1000 + rng.Intn(30000)), srvDone: make(chan struct{}), k: k}
			if k < ngen-1 {
				g.replaced = true
				g.abort = rng.Intn(2) == 0
				sum.Reconnects++
			}
			chain = append(chain, g)
			gens[keyOf(addr, g.conv)] = g
			sum.Peers++
		}
		cseed := rng.Int63()
		startDelay := time.Duration(rng.Intn(300)) * time.Millisecond
		cwg.Add(1)
		go func(i int) {
			defer cwg.Done()
			crng := rand.New(rand.NewSource(cseed))
			time.Sleep(startDelay)
			for _, g := range chain {
				runClient(i, addr, g, crng)
				// no datagram of the old conversation may still be in flight when the next one starts: a delayed copy of its
				// first segment (sn 0) would legitimately start "a new conversation" again
				time.Sleep(time.Duration(maxDelay)*time.Millisecond + 50*time.Millisecond)
			}
		}(i)
	}

	inject := func(kind, src, dst string, data []byte) {
		if debug {
			recMu.Lock()
			dbgLog = append(dbgLog, dbgD{e.NowMs(), src, dst, append([]byte(nil), data...), "INJ:" + kind})
			recMu.Unlock()
		}
		e.Hub.Inject(src, dst, data)
	}
	// adversary
	advDone := make(chan struct{})
	go func() {
		defer close(advDone)
		arng := rand.New(rand.NewSource(seed ^ 0x3131))
		evil := make([]byte, 600)
		for i := range evil {
			evil[i] = 0xEE
		}
		var all []*gen
		for _, g := range gens {
			all = append(all, g)
		}
		// map iteration order is random: order the list deterministically
		for i := range all {
			for j := i + 1; j < len(all); j++ {
				if all[j].conv < all[i].conv {
					all[i], all[j] = all[j], all[i]
				}
			}
		}
		n := 150 + arng.Intn(400)
		for k := 0; k < n; k++ {
			select {
			case <-stop:
				return
			case <-time.After(time.Duration(1+arng.Intn(25)) * time.Millisecond):
			}
			g := all[arng.Intn(len(all))]
			att := attackers[arng.Intn(len(attackers))]
			pl := evil[:1+arng.Intn(len(evil)-1)]
			kind := ""
			switch arng.Intn(7) {
			case 0: // forged segment of a client's conversation from an attacker address, sequence number ahead of the stream
				inject("0", att, laddr, forge(arng, su, fec, g.conv, uint32(arng.Intn(40)), pl))
				kind = "forged-conv-from-attacker"
			case 1: // the client's own address, another conversation id, not the first segment; only while the listener has the
				// client's session (otherwise the datagram legitimately starts a conversation of its own at that address)
				mu.Lock()
				lv := g.live
				mu.Unlock()
				if !lv || os.Getenv("LIST_NO_SPOOF") != "" {
					break
				}
				inject("1", g.addr, laddr, forge(arng, su, fec, g.conv+7777, uint32(1+arng.Intn(40)), pl))
				kind = "other-conv-from-client-addr"
			case 2: // stale: a recorded client datagram replayed from an attacker address
				recMu.Lock()
				var d []byte
				if len(recToSrv) > 0 {
					d = recToSrv[arng.Intn(len(recToSrv))]
				}
				recMu.Unlock()
				if d != nil {
					inject("2", att, laddr, d)
					kind = "stale-replay-from-attacker"
				}
			case 3: // forged segment of the client's conversation sent to the dialled session from a non-peer address
				inject("3", att, g.addr, forge(arng, su, fec, g.conv, uint32(arng.Intn(30)), pl))
				kind = "forged-to-dialled-from-non-peer"
			case 4: // a recorded server datagram replayed to some client from a non-peer address
				recMu.Lock()
				var d []byte
				if len(recToCli) > 0 {
					d = recToCli[arng.Intn(len(recToCli))]
				}
				recMu.Unlock()
				if d != nil {
					inject("4", att, g.addr, d)
					kind = "replay-to-dialled-from-non-peer"
				}
			case 5: // garbage
				b := make([]byte, 1+arng.Intn(200))
				arng.Read(b)
				e.Hub.Inject(att, laddr, b)
				kind = "garbage"
			case 6: // the client's address, a cut datagram of another conversation
				d := forge(arng, su, fec, g.conv+1, 0, pl)
				e.Hub.Inject(g.addr, laddr, d[:arng.Intn(24)])
				kind = "cut-from-client-addr"
			}
			if kind != "" {
				mu.Lock()
				sum.Injected++
				mu.Unlock()
			}
			_ = kind
		}
	}()

	cwg.Wait()
	close(stop)
	<-advDone
	wg.Wait()
	// final accounting: exactly one Accept per client generation
	mu.Lock()
	var keys []string
	for k := range gens {
		keys = append(keys, k)
	}
	mu.Unlock()
	for i := range keys {
		for j := i + 1; j < len(keys); j++ {
			if keys[j] < keys[i] {
				keys[i], keys[j] = keys[j], keys[i]
			}
		}
	}
	for _, k := range keys {
		g := gens[k]
		tr.Add(map[string]any{"ev": "peerdone", "addr": g.addr, "conv": g.conv, "accepted": g.accepts, "srvgot": g.srvGot, "want": g.upN, "aborted": g.abort})
		sum.BytesChecked += g.srvGot + g.cliGot
	}
	// teardown
	mu.Lock()
	ss := append([]*kcp.UDPSession{}, srvSessions...)
	cs := append([]*kcp.UDPSession{}, cliSessions...)
	mu.Unlock()
	for _, s := range cs {
		s.Close()
	}
	for _, s := range ss {
		s.Close()
	}
	// nothing new arrives any more: let the accept loop empty the backlog, then stop it
	for i := 0; i < 5000 && l.VerifAcceptLen() > 0; i++ {
		time.Sleep(time.Millisecond)
	}
	l.Close()
	<-acceptDone
	lc.Close()
	mu.Lock()
	for _, s := range srvSessions[len(ss):] {
		s.Close()
	}
	mu.Unlock()
	tf.WriteTrace(map[string]any{"src": fmt.Sprintf("iso%d", r), "cipher": cipherName, "d": fc[0], "p": fc[1], "peers": nPeers, "backlog": backlog,
		"loss": lossPct, "delay": maxDelay, "slow": slowAccept}, tr)
	sum.Runs++
	sum.Nontrivial++
}

func first(v []kcp.VerifSeg) any {
	if len(v) == 0 {
		return nil
	}
	return v[0]
}

func stackLines(st string) string {
	var out []string
	for _, l := range strings.Split(st, "\n") {
		if strings.Contains(l, ".go:") && strings.Contains(l, "/repo/") {
			out = append(out, strings.TrimSpace(strings.Split(l, " +")[0]))
		}
	}
	return strings.Join(out, " < ")
}
