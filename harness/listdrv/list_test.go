// Package listdrv binds Listener.tla / FrameRouting.tla to the real Listener (C11): crafted datagrams of every abstract
// packet class (valid integrity through the reference cipher) from several addresses and conversation ids, interleaved
// with Accept and application Close, are fed to a real listener in a bubble; the exit of Listener.packetInput reported
// by the verif hook and the sessions returned by Accept are validated by TLC against the model's table and backlog
// (ListenerTrace). A second scenario runs real clients with injected foreign / stale / forged traffic and checks that
// every accepted session reads exactly its own peer's stream (ListObs via SessObs monitors).
package listdrv

import (
	"encoding/binary"
	"fmt"
	"hash/crc32"
	"math/rand"
	"path/filepath"
	"sync"
	"testing"
	"testing/synctest"
	"time"

	kcp "github.com/xtaci/kcp-go/v5"

	"verifharness/refcrypt"
	"verifharness/vh"
	"verifharness/wire"
)

var key = []byte("0123456789abcdef0123456789abcdef")

type class struct {
	Len       string `json:"len"`
	Integrity string `json:"integrity"`
	Flag      string `json:"flag"`
	Sn0       bool   `json:"sn0"`
}

// craft builds an encrypted datagram of the class for conversation conv (aes-128 CFB + CRC32, FEC framing 2/1).
func craft(rng *rand.Rand, su *refcrypt.Suite, c class, conv uint32) []byte {
	body := craftBody(rng, c, conv)
	plain := make([]byte, 20+len(body))
	rng.Read(plain[:16])
	copy(plain[20:], body)
	binary.LittleEndian.PutUint32(plain[16:], crc32.ChecksumIEEE(plain[20:]))
	if c.Integrity == "bad" {
		plain[16] ^= 0x40
	}
	out := make([]byte, len(plain))
	su.RefEnc(key[:su.KeyLen], out, plain)
	if c.Len == "too-short-for-integrity" {
		out = out[:rng.Intn(20)]
	}
	return out
}

// craftBody builds the frame of the class (what the cipher layer wraps).
func craftBody(rng *rand.Rand, c class, conv uint32) []byte {
	sn := uint32(0)
	if !c.Sn0 {
		sn = 1 + uint32(rng.Intn(1000))
	}
	seg := wire.Seg{Conv: conv, Cmd: wire.CmdPush, Sn: sn, Wnd: 32, Payload: []byte("payload-" + fmt.Sprint(conv))}
	seg.Len = uint32(len(seg.Payload))
	var body []byte
	switch c.Flag {
	case "kcp":
		body = seg.Encode()
		if c.Len == "kcp-header-cut" {
			body = body[:12+rng.Intn(12)]
		}
	case "data":
		k := seg.Encode()
		body = make([]byte, 8+len(k))
		binary.LittleEndian.PutUint32(body, uint32(rng.Intn(300)*3))
		binary.LittleEndian.PutUint16(body[4:], 0xf1)
		binary.LittleEndian.PutUint16(body[6:], uint16(len(k)+2))
		copy(body[8:], k)
		if c.Len == "kcp-header-cut" {
			body = body[:12+rng.Intn(20)]
		}
	case "parity":
		body = make([]byte, 8+30)
		rng.Read(body)
		binary.LittleEndian.PutUint32(body, uint32(rng.Intn(300)*3+2))
		binary.LittleEndian.PutUint16(body[4:], 0xf2)
	case "oob":
		msg := []byte("oob")
		body = make([]byte, 8+4+len(msg))
		binary.LittleEndian.PutUint32(body, 0xffffffff)
		binary.LittleEndian.PutUint16(body[4:], 0xf3)
		binary.LittleEndian.PutUint16(body[6:], uint16(4+len(msg)+2))
		binary.LittleEndian.PutUint32(body[8:], conv)
		copy(body[12:], msg)
	}
	if c.Len == "too-short-for-any-frame" {
		body = body[:rng.Intn(12)]
	}
	return body
}

type summary struct {
	Runs, Events, Traces, Lines int
	Kinds                       map[string]int
	Nontrivial                  int
}

func TestListenerRouting(t *testing.T) {
	out := vh.OutDir(t)
	rng := rand.New(rand.NewSource(vh.Seed()*15487469 + 9))
	runs := vh.EnvInt("LIST_RUNS", 20)
	steps := vh.EnvInt("LIST_STEPS", 120)
	tf, err := vh.OpenTraceFile(filepath.Join(out, "list_routing.ndjson"))
	vh.Must(err)
	sum := &summary{Kinds: map[string]int{}}
	su := refcrypt.ByName("aes-128")
	addrs := []string{"10.0.1.1:1", "10.0.1.2:2", "10.0.1.3:3"}
	convs := []uint32{11, 22, 33}
	lens := []string{"ok", "ok", "ok", "ok", "ok", "ok", "kcp-header-cut", "too-short-for-any-frame", "too-short-for-integrity"}
	for r := 0; r < runs; r++ {
		vh.Bubble(t, 99, 2, func(e *vh.Env) {
			tr := &vh.Trace{}
			lc, _ := e.Hub.Listen("10.0.0.1:1000")
			block, _ := su.New(key[:su.KeyLen])
			l, err := kcp.ServeConn(block, 2, 1, lc)
			vh.Must(err)
			l.VerifSetAcceptBacklog(2)
			var mu sync.Mutex
			var exits []int
			kcp.VerifSetSink(func(ev kcp.VerifEvent) {
				if ev.Kind == "l.in" {
					mu.Lock()
					exits = append(exits, int(ev.A))
					mu.Unlock()
				}
			})
			defer kcp.VerifSetSink(nil)
			var accepted []*kcp.UDPSession
			for s := 0; s < steps; s++ {
				switch x := rng.Intn(10); {
				case x < 7:
					c := class{Len: lens[rng.Intn(len(lens))], Integrity: []string{"ok", "ok", "ok", "ok", "bad"}[rng.Intn(5)],
						Flag: []string{"data", "parity", "oob", "kcp"}[rng.Intn(4)], Sn0: rng.Intn(2) == 0}
					if c.Len == "kcp-header-cut" && (c.Flag == "parity" || c.Flag == "oob") {
						c.Len = "ok"
					}
					a := addrs[rng.Intn(len(addrs))]
					cv := convs[rng.Intn(len(convs))]
					mu.Lock()
					exits = nil
					mu.Unlock()
					e.Hub.Inject(a, "10.0.0.1:1000", craft(rng, su, c, cv))
					synctest.Wait()
					mu.Lock()
					ex := append([]int{}, exits...)
					mu.Unlock()
					tr.Add(map[string]any{"ev": "pkt", "addr": a, "conv": cv, "len": c.Len, "integrity": c.Integrity, "flag": c.Flag, "sn0": c.Sn0, "exits": ex})
					sum.Kinds[fmt.Sprint(ex)]++
				case x < 9:
					l.SetReadDeadline(time.Now().Add(time.Millisecond))
					s, err := l.AcceptKCP()
					if err == nil {
						accepted = append(accepted, s)
						tr.Add(map[string]any{"ev": "accept", "got": true, "addr": s.RemoteAddr().String(), "conv": s.GetConv()})
					} else {
						tr.Add(map[string]any{"ev": "accept", "got": false, "addr": "", "conv": 0})
					}
				default:
					if len(accepted) > 0 {
						i := rng.Intn(len(accepted))
						s := accepted[i]
						accepted = append(accepted[:i], accepted[i+1:]...)
						if err := s.Close(); err == nil {
							tr.Add(map[string]any{"ev": "appclose", "addr": s.RemoteAddr().String(), "conv": s.GetConv()})
						}
					}
				}
				sum.Events++
			}
			// tear down: transport first, then collect the backlog, then the listener
			for _, s := range accepted {
				s.Close()
			}
			lc.Close()
			synctest.Wait()
			for i := 0; i < 5000 && l.VerifAcceptLen() > 0; i++ {
				l.SetReadDeadline(time.Time{})
				if s, err := l.AcceptKCP(); err == nil && s != nil {
					s.Close()
				}
			}
			// sessions closed by the listener itself (replaced) are already closed; remaining table entries belong to
			// sessions that were never accepted nor replaced: none, since the backlog was drained above
			l.Close()
			tf.WriteTrace(map[string]any{"src": fmt.Sprintf("routing%d", r)}, tr)
			sum.Runs++
			sum.Nontrivial++
		})
	}
	vh.Must(tf.Close())
	sum.Traces, sum.Lines = tf.N, tf.L
	vh.WriteJSON(filepath.Join(out, "list_routing.json"), sum)
}

// seal wraps a frame body the way a session with the suite's cipher kind would (reference implementations only).
func seal(rng *rand.Rand, su *refcrypt.Suite, body []byte, badIntegrity bool, cutIntegrity bool) []byte {
	switch su.Kind {
	case "nil":
		return body
	case "aead":
		a, err := su.AEAD(key[:su.KeyLen])
		vh.Must(err)
		nonce := make([]byte, a.NonceSize())
		rng.Read(nonce)
		out := a.Seal(nonce, nonce, body, nil)
		if badIntegrity {
			out[rng.Intn(len(out))] ^= 0x10
		}
		if cutIntegrity {
			out = out[:rng.Intn(a.NonceSize()+a.Overhead())]
		}
		return out
	default:
		plain := make([]byte, 20+len(body))
		rng.Read(plain[:16])
		copy(plain[20:], body)
		binary.LittleEndian.PutUint32(plain[16:], crc32.ChecksumIEEE(plain[20:]))
		if badIntegrity {
			plain[16] ^= 0x40
		}
		out := make([]byte, len(plain))
		su.RefEnc(key[:su.KeyLen], out, plain)
		if cutIntegrity {
			out = out[:rng.Intn(20)]
		}
		return out
	}
}

// TestSessionRouting binds FrameRouting!SessionEffect to UDPSession.packetInput / kcpInput: crafted datagrams of every abstract
// class (own / another conversation id, valid or failing integrity, every frame kind, cut at every boundary) arrive at a real
// dialled session from its peer's address, for the three cipher kinds, with and without an out-of-band handler. The exits reported
// by the hook, whether the handler ran, and whether the deep digest of the session changed are validated by TLC
// (SessionRouteTrace: conformance as drift; C19 / C06 monitors as verdicts).
func TestSessionRouting(t *testing.T) {
	out := vh.OutDir(t)
	rng := rand.New(rand.NewSource(vh.Seed()*32452843 + 13))
	steps := vh.EnvInt("LIST_STEPS", 120) * 2
	tf, err := vh.OpenTraceFile(filepath.Join(out, "sess_routing.ndjson"))
	vh.Must(err)
	sum := &summary{Kinds: map[string]int{}}
	lens := []string{"ok", "ok", "ok", "ok", "ok", "kcp-header-cut", "too-short-for-any-frame", "too-short-for-integrity"}
	for ri, suite := range []string{"nil", "aes-128", "aes-gcm", "salsa20", "aes-128", "aes-gcm"} {
		su := refcrypt.ByName(suite)
		ck := map[string]string{"nil": "nil", "aead": "aead"}[su.Kind]
		if ck == "" {
			ck = "crc"
		}
		handler := ri%2 == 0 || ri >= 4
		if ri == 0 {
			handler = true
		}
		vh.Bubble(t, 4242, 2, func(e *vh.Env) {
			tr := &vh.Trace{}
			cc, _ := e.Hub.Listen("10.0.0.2:2000")
			pc, _ := e.Hub.Listen("10.0.0.1:1000") // the peer's address: nobody listens, datagrams sent to it vanish
			var block kcp.BlockCrypt
			if su.Kind != "nil" {
				block, err = su.New(key[:su.KeyLen])
				vh.Must(err)
			}
			const conv = 11
			s, err := kcp.NewConn3(conv, pc.LocalAddr(), block, 2, 1, cc)
			vh.Must(err)
			var mu sync.Mutex
			var exits []int
			handled := 0
			kcp.VerifSetSink(func(ev kcp.VerifEvent) {
				if ev.Kind == "s.in" {
					mu.Lock()
					exits = append(exits, int(ev.A))
					mu.Unlock()
				}
			})
			defer kcp.VerifSetSink(nil)
			if handler {
				s.SetOOBHandler(func([]byte) { mu.Lock(); handled++; mu.Unlock() })
			}
			for i := 0; i < steps; i++ {
				c := class{Len: lens[rng.Intn(len(lens))], Integrity: []string{"ok", "ok", "ok", "bad"}[rng.Intn(4)],
					Flag: []string{"data", "parity", "oob", "oob", "kcp"}[rng.Intn(5)], Sn0: rng.Intn(2) == 0}
				if c.Len == "kcp-header-cut" && (c.Flag == "parity" || c.Flag == "oob") {
					c.Len = "ok"
				}
				if su.Kind == "nil" {
					c.Integrity = "ok" // nothing to fail
					if c.Len == "too-short-for-integrity" {
						c.Len = "too-short-for-any-frame"
					}
				}
				cv, cvc := uint32(conv), "match"
				if rng.Intn(3) == 0 {
					cv, cvc = conv+1+uint32(rng.Intn(5)), "other"
				}
				// the frame body as craft() builds it, then sealed for this cipher kind
				body := craftBody(rng, c, cv)
				dg := seal(rng, su, body, c.Integrity == "bad", c.Len == "too-short-for-integrity")
				synctest.Wait()
				before := s.VerifDigest()
				mu.Lock()
				exits, handled = nil, 0
				mu.Unlock()
				e.Hub.Inject("10.0.0.1:1000", "10.0.0.2:2000", dg)
				synctest.Wait()
				after := s.VerifDigest()
				mu.Lock()
				ex := append([]int{}, exits...)
				h := handled > 0
				mu.Unlock()
				tr.Add(map[string]any{"ev": "spkt", "len": c.Len, "integrity": c.Integrity, "flag": c.Flag, "sn0": c.Sn0, "conv": cvc, "exits": ex,
					"handled": h, "same": before == after})
				sum.Kinds[fmt.Sprintf("%s %v", ck, ex)]++
				sum.Events++
			}
			s.Close()
			cc.Close()
			pc.Close()
			tf.WriteTrace(map[string]any{"src": fmt.Sprintf("sessrouting-%s-%v", suite, handler), "ck": ck, "handler": handler}, tr)
			sum.Runs++
			sum.Nontrivial++
		})
	}
	vh.Must(tf.Close())
	sum.Traces, sum.Lines = tf.N, tf.L
	vh.WriteJSON(filepath.Join(out, "sess_routing.json"), sum)
}
