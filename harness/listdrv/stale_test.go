package listdrv

import (
	"encoding/binary"
	"fmt"
	"net"
	"path/filepath"
	"testing"
	"testing/synctest"
	"time"

	"github.com/klauspost/reedsolomon"
	kcp "github.com/xtaci/kcp-go/v5"

	"verifharness/vh"
	"verifharness/wire"
)

// fecData frames KCP bytes as an FEC data shard with the given seqid (no cipher).
func fecData(seqid uint32, k []byte) []byte {
	b := make([]byte, 8+len(k))
	binary.LittleEndian.PutUint32(b, seqid)
	binary.LittleEndian.PutUint16(b[4:], 0xf1)
	binary.LittleEndian.PutUint16(b[6:], uint16(len(k)+2))
	copy(b[8:], k)
	return b
}

// fecParity computes the parity shards of the data shards (as framed by fecData) of one group the way the protocol
// defines them: Reed-Solomon over the shards from the size field on, zero padded to the longest.
func fecParity(d, p int, first uint32, data [][]byte) [][]byte {
	maxlen := 0
	for _, s := range data {
		if len(s)-6 > maxlen {
			maxlen = len(s) - 6
		}
	}
	shards := make([][]byte, d+p)
	for i := range shards {
		shards[i] = make([]byte, maxlen)
		if i < d {
			copy(shards[i], data[i][6:])
		}
	}
	enc, err := reedsolomon.New(d, p)
	vh.Must(err)
	vh.Must(enc.Encode(shards))
	var out [][]byte
	for i := 0; i < p; i++ {
		b := make([]byte, 6+maxlen)
		binary.LittleEndian.PutUint32(b, first+uint32(d+i))
		binary.LittleEndian.PutUint16(b[4:], 0xf2)
		copy(b[6:], shards[d+i])
		out = append(out, b)
	}
	return out
}

func push(conv, sn uint32, payload string) []byte {
	s := wire.Seg{Conv: conv, Cmd: wire.CmdPush, Sn: sn, Wnd: 32, Payload: []byte(payload)}
	s.Len = uint32(len(payload))
	return s.Encode()
}

// TestStaleShardsAfterReconnect (C11, deterministic witness of known finding FecStaleShardsOfPreviousConversation):
// a client at one address talks to a listener in conversation 1 (FEC 3+2), goes away and dials again from the same
// address with conversation 2. The listener's session of conversation 1 is still retransmitting an unacknowledged segment
// to that address (it is replaced only when the first datagram of conversation 2 arrives), so the new dialled session
// receives, from its peer's address, two data shards of conversation 1 (seqids 0 and 1: the same segment sent twice).
// Then the first parity shard of conversation 2's first group arrives before its data shards (reordering).
// Nothing of conversation 1 may appear in the stream of conversation 2, and nothing the peer did not write.
func TestStaleShardsAfterReconnect(t *testing.T) {
	out := vh.OutDir(t)
	tf, err := vh.OpenTraceFile(filepath.Join(out, "list_stale.ndjson"))
	vh.Must(err)
	vh.Bubble(t, 5000, 2, func(e *vh.Env) {
		tr := &vh.Trace{}
		const srv, cli = "10.0.0.1:1000", "10.0.2.1:7"
		cc, _ := e.Hub.Listen(cli)
		ra, _ := net.ResolveUDPAddr("udp", srv)
		s2, err := kcp.NewConn3(2, ra, nil, 3, 2, cc)
		vh.Must(err)
		// what the listener's session of conversation 2 sends: four segments, the first three form FEC group 0
		d0 := fecData(0, push(2, 0, "hello, "))
		d1 := fecData(1, push(2, 1, "wonderful "))
		d2 := fecData(2, push(2, 2, "new world "))
		par := fecParity(3, 2, 0, [][]byte{d0, d1, d2})
		d3 := fecData(5, push(2, 3, "goodbye"))
		// what the listener's session of conversation 1 is still retransmitting: one segment, twice
		st := push(1, 9, "old conversation")
		e.Hub.Inject(srv, cli, fecData(0, st))
		e.Hub.Inject(srv, cli, fecData(1, st))
		synctest.Wait()
		// conversation 2's datagrams, the first parity shard overtaking the data shards
		for _, d := range [][]byte{par[0], d0, d1, d2, par[1], d3} {
			e.Hub.Inject(srv, cli, d)
			synctest.Wait()
		}
		want := "hello, wonderful new world goodbye"
		buf := make([]byte, 256)
		var got []byte
		for len(got) < len(want) {
			s2.SetReadDeadline(time.Now().Add(2 * time.Second))
			n, err := s2.Read(buf)
			got = append(got, buf[:n]...)
			if err != nil {
				break
			}
		}
		tr.Add(map[string]any{"ev": "stalemerge", "side": "dialled", "conv": s2.GetConv(), "wrote": want, "read": fmt.Sprintf("%q", got), "same": string(got) == want,
			"fec": true, "gen": 1})
		s2.Close()
		cc.Close()
		tf.WriteTrace(map[string]any{"src": "stale-dialled"}, tr)
	})
	vh.Must(tf.Close())
	vh.WriteJSON(filepath.Join(out, "list_stale.json"), map[string]any{"Runs": 1})
}
