// Package scheddrv binds TimedSched.tla to timedsched.go (C17): TLC-generated scripts (Put with relative deadlines,
// time passing) and seeded concurrent drives are executed on a real TimedSched -- inside a synctest bubble (virtual
// clock, synchronous timer channels: execution times are exact) and in real time (both timer-channel semantics via
// GODEBUG=asynctimerchan) -- and every task's execution count and time is recorded for the SchedObs monitors.
package scheddrv

import (
	"bufio"
	"encoding/json"
	"math/rand"
	"os"
	"path/filepath"
	"sync"
	"sync/atomic"
	"testing"
	"testing/synctest"
	"time"

	kcp "github.com/xtaci/kcp-go/v5"

	"verifharness/vh"
)

type sstep struct {
	Ev string `json:"ev"`
	T  int    `json:"t"`
	R  int    `json:"r"`
}
type sscript struct {
	W      int     `json:"w"`
	Steps  []sstep `json:"steps"`
	Expect []struct {
		Dl, Put, At, N int
	} `json:"expect"`
	Src string `json:"src"`
}

type rec struct {
	put, dl int64 // ns relative to start
	n       atomic.Int32
	at      atomic.Int64
}

type summary struct {
	Scripts, Tasks, Traces, Lines int
	Kinds                         map[string]int
	Nontrivial                    int
	Drift                         []string
}

const unit = 10 * time.Millisecond

// times are reported in microseconds (TLC integers are 32-bit); every duration used by the drivers is a whole number of
// microseconds, so nothing is lost under the virtual clock
func emit(tr *vh.Trace, id int, r *rec, busy bool, grace int64) {
	tr.Add(map[string]any{"ev": "task", "id": id, "put": r.put / 1000, "dl": r.dl / 1000, "n": int(r.n.Load()), "at": r.at.Load() / 1000, "busy": busy,
		"grace": grace / 1000})
}

func TestSchedScripts(t *testing.T) {
	in := vh.EnvStr("VERIF_IN", "")
	if in == "" {
		t.Skip("VERIF_IN not set")
	}
	out := vh.OutDir(t)
	f, err := os.Open(filepath.Join(in, "sched_scripts.ndjson"))
	vh.Must(err)
	defer f.Close()
	tf, err := vh.OpenTraceFile(filepath.Join(out, "sched_scripts.ndjson"))
	vh.Must(err)
	sum := &summary{Kinds: map[string]int{}}
	sc := bufio.NewScanner(f)
	sc.Buffer(make([]byte, 1<<20), 1<<26)
	i := 0
	for sc.Scan() {
		var s sscript
		vh.Must(json.Unmarshal(sc.Bytes(), &s))
		i++
		synctest.Test(t, func(t *testing.T) {
			ts := kcp.NewTimedSched(s.W)
			start := time.Now()
			recs := map[int]*rec{}
			tr := &vh.Trace{}
			for _, st := range s.Steps {
				switch st.Ev {
				case "put":
					r := &rec{put: int64(time.Since(start)), dl: int64(time.Since(start)) + int64(st.R)*int64(unit)}
					recs[st.T] = r
					ts.Put(func() {
						r.n.Add(1)
						r.at.CompareAndSwap(0, int64(time.Since(start))+1) // +1 ns: distinguishes "ran at 0" from "not yet"
					}, start.Add(time.Duration(r.dl)))
				case "tick":
					synctest.Wait()
					time.Sleep(unit)
				}
				synctest.Wait()
			}
			time.Sleep(50 * unit)
			synctest.Wait()
			for id, r := range recs {
				if r.at.Load() > 0 {
					r.at.Add(-1)
				}
				emit(tr, id, r, false, 0)
				sum.Tasks++
				// model -> code: the execution time predicted by the specification (in units)
				if id-1 < len(s.Expect) {
					e := s.Expect[id-1]
					if e.N == 1 && (r.n.Load() != 1 || r.at.Load() != int64(e.At)*int64(unit)) && len(sum.Drift) < 20 {
						sum.Drift = append(sum.Drift, "script "+s.Src+": task executed at a time other than the model's")
					}
				}
			}
			ts.Close()
			synctest.Wait()
			tf.WriteTrace(map[string]any{"src": s.Src, "mode": "bubble", "workers": s.W}, tr)
			sum.Scripts++
			sum.Nontrivial++
		})
	}
	vh.Must(tf.Close())
	sum.Traces, sum.Lines = tf.N, tf.L
	vh.WriteJSON(filepath.Join(out, "sched_scripts.json"), sum)
}

// drive: g goroutines submit n tasks each with a mix of deadlines (past, now, equal, increasing, decreasing, far future);
// busy > 0: some task bodies sleep (block their worker).
func drive(ts *kcp.TimedSched, rng *rand.Rand, g, n int, span time.Duration, busy int, start time.Time, sleep func(time.Duration)) []*rec {
	var mu sync.Mutex
	var all []*rec
	var wg sync.WaitGroup
	seeds := make([]int64, g)
	for i := range seeds {
		seeds[i] = rng.Int63()
	}
	for gi := 0; gi < g; gi++ {
		wg.Add(1)
		go func(gi int) {
			defer wg.Done()
			r := rand.New(rand.NewSource(seeds[gi]))
			pattern := r.Intn(5)
			for k := 0; k < n; k++ {
				var d time.Duration
				switch pattern {
				case 0:
					d = time.Duration(r.Int63n(int64(span/time.Microsecond))) * time.Microsecond
				case 1:
					d = time.Duration(k) * span / time.Duration(n) // increasing
				case 2:
					d = span - time.Duration(k)*span/time.Duration(n) // decreasing
				case 3:
					d = []time.Duration{-time.Second, 0, span / 2, span / 2, 100 * span}[r.Intn(5)] // past, now, equal, far future
				default:
					d = time.Duration(r.Intn(4)) * span / 4
				}
				rc := &rec{put: int64(time.Since(start)), dl: int64(time.Since(start)) + int64(d)}
				body := func() {
					rc.n.Add(1)
					rc.at.CompareAndSwap(0, int64(time.Since(start))+1)
				}
				if busy > 0 && r.Intn(busy) == 0 {
					body = func() {
						rc.n.Add(1)
						rc.at.CompareAndSwap(0, int64(time.Since(start))+1)
						sleep(span / 20)
					}
				}
				mu.Lock()
				all = append(all, rc)
				mu.Unlock()
				ts.Put(body, start.Add(time.Duration(rc.dl)))
				if r.Intn(8) == 0 {
					sleep(time.Duration(r.Int63n(int64(span/50/time.Microsecond))) * time.Microsecond)
				}
			}
		}(gi)
	}
	wg.Wait()
	return all
}

func TestSchedDriveBubble(t *testing.T) {
	out := vh.OutDir(t)
	rng := rand.New(rand.NewSource(vh.Seed()*7368787 + 3))
	runs := vh.EnvInt("SCHED_RUNS", 30)
	tf, err := vh.OpenTraceFile(filepath.Join(out, "sched_bubble.ndjson"))
	vh.Must(err)
	sum := &summary{Kinds: map[string]int{}}
	for r := 0; r < runs; r++ {
		synctest.Test(t, func(t *testing.T) {
			w := []int{1, 2, 4, 16}[rng.Intn(4)]
			g := []int{1, 2, 4, 16}[rng.Intn(4)]
			n := []int{10, 100, 1000}[rng.Intn(3)]
			busy := []int{0, 0, 10}[rng.Intn(3)]
			span := 2 * time.Second
			ts := kcp.NewTimedSched(w)
			start := time.Now()
			all := drive(ts, rng, g, n, span, busy, start, time.Sleep)
			time.Sleep(300 * span) // beyond the far-future deadlines
			synctest.Wait()
			tr := &vh.Trace{}
			for i, rc := range all {
				if rc.at.Load() > 0 {
					rc.at.Add(-1)
				}
				emit(tr, i, rc, busy > 0, 0)
			}
			sum.Tasks += len(all)
			ts.Close()
			synctest.Wait()
			tf.WriteTrace(map[string]any{"src": "bubble", "mode": "bubble", "workers": w, "goroutines": g, "busy": busy}, tr)
			sum.Scripts++
			sum.Nontrivial++
		})
	}
	vh.Must(tf.Close())
	sum.Traces, sum.Lines = tf.N, tf.L
	vh.WriteJSON(filepath.Join(out, "sched_bubble.json"), sum)
}

// TestSchedDriveReal: real time, no bubble; run once with GODEBUG=asynctimerchan=0 and once with =1.
func TestSchedDriveReal(t *testing.T) {
	out := vh.OutDir(t)
	mode := vh.EnvStr("SCHED_MODE", "real")
	rng := rand.New(rand.NewSource(vh.Seed()*1299709 + 5))
	tf, err := vh.OpenTraceFile(filepath.Join(out, "sched_"+mode+".ndjson"))
	vh.Must(err)
	sum := &summary{Kinds: map[string]int{}}
	for r := 0; r < vh.EnvInt("SCHED_REAL_RUNS", 3); r++ {
		w := []int{1, 2, 8}[r%3]
		ts := kcp.NewTimedSched(w)
		start := time.Now()
		span := 300 * time.Millisecond
		// a watchdog measures how late this (possibly heavily loaded) machine wakes a sleeping goroutine: the grace period of the
		// real-time runs grows with it, so that scheduling latency of the host is never mistaken for lateness of the scheduler
		var maxLag atomic.Int64
		stopDog := make(chan struct{})
		go func() {
			for {
				select {
				case <-stopDog:
					return
				default:
				}
				t0 := time.Now()
				time.Sleep(2 * time.Millisecond)
				if lag := int64(time.Since(t0) - 2*time.Millisecond); lag > maxLag.Load() {
					maxLag.Store(lag)
				}
			}
		}()
		all := drive(ts, rng, 8, vh.EnvInt("SCHED_REAL_TASKS", 1500), span, 0, start, time.Sleep)
		time.Sleep(span + 700*time.Millisecond)
		// (on a loaded machine) wait until every awaited task has run, at most 60 s
		for limit := time.Now().Add(60 * time.Second); time.Now().Before(limit); time.Sleep(20 * time.Millisecond) {
			pending := 0
			for _, rc := range all {
				if rc.dl-rc.put <= int64(10*span) && rc.n.Load() == 0 {
					pending++
				}
			}
			if pending == 0 {
				break
			}
		}
		close(stopDog)
		grace := int64(2*time.Second) + 20*maxLag.Load()
		tr := &vh.Trace{}
		for i, rc := range all {
			if rc.at.Load() > 0 {
				rc.at.Add(-1)
			}
			far := rc.dl-rc.put > int64(10*span)
			if far {
				continue // far-future tasks are not awaited in real time
			}
			emit(tr, i, rc, false, grace)
			sum.Tasks++
		}
		ts.Close()
		tf.WriteTrace(map[string]any{"src": mode, "mode": mode, "workers": w}, tr)
		sum.Scripts++
		sum.Nontrivial++
	}
	vh.Must(tf.Close())
	sum.Traces, sum.Lines = tf.N, tf.L
	vh.WriteJSON(filepath.Join(out, "sched_"+mode+".json"), sum)
}
