// Package racedrv (C14): concurrent programs over the supported public methods of UDPSession and Listener -- every
// unordered pair of methods on two goroutines plus sampled triples, each with background traffic, for several
// cipher/FEC classes -- run under the Go race detector (the harness is built with -race). The enumeration of programs
// follows the method table of RaceProgs.tla; the judgement "data race" is the race detector's.
package racedrv

import (
	"bufio"
	"encoding/json"
	"fmt"
	"os"
	"math/rand"
	"net"
	"path/filepath"
	"sync"
	"testing"
	"time"

	kcp "github.com/xtaci/kcp-go/v5"

	"verifharness/simnet"
	"verifharness/vh"
)

type method struct {
	Name string
	Run  func(s *kcp.UDPSession, l *kcp.Listener, rng *rand.Rand)
}

// the supported (non-deprecated) public methods; deprecated ones (SetDUP, SetStreamMode, KCP.Update/Check) are excluded
func methods() []method {
	return []method{
		{"Read", func(s *kcp.UDPSession, l *kcp.Listener, r *rand.Rand) {
			s.SetReadDeadline(time.Now().Add(20 * time.Millisecond))
			b := make([]byte, 1+r.Intn(3000))
			s.Read(b)
		}},
		{"Write", func(s *kcp.UDPSession, l *kcp.Listener, r *rand.Rand) {
			s.SetWriteDeadline(time.Now().Add(20 * time.Millisecond))
			s.Write(make([]byte, 1+r.Intn(4000)))
		}},
		{"WriteBuffers", func(s *kcp.UDPSession, l *kcp.Listener, r *rand.Rand) {
			s.SetWriteDeadline(time.Now().Add(20 * time.Millisecond))
			s.WriteBuffers([][]byte{make([]byte, 100), make([]byte, 2000)})
		}},
		{"SetDeadline", func(s *kcp.UDPSession, l *kcp.Listener, r *rand.Rand) { s.SetDeadline(time.Now().Add(time.Second)) }},
		{"SetReadDeadline", func(s *kcp.UDPSession, l *kcp.Listener, r *rand.Rand) { s.SetReadDeadline(time.Time{}) }},
		{"SetWriteDeadline", func(s *kcp.UDPSession, l *kcp.Listener, r *rand.Rand) { s.SetWriteDeadline(time.Now().Add(time.Second)) }},
		{"SetWriteDelay", func(s *kcp.UDPSession, l *kcp.Listener, r *rand.Rand) { s.SetWriteDelay(r.Intn(2) == 0) }},
		{"SetWindowSize", func(s *kcp.UDPSession, l *kcp.Listener, r *rand.Rand) { s.SetWindowSize(32+r.Intn(100), 32+r.Intn(100)) }},
		{"SetMtu", func(s *kcp.UDPSession, l *kcp.Listener, r *rand.Rand) { s.SetMtu(1400 + r.Intn(100)) }},
		{"SetACKNoDelay", func(s *kcp.UDPSession, l *kcp.Listener, r *rand.Rand) { s.SetACKNoDelay(r.Intn(2) == 0) }},
		{"SetNoDelay", func(s *kcp.UDPSession, l *kcp.Listener, r *rand.Rand) { s.SetNoDelay(r.Intn(2), 10+r.Intn(40), r.Intn(3), r.Intn(2)) }},
		{"SetRateLimit", func(s *kcp.UDPSession, l *kcp.Listener, r *rand.Rand) { s.SetRateLimit(uint32(r.Intn(3)) * 1000000) }},
		{"SetLogger", func(s *kcp.UDPSession, l *kcp.Listener, r *rand.Rand) {
			s.SetLogger(kcp.IKCP_LOG_ALL, func(string, ...any) {})
		}},
		{"GetConv", func(s *kcp.UDPSession, l *kcp.Listener, r *rand.Rand) { s.GetConv() }},
		{"GetRTO", func(s *kcp.UDPSession, l *kcp.Listener, r *rand.Rand) { s.GetRTO(); s.GetSRTT(); s.GetSRTTVar() }},
		{"Addrs", func(s *kcp.UDPSession, l *kcp.Listener, r *rand.Rand) { s.LocalAddr(); s.RemoteAddr(); l.Addr() }},
		{"SetOOBHandler", func(s *kcp.UDPSession, l *kcp.Listener, r *rand.Rand) { s.SetOOBHandler(func([]byte) {}) }},
		{"GetOOBMaxSize", func(s *kcp.UDPSession, l *kcp.Listener, r *rand.Rand) { s.GetOOBMaxSize() }},
		{"SendOOB", func(s *kcp.UDPSession, l *kcp.Listener, r *rand.Rand) { s.SendOOB(make([]byte, r.Intn(200))) }},
		{"Control", func(s *kcp.UDPSession, l *kcp.Listener, r *rand.Rand) { s.Control(func(net.PacketConn) error { return nil }) }},
		{"SnmpCopy", func(s *kcp.UDPSession, l *kcp.Listener, r *rand.Rand) { kcp.DefaultSnmp.Copy() }},
		{"ListenerSetDeadline", func(s *kcp.UDPSession, l *kcp.Listener, r *rand.Rand) { l.SetDeadline(time.Now().Add(time.Second)) }},
		{"ListenerAccept", func(s *kcp.UDPSession, l *kcp.Listener, r *rand.Rand) {
			l.SetReadDeadline(time.Now().Add(5 * time.Millisecond))
			if c, err := l.AcceptKCP(); err == nil {
				c.Close()
			}
		}},
		{"Close", func(s *kcp.UDPSession, l *kcp.Listener, r *rand.Rand) { s.Close() }},
	}
}

type cfgT struct {
	Cipher string
	D, P   int
}

var key = []byte("0123456789abcdef0123456789abcdef")

func newCrypt(name string) kcp.BlockCrypt {
	switch name {
	case "aes":
		b, _ := kcp.NewAESBlockCrypt(key[:16])
		return b
	case "sm4":
		b, _ := kcp.NewSM4BlockCrypt(key[:16])
		return b
	case "salsa20":
		b, _ := kcp.NewSalsa20BlockCrypt(key)
		return b
	case "gcm":
		b, _ := kcp.NewAESGCMCrypt(key[:16])
		return b
	}
	return nil
}

var minRun = time.Duration(vh.EnvInt("RACE_MS", 40)) * time.Millisecond

// runProgram: real time (the race detector sees more with true parallelism), in-memory network, background traffic.
func runProgram(cfg cfgT, ms []method, seed int64, accepted bool) {
	// the shared entropy source reseeds itself every 2^24 draws: position it so that this program's traffic crosses the boundary
	kcp.VerifEntropyNearReseed(uint64(20 + seed%300))
	hub := simnet.NewHub()
	lc, _ := hub.Listen("10.0.0.1:1000")
	cc, _ := hub.Listen("10.0.0.2:2000")
	cc2, _ := hub.Listen("10.0.0.3:3000")
	l, _ := kcp.ServeConn(newCrypt(cfg.Cipher), cfg.D, cfg.P, lc)
	cli, _ := kcp.NewConn3(7, lc.LocalAddr(), newCrypt(cfg.Cipher), cfg.D, cfg.P, cc)
	cli2, _ := kcp.NewConn3(8, lc.LocalAddr(), newCrypt(cfg.Cipher), cfg.D, cfg.P, cc2) // another session sharing pool, entropy, counters
	cli.SetNoDelay(1, 10, 2, 1)
	cli.Write([]byte("hello"))
	cli2.Write([]byte("hello"))
	l.SetReadDeadline(time.Now().Add(2 * time.Second))
	srv, err := l.AcceptKCP()
	if err != nil {
		panic("harness: accept failed")
	}
	srv2, _ := l.AcceptKCP()
	if srv2 == nil && srv.RemoteAddr().String() != cc.LocalAddr().String() {
		l.SetReadDeadline(time.Now().Add(10 * time.Second))
		if srv2, _ = l.AcceptKCP(); srv2 == nil {
			panic("harness: the session of the client under test was not accepted")
		}
	}
	if srv2 != nil && srv.RemoteAddr().String() != cc.LocalAddr().String() {
		// the neighbour's first packet was processed first: srv must be the session whose peer is cli (observed under CPU load: with
		// the two swapped, cli never receives anything, and a program that clears its read deadline waits in Read for ever)
		srv, srv2 = srv2, srv
	}
	stop := make(chan struct{})
	var bg sync.WaitGroup
	// background traffic both ways on the session under test and on the neighbour session
	pump := func(w, r *kcp.UDPSession) {
		bg.Add(2)
		go func() {
			defer bg.Done()
			b := make([]byte, 1500)
			for {
				select {
				case <-stop:
					return
				default:
				}
				w.SetWriteDeadline(time.Now().Add(10 * time.Millisecond))
				w.Write(b)
			}
		}()
		go func() {
			defer bg.Done()
			b := make([]byte, 4096)
			for {
				select {
				case <-stop:
					return
				default:
				}
				r.SetReadDeadline(time.Now().Add(10 * time.Millisecond))
				r.Read(b)
			}
		}()
	}
	pump(srv, cli)
	pump(cli, srv)
	if srv2 != nil {
		pump(cli2, srv2)
	}
	target := cli
	if accepted {
		target = srv // the session created by the listener: fed by Listener.packetInput, no receive goroutine of its own
	}
	var wg sync.WaitGroup
	for i, m := range ms {
		wg.Add(1)
		go func(i int, m method) {
			defer wg.Done()
			r := rand.New(rand.NewSource(seed + int64(i)))
			// at least 6 calls and at least RACE_MS of wall time, so that every method overlaps the other goroutine's calls and the
			// library's own receive / post-processing / update goroutines
			for k, t0 := 0, time.Now(); k < 6 || (time.Since(t0) < minRun && k < 400); k++ {
				m.Run(target, l, r)
			}
		}(i, m)
	}
	// watchdog: a program that does not finish within 30 s of wall time is reported with the state of both ends, then released by
	// closing the sessions (a blocked call returns on Close)
	finished := make(chan struct{})
	go func() {
		select {
		case <-finished:
		case <-time.After(30 * time.Second):
			names := []string{}
			for _, m := range ms {
				names = append(names, m.Name)
			}
			peer := srv
			if accepted {
				peer = cli
			}
			desc := func(st kcp.VerifKCPState) string {
				mx := 0
				for _, sg := range st.SndBuf {
					if int(sg.Xmit) > mx {
						mx = int(sg.Xmit)
					}
				}
				return fmt.Sprintf("{rcvq=%d rcvb=%d sndq=%d sndb=%d rcvwnd=%d sndwnd=%d rmtwnd=%d cwnd=%d headfrg=%d buflen=%d una=%d nxt=%d rcvnxt=%d rto=%d maxxmit=%d probe=%d probewait=%d state=%d interval=%d nodelay=%d}",
					len(st.RcvQueue), len(st.RcvBuf), len(st.SndQueue), len(st.SndBuf), st.RcvWnd, st.SndWnd, st.RmtWnd, st.Cwnd, headFrg(st), st.BufLen,
					st.SndUna, st.SndNxt, st.RcvNxt, st.RxRto, mx, st.Probe, st.ProbeWait, st.State, st.Interval, st.Nodelay)
			}
			stallLog("RACE-STALL program=%v accepted=%v cfg=%+v\n  target%s\n  peer%s\n", names, accepted, cfg, desc(target.VerifKCPState()), desc(peer.VerifKCPState()))
			select {
			case <-finished:
				stallLog("  ... resumed by itself within 120 s more\n")
				return
			case <-time.After(120 * time.Second):
			}
			stallLog("  after 120 s more:\n  target%s\n  peer%s\n", desc(target.VerifKCPState()), desc(peer.VerifKCPState()))
			target.Close()
		}
	}()
	wg.Wait()
	close(finished)
	close(stop)
	// closing the sessions wakes the background readers/writers whatever the program did to the deadlines
	// (a program may have cleared the read deadline the pump had set: its Read would otherwise wait for data for ever)
	cli.Close()
	cli2.Close()
	srv.Close()
	if srv2 != nil {
		srv2.Close()
	}
	bg.Wait()
	l.Close()
	lc.Close()
	cc.Close()
	cc2.Close()
}

func stallLog(format string, a ...any) {
	f, err := os.OpenFile(filepath.Join(vh.EnvStr("VERIF_OUT", os.TempDir()), "race_stall.txt"), os.O_APPEND|os.O_CREATE|os.O_WRONLY, 0o644)
	if err != nil {
		return
	}
	defer f.Close()
	fmt.Fprintf(f, format, a...)
}

func headFrg(st kcp.VerifKCPState) int {
	if len(st.RcvQueue) == 0 {
		return -1
	}
	return int(st.RcvQueue[0].Frg)
}

func TestRacePrograms(t *testing.T) {
	out := vh.OutDir(t)
	rng := rand.New(rand.NewSource(vh.Seed()*2038074743 + 1))
	ms := methods()
	cfgs := []cfgT{{"", 0, 0}, {"aes", 2, 1}, {"sm4", 0, 0}, {"gcm", 3, 2}, {"salsa20", 10, 3}}
	triples := vh.EnvInt("RACE_TRIPLES", 20)
	// the programs are enumerated by TLC from RaceProgs.tla (every pair; sampled triples)
	type progJ struct {
		Ms  []string `json:"ms"`
		Cfg string   `json:"cfg"`
		Tgt string   `json:"tgt"`
	}
	byName := map[string]method{}
	for _, m := range ms {
		byName[m.Name] = m
	}
	cfgByName := map[string]cfgT{"nil/0/0": cfgs[0], "aes/2/1": cfgs[1], "sm4/0/0": cfgs[2], "gcm/3/2": cfgs[3], "salsa20/10/3": cfgs[4]}
	var progs [][]method
	var progCfg []cfgT
	var progAcc []bool
	in := vh.EnvStr("VERIF_IN", "")
	if in == "" {
		t.Skip("VERIF_IN not set")
	}
	f, err := os.Open(filepath.Join(in, "race_progs.ndjson"))
	vh.Must(err)
	sc := bufio.NewScanner(f)
	for sc.Scan() {
		var pj progJ
		vh.Must(json.Unmarshal(sc.Bytes(), &pj))
		var p []method
		for _, n := range pj.Ms {
			m, ok := byName[n]
			if !ok {
				t.Fatalf("harness: RaceProgs.tla names a method the driver does not know: %s", n)
			}
			p = append(p, m)
		}
		progs = append(progs, p)
		progCfg = append(progCfg, cfgByName[pj.Cfg])
		progAcc = append(progAcc, pj.Tgt == "accepted")
	}
	f.Close()
	_ = triples
	tr := &vh.Trace{}
	var list []string
	sem := make(chan struct{}, vh.EnvInt("RACE_PAR", 8))
	var wg sync.WaitGroup
	for pi, p := range progs {
		cfg := progCfg[pi]
		names := ""
		for _, m := range p {
			names += m.Name + " "
		}
		acc := progAcc[pi]
		list = append(list, fmt.Sprintf("%s| %s/%d/%d on the %s session", names, cfg.Cipher, cfg.D, cfg.P, map[bool]string{false: "dialled", true: "accepted"}[acc]))
		wg.Add(1)
		sem <- struct{}{}
		go func(p []method, cfg cfgT, seed int64) {
			defer wg.Done()
			defer func() { <-sem }()
			runProgram(cfg, p, seed, acc)
		}(p, cfg, rng.Int63())
	}
	wg.Wait()
	tr.Add(map[string]any{"ev": "programs", "n": len(progs)})
	tf, err := vh.OpenTraceFile(filepath.Join(out, "race.ndjson"))
	vh.Must(err)
	tf.WriteTrace(map[string]any{"src": "race"}, tr)
	vh.Must(tf.Close())
	vh.WriteJSON(filepath.Join(out, "race.json"), map[string]any{"Programs": len(progs), "Methods": len(ms), "List": list})
}
