package coredrv

import (
	"bufio"
	"encoding/json"
	"fmt"
	"math/rand"
	"os"
	"path/filepath"
	"testing"
	"testing/synctest"

	"verifharness/vh"
)

type step struct {
	A Act            `json:"a"`
	S map[string]any `json:"s"`
}

type behaviour struct {
	Cfg   Cfg    `json:"cfg"`
	SnOff []int  `json:"snoff"`
	Clk   int    `json:"clk"`
	Steps []step `json:"steps"`
	Src   string `json:"src"`
}

type summary struct {
	Behaviours, Steps, Traces, Lines int
	Drift                            []string
	Acts                             map[string]int
	Nontrivial                       int
	Kinds                            map[string]int // interesting things that happened (retransmissions, dup input, ...)
	Panics                           []string
}

func newSummary() *summary {
	return &summary{Acts: map[string]int{}, Kinds: map[string]int{}}
}

// offsets for the metamorphic (C12) second run: sequence numbers / clock close to 2^31 and 2^32
func boundaryOffset(rng *rand.Rand) uint32 {
	w := uint32(rng.Intn(24))
	switch rng.Intn(5) {
	case 0:
		return 0x80000000 - w
	case 1:
		return 0xFFFFFFFF - w
	case 2:
		return 0x7FFFFFF0 + w
	case 3:
		return 0xFFFFFF00 + uint32(rng.Intn(256))
	default:
		return rng.Uint32()
	}
}

// clock offsets are placed so that the boundary is crossed during the run (runs last 0.3 .. 60 s)
func boundaryClock(rng *rand.Rand) uint32 {
	d := uint32(rng.Intn(3000))
	switch rng.Intn(4) {
	case 0:
		return 0x80000000 - d
	case 1:
		return 0xFFFFFFFF - d
	case 2:
		return 0xFFFFFFFF - uint32(rng.Intn(200))
	default:
		return rng.Uint32()
	}
}

// record appends the trace line of one executed step.
func record(tr *vh.Trace, w *World, a Act, obs Obs, in *DgJ) {
	e := a.E
	ev := map[string]any{"ev": "op", "name": a.Name, "e": e, "a": a.A, "b": a.B, "now": w.Elapsed(),
		"ret": obs.Ret, "out": obs.Out, "adm": obs.Adm, "rdn": obs.RdN, "rdok": obs.RdOk, "rdoff": obs.RdOff, "panic": obs.Panic != ""}
	if in != nil {
		ev["in"] = in
	} else {
		ev["in"] = DgJ{Segs: []SegJ{}}
	}
	if e >= 1 && e <= 2 {
		ev["st"] = w.Proj(e)
	} else {
		ev["st"] = map[string]any{}
	}
	ev["woff"] = []int64{w.Woff[1], w.Woff[2]}
	ev["snmp"] = w.Snmp()
	tr.Add(ev)
}

func classify(sum *summary, a Act, obs Obs, in *DgJ) bool {
	nt := false
	switch a.Name {
	case "Drop":
		sum.Kinds["drop"]++
		nt = true
	case "Deliver":
		if a.B == 1 {
			sum.Kinds["dup"]++
			nt = true
		}
		if a.A > 1 {
			sum.Kinds["reorder"]++
			nt = true
		}
	case "Forge":
		sum.Kinds["forge"]++
		nt = true
	}
	if obs.Adm.Lost > 0 {
		sum.Kinds["rto-retransmit"]++
		nt = true
	}
	return nt
}

func runBehaviour(t *testing.T, b behaviour, sn1, sn2, clk uint32, sum *summary, tf *vh.TraceFile, label string) {
	synctest.Test(t, func(t *testing.T) {
		w := NewWorld(b.Cfg, sn1, sn2, clk)
		tr := &vh.Trace{}
		nontrivial := false
		for si, st := range b.Steps {
			a := st.A
			sum.Steps++
			sum.Acts[a.Name]++
			if !w.Enabled(a) {
				if len(sum.Drift) < 40 {
					sum.Drift = append(sum.Drift, fmt.Sprintf("%s step %d: action %+v not enabled in the real state (net=%d)", label, si+1, a, len(w.Net)))
				}
				continue
			}
			obs, in := w.Step(a)
			record(tr, w, a, obs, in)
			if obs.Panic != "" {
				sum.Panics = append(sum.Panics, fmt.Sprintf("%s step %d %+v: %s", label, si+1, a, obs.Panic))
				break
			}
			if classify(sum, a, obs, in) {
				nontrivial = true
			}
			// compare with the specification's projected post-state
			got := map[string]any{"k": []any{toAny(w.Proj(1)), toAny(w.Proj(2))}, "net": toAny(w.NetProj()), "now": float64(w.Elapsed()),
				"obs": toAny(obs)}
			if d := Diff(st.S, got, "s"); d != "" {
				if len(sum.Drift) < 40 {
					sum.Drift = append(sum.Drift, fmt.Sprintf("%s step %d %+v: %s", label, si+1, a, d))
				}
			}
		}
		if nontrivial {
			sum.Nontrivial++
		}
		hasForge := false
		for _, st := range b.Steps {
			if st.A.Name == "Forge" {
				hasForge = true
			}
		}
		if vh.EnvInt("CORE_SETTLE", 0) == 1 && !hasForge && len(sum.Panics) == 0 {
			next := [3]int{0, 0, 0}
			do := func(a Act) Obs {
				if !w.Enabled(a) {
					return Obs{}
				}
				obs, in := w.Step(a)
				if a.Name == "Recv" && obs.Ret == -1 {
					return obs
				}
				record(tr, w, a, obs, in)
				if obs.Panic != "" {
					sum.Panics = append(sum.Panics, fmt.Sprintf("%s settle %+v: %s", label, a, obs.Panic))
				}
				return obs
			}
			settlePhase(w, tr, do, false, &next, sum)
		}
		forged := false
		for _, st := range b.Steps {
			if st.A.Name == "Forge" {
				forged = true
			}
		}
		tf.WriteTrace(map[string]any{"cfg": b.Cfg, "src": label, "sn": []uint32{sn1, sn2}, "clk": clk, "clean": false, "forged": forged}, tr)
		active = nil
	})
}

func readBehaviours(path string) ([]behaviour, error) {
	f, err := os.Open(path)
	if err != nil {
		return nil, err
	}
	defer f.Close()
	var out []behaviour
	sc := bufio.NewScanner(f)
	sc.Buffer(make([]byte, 1<<20), 1<<28)
	for sc.Scan() {
		var b behaviour
		if err := json.Unmarshal(sc.Bytes(), &b); err != nil {
			return nil, err
		}
		out = append(out, b)
	}
	return out, sc.Err()
}

// TestCoreReplay executes TLC-generated behaviours of KcpNet.tla on two real KCP objects: once at offsets 0
// and once at sequence/clock offsets near 2^31 / 2^32 (C12), comparing the normalised projection per step.
func TestCoreReplay(t *testing.T) {
	in := vh.EnvStr("VERIF_IN", "")
	if in == "" {
		t.Skip("VERIF_IN not set")
	}
	out := vh.OutDir(t)
	bs, err := readBehaviours(filepath.Join(in, "core_behaviours.ndjson"))
	vh.Must(err)
	rng := rand.New(rand.NewSource(vh.Seed()*104729 + 5))
	tf, err := vh.OpenTraceFile(filepath.Join(out, "core_replay.ndjson"))
	vh.Must(err)
	sum := newSummary()
	for i, b := range bs {
		label := fmt.Sprintf("%s#%d", b.Src, i)
		runBehaviour(t, b, uint32(b.SnOff[0]), uint32(b.SnOff[1]), uint32(b.Clk), sum, tf, label+"@0")
		runBehaviour(t, b, boundaryOffset(rng), boundaryOffset(rng), boundaryClock(rng), sum, tf, label+"@wrap")
		sum.Behaviours++
	}
	vh.Must(tf.Close())
	sum.Traces, sum.Lines = tf.N, tf.L
	vh.WriteJSON(filepath.Join(out, "core_replay.json"), sum)
}

// ---------------------------------------------------------------------------
// random drives far beyond TLC's bounds
// ---------------------------------------------------------------------------

type driveOpts struct {
	Steps     int
	LossPct   int // probability that a Deliver-candidate is dropped instead
	DupPct    int
	ForgePct  int
	Clean     bool // clean path: no loss / dup / reorder, constant delay, reader keeps up (C18)
	DelayMs   int  // clean path one-way delay
	PausePct  int  // probability per phase that a reader stops reading for a while (C03)
	UseUpdate bool // drive with Update/Check instead of flush+interval
}

func randCfg(rng *rand.Rand, clean bool) Cfg {
	mtus := []int{25, 32, 56, 100, 576, 1400, 1500}
	c := Cfg{Mtu: mtus[rng.Intn(len(mtus))], SndWnd: 1 + rng.Intn(40), RcvWnd: 1 + rng.Intn(40),
		NoDelay: rng.Intn(2), Interval: []int{10, 20, 40, 100}[rng.Intn(4)], Resend: rng.Intn(3), Nc: rng.Intn(2),
		Stream: rng.Intn(2), AckNoDelay: rng.Intn(2)}
	if clean {
		// C18's window precondition: receive window >= min(sender's window, 32)
		c.RcvWnd = 32 + rng.Intn(16)
		if c.SndWnd > 32 {
			c.SndWnd = 32
		}
		if c.Mtu < 56 {
			c.Mtu = 56
		}
	}
	return c
}

func forgedField(rng *rand.Rand, cfg Cfg) map[string]int {
	cmds := []int{81, 81, 81, 82, 82, 83, 84}
	dsn := []int{-2, -1, 0, 1, 2, cfg.RcvWnd - 1, cfg.RcvWnd, cfg.RcvWnd + 1, 1 << 20, -(1 << 20), 1 << 29}
	duna := []int{-1, 0, 1, 2, 5, 1 << 20, -(1 << 20)}
	wnds := []int{0, 1, 2, 32, 65535}
	dts := []int{0, -1, -10, -100, -60000, 1, 100, 60000, -(1 << 28), 1 << 28}
	bad := []int{0, 0, 0, 0, 0, 0, 1, 2, 3}
	maxlen := cfg.Mtu - 24
	if maxlen > 64 {
		maxlen = 64
	}
	return map[string]int{"cmd": cmds[rng.Intn(len(cmds))], "frg": []int{0, 0, 1, 3, 255}[rng.Intn(5)], "wnd": wnds[rng.Intn(len(wnds))],
		"dts": dts[rng.Intn(len(dts))], "dsn": dsn[rng.Intn(len(dsn))], "duna": duna[rng.Intn(len(duna))],
		"len": rng.Intn(maxlen + 1), "bad": bad[rng.Intn(len(bad))]}
}

// drive runs one random scenario and records its trace. The run ends with a settling phase: faults off,
// readers reading, both endpoints flushed at the intervals they ask for, until nothing is outstanding.
func drive(t *testing.T, rng *rand.Rand, cfg Cfg, o driveOpts, sum *summary, tf *vh.TraceFile, label string) {
	synctest.Test(t, func(t *testing.T) {
		w := NewWorld(cfg, boundaryOffset(rng), boundaryOffset(rng), boundaryClock(rng))
		tr := &vh.Trace{}
		do := func(a Act) Obs {
			if !w.Enabled(a) {
				return Obs{}
			}
			obs, in := w.Step(a)
			if a.Name == "Recv" && obs.Ret == -1 {
				return obs // nothing readable: no state change, not recorded
			}
			record(tr, w, a, obs, in)
			sum.Steps++
			sum.Acts[a.Name]++
			classify(sum, a, obs, in)
			if obs.Panic != "" {
				sum.Panics = append(sum.Panics, fmt.Sprintf("%s %+v: %s", label, a, obs.Panic))
			}
			return obs
		}
		mss := cfg.Mtu - 24
		paused := [3]bool{}
		next := [3]int{0, 0, 0} // next flush time (elapsed ms) per endpoint for the interval drive
		type due struct {
			at  int
			idx int
		}
		flushDue := func(e int) {
			if o.UseUpdate {
				ob := do(Act{Name: "Update", E: e})
				next[e] = nextPoll(w, e, ob)
			} else {
				ob := do(Act{Name: "Flush", E: e})
				next[e] = w.Elapsed() + ob.Ret
			}
		}
		sentAt := map[*byte]int{} // clean path: datagram -> time it becomes deliverable
		for s := 0; s < o.Steps && len(sum.Panics) == 0; s++ {
			if s%50 == 0 {
				for e := 1; e <= 2; e++ {
					paused[e] = !o.Clean && rng.Intn(100) < o.PausePct
				}
			}
			// timers first: anything due is flushed
			for e := 1; e <= 2; e++ {
				if w.Elapsed() >= next[e] {
					flushDue(e)
				}
			}
			x := rng.Intn(100)
			switch {
			case x < 25: // write
				e := 1 + rng.Intn(2)
				if e == 2 && rng.Intn(3) != 0 {
					e = 1
				}
				if w.K[e].WaitSnd() < 2*cfg.SndWnd+8 {
					sizes := []int{1, mss / 2, mss, mss + 1, 3 * mss, 1 + rng.Intn(4*mss+1)}
					n := sizes[rng.Intn(len(sizes))]
					if n < 1 {
						n = 1
					}
					if cfg.Stream == 0 && n > cfg.RcvWnd*mss {
						n = cfg.RcvWnd * mss // a message must fit the peer's receive window (known finding C02/msg-exceeds-rcv-wnd)
					}
					ob := do(Act{Name: "Send", E: e, A: n})
					if ob.Ret == 0 && rng.Intn(2) == 0 {
						flushDue(e)
					}
				}
			case x < 45: // read
				for e := 1; e <= 2; e++ {
					if paused[e] {
						continue
					}
					for i := 0; i < 4; i++ {
						bl := []int{1, mss / 2, mss, 4 * mss, 70000}[rng.Intn(5)]
						if cfg.Stream == 0 || o.Clean {
							bl = 70000
						}
						if ps := w.K[e].PeekSize(); ps >= 0 && rng.Intn(3) == 0 {
							bl = ps // the raw-core idiom: a buffer of exactly PeekSize() bytes
						}
						if do(Act{Name: "Recv", E: e, A: bl}).Ret < 0 {
							break
						}
					}
				}
			case x < 80: // network
				if len(w.Net) == 0 {
					break
				}
				if o.Clean {
					// FIFO with constant delay
					d := w.Net[0]
					at, ok := sentAt[&d.data[0]]
					if !ok {
						at = w.Elapsed()
					}
					if w.Elapsed() >= at {
						do(Act{Name: "Deliver", E: d.dst, A: 1, B: 0})
					}
					break
				}
				i := 1
				if rng.Intn(3) == 0 {
					i = 1 + rng.Intn(len(w.Net))
				}
				y := rng.Intn(100)
				switch {
				case y < o.LossPct:
					do(Act{Name: "Drop", E: w.Net[i-1].dst, A: i})
				case y < o.LossPct+o.DupPct:
					do(Act{Name: "Deliver", E: w.Net[i-1].dst, A: i, B: 1})
				default:
					do(Act{Name: "Deliver", E: w.Net[i-1].dst, A: i, B: 0})
				}
			case x < 80+o.ForgePct:
				do(Act{Name: "Forge", E: 1 + rng.Intn(2), F: forgedField(rng, cfg)})
			default: // time passes
				d := []int{1, 5, 10, cfg.Interval, 2 * cfg.Interval, 250}[rng.Intn(6)]
				if o.Clean {
					d = []int{1, 2, 5}[rng.Intn(3)]
				}
				do(Act{Name: "Tick", A: d})
			}
			if o.Clean {
				for _, d := range w.Net {
					if _, ok := sentAt[&d.data[0]]; !ok {
						sentAt[&d.data[0]] = w.Elapsed() + o.DelayMs
					}
				}
			}
			// keep the bag bounded: oldest datagrams are lost
			for !o.Clean && len(w.Net) > 64 {
				do(Act{Name: "Drop", E: w.Net[0].dst, A: 1})
			}
		}
		// ---- settling phase (C02/C03): the network heals, readers read ----
		settle := o.ForgePct == 0 // forged una/ack fields can discard unacknowledged data: C02 is about genuine peers
		if settle && len(sum.Panics) == 0 {
			settlePhase(w, tr, do, o.UseUpdate, &next, sum)
		} else {
			tr.Add(map[string]any{"ev": "settled", "checked": false, "bounded": false, "drained": false, "heal": w.Elapsed(), "now": w.Elapsed(),
				"heal1": w.Proj(1), "heal2": w.Proj(2), "end1": w.Proj(1), "end2": w.Proj(2), "panic": len(sum.Panics) > 0})
		}
		tf.WriteTrace(map[string]any{"cfg": cfg, "src": label, "clean": o.Clean, "delay": o.DelayMs, "update": o.UseUpdate,
			"forged": o.ForgePct > 0}, tr)
		sum.Behaviours++
		sum.Nontrivial++
		active = nil
	})
}

// TestCoreDrive: lossy / duplicating / reordering / forging random runs with realistic parameters.
func TestCoreDrive(t *testing.T) {
	out := vh.OutDir(t)
	rng := rand.New(rand.NewSource(vh.Seed()*15485863 + 11))
	runs := vh.EnvInt("CORE_RUNS", 24)
	steps := vh.EnvInt("CORE_STEPS", 600)
	forge := vh.EnvInt("CORE_FORGE", 5)
	tf, err := vh.OpenTraceFile(filepath.Join(out, "core_drive.ndjson"))
	vh.Must(err)
	sum := newSummary()
	for r := 0; r < runs; r++ {
		cfg := randCfg(rng, false)
		o := driveOpts{Steps: steps, LossPct: []int{0, 5, 20, 40}[rng.Intn(4)], DupPct: []int{0, 5, 15}[rng.Intn(3)],
			ForgePct: []int{0, forge}[rng.Intn(2)], PausePct: []int{0, 30}[rng.Intn(2)], UseUpdate: rng.Intn(3) == 0}
		drive(t, rng, cfg, o, sum, tf, fmt.Sprintf("drive%d", r))
	}
	vh.Must(tf.Close())
	sum.Traces, sum.Lines = tf.N, tf.L
	vh.WriteJSON(filepath.Join(out, "core_drive.json"), sum)
}

// TestCoreClean: clean paths (no loss, no duplication, FIFO, constant delay, reader keeps up) for C18.
func TestCoreClean(t *testing.T) {
	out := vh.OutDir(t)
	rng := rand.New(rand.NewSource(vh.Seed()*32452843 + 13))
	runs := vh.EnvInt("CORE_RUNS", 24)
	steps := vh.EnvInt("CORE_STEPS", 600)
	tf, err := vh.OpenTraceFile(filepath.Join(out, "core_clean.ndjson"))
	vh.Must(err)
	sum := newSummary()
	for r := 0; r < runs; r++ {
		cfg := randCfg(rng, true)
		minrto := 100
		if cfg.NoDelay != 0 {
			minrto = 30
		}
		// precondition of C18: 2D + peer's flush interval < minimum RTO (with a margin for the driver's own flush granularity)
		if cfg.Interval >= minrto-1 {
			cfg.Interval = []int{10, 20}[rng.Intn(2)]
		}
		maxD := (minrto - cfg.Interval - 1) / 2
		if maxD < 0 {
			maxD = 0
		}
		cleanRun(t, rng, cfg, rng.Intn(maxD+1), rng.Intn(3) == 0, steps/4, sum, tf, fmt.Sprintf("clean%d", r))
	}
	vh.Must(tf.Close())
	sum.Traces, sum.Lines = tf.N, tf.L
	vh.WriteJSON(filepath.Join(out, "core_clean.json"), sum)
}

// cleanRun is an event-driven run over a clean path: FIFO, constant one-way delay, nothing lost or duplicated,
// both endpoints flushed exactly when they ask to be (interval drive) or with the public Update/Check loop,
// the reader reads as soon as data is deliverable.
func cleanRun(t *testing.T, rng *rand.Rand, cfg Cfg, delay int, useUpdate bool, writes int, sum *summary, tf *vh.TraceFile, label string) {
	synctest.Test(t, func(t *testing.T) {
		w := NewWorld(cfg, boundaryOffset(rng), boundaryOffset(rng), boundaryClock(rng))
		tr := &vh.Trace{}
		do := func(a Act) Obs {
			obs, in := w.Step(a)
			if a.Name == "Recv" && obs.Ret == -1 {
				return obs
			}
			record(tr, w, a, obs, in)
			sum.Steps++
			sum.Acts[a.Name]++
			classify(sum, a, obs, in)
			if obs.Panic != "" {
				sum.Panics = append(sum.Panics, fmt.Sprintf("%s %+v: %s", label, a, obs.Panic))
			}
			return obs
		}
		mss := cfg.Mtu - 24
		next := [3]int{0, 0, 0}
		arrive := map[*byte]int{}
		stamp := func() {
			for _, d := range w.Net {
				if _, ok := arrive[&d.data[0]]; !ok {
					arrive[&d.data[0]] = w.Elapsed() + delay
				}
			}
		}
		flush := func(e int) {
			if useUpdate {
				ob := do(Act{Name: "Update", E: e})
				next[e] = nextPoll(w, e, ob)
			} else {
				ob := do(Act{Name: "Flush", E: e})
				next[e] = w.Elapsed() + ob.Ret
			}
			stamp()
		}
		drained := func() bool {
			return w.K[1].WaitSnd() == 0 && w.K[2].WaitSnd() == 0 && w.Rdoff[1] == w.Woff[2] && w.Rdoff[2] == w.Woff[1]
		}
		nextWrite := 0
		for iter := 0; iter < 200000 && len(sum.Panics) == 0; iter++ {
			now := w.Elapsed()
			// everything due now, in a fixed order: arrivals, reads, flushes, writes
			for len(w.Net) > 0 && arrive[&w.Net[0].data[0]] <= now {
				d := w.Net[0]
				delete(arrive, &d.data[0])
				do(Act{Name: "Deliver", E: d.dst, A: 1, B: 0})
				stamp()
				for do(Act{Name: "Recv", E: d.dst, A: 1 << 20}).Ret >= 0 {
				}
			}
			for e := 1; e <= 2; e++ {
				if now >= next[e] {
					flush(e)
				}
			}
			if writes > 0 && now >= nextWrite {
				e := 1
				if rng.Intn(4) == 0 {
					e = 2
				}
				if w.K[e].WaitSnd() < cfg.SndWnd { // like a session's Write: admitted only below the send window
					n := []int{1, mss / 2, mss, mss + 1, 3 * mss, 1 + rng.Intn(4*mss+1)}[rng.Intn(6)]
					if n < 1 {
						n = 1
					}
					if cfg.Stream == 0 && n > cfg.RcvWnd*mss {
						n = cfg.RcvWnd * mss
					}
					if do(Act{Name: "Send", E: e, A: n}).Ret == 0 {
						writes--
						if rng.Intn(2) == 0 && !useUpdate {
							flush(e) // Write without write-delay flushes at once
						}
					}
				}
				nextWrite = now + []int{0, 0, 1, 3, 10, 50, 200}[rng.Intn(7)]
			}
			if writes == 0 && drained() {
				break
			}
			// advance exactly to the next event
			nt := next[1]
			if next[2] < nt {
				nt = next[2]
			}
			if len(w.Net) > 0 && arrive[&w.Net[0].data[0]] < nt {
				nt = arrive[&w.Net[0].data[0]]
			}
			if writes > 0 && nextWrite < nt {
				nt = nextWrite
			}
			if nt > w.Elapsed() {
				do(Act{Name: "Tick", A: nt - w.Elapsed()})
			}
		}
		tr.Add(map[string]any{"ev": "settled", "checked": true, "bounded": false, "drained": drained(), "heal": 0, "now": w.Elapsed(),
			"heal1": w.Proj(1), "heal2": w.Proj(2), "dead": false,
			"woff": []int64{w.Woff[1], w.Woff[2]}, "rdoff": []int64{w.Rdoff[1], w.Rdoff[2]}, "panic": len(sum.Panics) > 0})
		tf.WriteTrace(map[string]any{"cfg": cfg, "src": label, "clean": true, "delay": delay, "update": useUpdate, "forged": false}, tr)
		sum.Behaviours++
		sum.Nontrivial++
		active = nil
	})
}

// runCollect executes a behaviour at the given offsets and returns the normalised observation of every step.
func runCollect(t *testing.T, b behaviour, sn1, sn2, clk uint32) (lines []map[string]any, crossed bool) {
	synctest.Test(t, func(t *testing.T) {
		w := NewWorld(b.Cfg, sn1, sn2, clk)
		for _, st := range b.Steps {
			if !w.Enabled(st.A) {
				lines = append(lines, map[string]any{"skipped": true})
				continue
			}
			obs, _ := w.Step(st.A)
			o := map[string]any{"name": st.A.Name, "e": st.A.E, "ret": obs.Ret, "out": obs.Out, "rdn": obs.RdN, "rdok": obs.RdOk,
				"now": w.Elapsed(), "panic": obs.Panic != "", "net": w.NetProj()}
			if st.A.E >= 1 && st.A.E <= 2 {
				o["st"] = w.Proj(st.A.E)
			}
			lines = append(lines, o)
			if obs.Panic != "" {
				break
			}
		}
		// did the shifted run cross a 2^31 / 2^32 boundary in sn or clock?
		for e := 1; e <= 2; e++ {
			s := w.K[e].VerifState()
			for _, bnd := range []uint32{0, 0x80000000} {
				if int32(s.SndNxt-bnd) >= 0 && int32(w.SnOff[e]-bnd) < 0 {
					crossed = true
				}
			}
		}
		for _, bnd := range []uint32{0, 0x80000000} {
			if int32(kcpNow()-bnd) >= 0 && int32(w.Clk-bnd) < 0 {
				crossed = true
			}
		}
		active = nil
	})
	return
}

// TestCorePairs (C12): each behaviour at offset 0 and at boundary offsets; observations paired line by line.
func TestCorePairs(t *testing.T) {
	in := vh.EnvStr("VERIF_IN", "")
	if in == "" {
		t.Skip("VERIF_IN not set")
	}
	out := vh.OutDir(t)
	bs, err := readBehaviours(filepath.Join(in, "core_behaviours.ndjson"))
	vh.Must(err)
	rng := rand.New(rand.NewSource(vh.Seed()*49979687 + 3))
	tf, err := vh.OpenTraceFile(filepath.Join(out, "core_pairs.ndjson"))
	vh.Must(err)
	sum := newSummary()
	reps := vh.EnvInt("PAIR_REPS", 2)
	for i, b := range bs {
		base, _ := runCollect(t, b, 0, 0, 0)
		for r := 0; r < reps; r++ {
			sn1, sn2, clk := boundaryOffset(rng), boundaryOffset(rng), boundaryClock(rng)
			shifted, crossed := runCollect(t, b, sn1, sn2, clk)
			tr := &vh.Trace{}
			n := len(base)
			if len(shifted) < n {
				n = len(shifted)
			}
			for j := 0; j < n; j++ {
				tr.Add(map[string]any{"ev": "pair", "a": base[j], "b": shifted[j], "panic": false})
			}
			if len(base) != len(shifted) {
				tr.Add(map[string]any{"ev": "pair", "a": map[string]any{"len": len(base)}, "b": map[string]any{"len": len(shifted)}, "panic": false})
			}
			tf.WriteTrace(map[string]any{"cfg": b.Cfg, "src": fmt.Sprintf("%s#%d", b.Src, i), "sn": []uint32{sn1, sn2}, "clk": clk,
				"clean": false, "forged": true}, tr)
			sum.Steps += n
			if crossed {
				sum.Nontrivial++
				sum.Kinds["crossed-boundary"]++
			}
		}
		sum.Behaviours++
	}
	vh.Must(tf.Close())
	sum.Traces, sum.Lines = tf.N, tf.L
	vh.WriteJSON(filepath.Join(out, "core_pairs.json"), sum)
}

// TestCoreActions re-executes the action list of a replay file (actions carry the datagram fed to Input, so the
// network is not re-simulated: "Deliver"/"Forge" lines are applied as Input of the recorded datagram).
func TestCoreActions(t *testing.T) {
	in := vh.EnvStr("VERIF_IN", "")
	if in == "" {
		t.Skip("VERIF_IN not set")
	}
	out := vh.OutDir(t)
	var rp struct {
		Meta struct {
			Cfg    Cfg  `json:"cfg"`
			Clean  bool `json:"clean"`
			Forged bool `json:"forged"`
		} `json:"meta"`
		Actions []struct {
			Name string `json:"name"`
			E    int    `json:"e"`
			A    int    `json:"a"`
			B    int    `json:"b"`
			Now  int    `json:"now"`
			In   *DgJ   `json:"in"`
		} `json:"actions"`
	}
	vh.Must(vh.ReadJSON(filepath.Join(in, "core_actions.json"), &rp))
	tf, err := vh.OpenTraceFile(filepath.Join(out, "core_actions.ndjson"))
	vh.Must(err)
	synctest.Test(t, func(t *testing.T) {
		w := NewWorld(rp.Meta.Cfg, 0, 0, 0)
		tr := &vh.Trace{}
		for _, a := range rp.Actions {
			if d := a.Now - w.Elapsed(); d > 0 {
				w.Step(Act{Name: "Tick", A: d})
			}
			act := Act{Name: a.Name, E: a.E, A: a.A, B: a.B}
			switch a.Name {
			case "Tick", "Drop":
				continue
			case "Deliver", "Forge", "Input":
				// rebuild the recorded datagram and feed it directly
				obs, in := w.InputRecorded(a.E, a.In)
				record(tr, w, Act{Name: "Input", E: a.E}, obs, in)
				continue
			}
			obs, in := w.Step(act)
			record(tr, w, act, obs, in)
		}
		tf.WriteTrace(map[string]any{"cfg": rp.Meta.Cfg, "src": "replay-file", "clean": rp.Meta.Clean, "forged": rp.Meta.Forged}, tr)
		active = nil
	})
	vh.Must(tf.Close())
}

// settlePhase: faults are over; datagrams are delivered in order at once, both readers read everything, both endpoints
// are flushed when they ask to be; runs until nothing is outstanding (or 300 virtual seconds). Emits the "settled" line.
func settlePhase(w *World, tr *vh.Trace, do func(Act) Obs, useUpdate bool, next *[3]int, sum *summary) {
	healAt := w.Elapsed()
	heal1, heal2 := w.Proj(1), w.Proj(2)
	drained := func() bool {
		return w.K[1].WaitSnd() == 0 && w.K[2].WaitSnd() == 0 && w.Rdoff[1] == w.Woff[2] && w.Rdoff[2] == w.Woff[1]
	}
	flushDue := func(e int) {
		if useUpdate {
			ob := do(Act{Name: "Update", E: e})
			next[e] = nextPoll(w, e, ob)
		} else {
			ob := do(Act{Name: "Flush", E: e})
			next[e] = w.Elapsed() + ob.Ret
		}
	}
	// a run that does not settle (a wedge) would otherwise record hundreds of thousands of identical polling steps: after
	// `budget` recorded steps the rest of the phase is executed without being recorded (the "settled" line carries the outcome)
	budget, recorded, doRec := vh.EnvInt("CORE_SETTLE_BUDGET", 4000), 0, do
	do = func(a Act) Obs {
		if recorded < budget {
			recorded++
			return doRec(a)
		}
		if !w.Enabled(a) {
			return Obs{}
		}
		obs, _ := w.Step(a)
		if obs.Panic != "" {
			sum.Panics = append(sum.Panics, fmt.Sprintf("settle %+v: %s", a, obs.Panic))
		}
		return obs
	}
	limit := healAt + 300000
	for len(sum.Panics) == 0 && !drained() && w.Elapsed() < limit {
		for len(w.Net) > 0 {
			do(Act{Name: "Deliver", E: w.Net[0].dst, A: 1, B: 0})
		}
		for e := 1; e <= 2; e++ {
			for do(Act{Name: "Recv", E: e, A: 1 << 20}).Ret >= 0 {
			}
			if w.Elapsed() >= next[e] {
				flushDue(e)
			}
		}
		if drained() {
			break
		}
		if len(w.Net) == 0 {
			d := next[1] - w.Elapsed()
			if d2 := next[2] - w.Elapsed(); d2 < d {
				d = d2
			}
			if d < 1 {
				d = 1
			}
			do(Act{Name: "Tick", A: d})
		}
	}
	tr.Add(map[string]any{"ev": "settled", "checked": true, "bounded": true, "drained": drained(), "heal": healAt, "now": w.Elapsed(),
		"heal1": heal1, "heal2": heal2, "end1": w.Proj(1), "end2": w.Proj(2),
		"woff": []int64{w.Woff[1], w.Woff[2]}, "rdoff": []int64{w.Rdoff[1], w.Rdoff[2]}, "panic": len(sum.Panics) > 0})
	if !drained() {
		sum.Kinds["not-drained"]++
	}
}

// TestCoreStall (C03): the receiving application stops reading at a random point of a transfer for 0.1 s .. 10 min of
// virtual time; during a sub-interval of the pause (and shortly after) EVERY datagram that carries only ACK / WASK / WINS
// segments is lost; then the reader resumes and the run settles.
func TestCoreStall(t *testing.T) {
	out := vh.OutDir(t)
	rng := rand.New(rand.NewSource(vh.Seed()*86028121 + 29))
	runs := vh.EnvInt("CORE_RUNS", 24)
	tf, err := vh.OpenTraceFile(filepath.Join(out, "core_stall.ndjson"))
	vh.Must(err)
	sum := newSummary()
	for r := 0; r < runs; r++ {
		cfg := randCfg(rng, false)
		cfg.RcvWnd = []int{1, 1, 2, 3, 4, 8, 16, 32}[rng.Intn(8)]
		cfg.Stream = 1
		if cfg.Mtu < 56 {
			cfg.Mtu = 56
		}
		pause := []int{100, 700, 3000, 20000, 130000, 600000}[rng.Intn(6)]
		stallRun(t, rng, cfg, pause, rng.Intn(3) == 0, sum, tf, fmt.Sprintf("stall%d", r))
	}
	vh.Must(tf.Close())
	sum.Traces, sum.Lines = tf.N, tf.L
	vh.WriteJSON(filepath.Join(out, "core_stall.json"), sum)
}

func onlyControl(w *World, data []byte) bool {
	segs, _, _ := w.normSegs(1, data)
	for _, s := range segs {
		if s.Cmd == 81 {
			return false
		}
	}
	return len(segs) > 0
}

func stallRun(t *testing.T, rng *rand.Rand, cfg Cfg, pauseMs int, useUpdate bool, sum *summary, tf *vh.TraceFile, label string) {
	synctest.Test(t, func(t *testing.T) {
		w := NewWorld(cfg, boundaryOffset(rng), boundaryOffset(rng), boundaryClock(rng))
		tr := &vh.Trace{}
		do := func(a Act) Obs {
			if !w.Enabled(a) {
				return Obs{}
			}
			obs, in := w.Step(a)
			if a.Name == "Recv" && obs.Ret == -1 {
				return obs
			}
			record(tr, w, a, obs, in)
			sum.Steps++
			sum.Acts[a.Name]++
			classify(sum, a, obs, in)
			if obs.Panic != "" {
				sum.Panics = append(sum.Panics, fmt.Sprintf("%s %+v: %s", label, a, obs.Panic))
			}
			return obs
		}
		mss := cfg.Mtu - 24
		next := [3]int{0, 0, 0}
		flushDue := func(e int) {
			if useUpdate {
				ob := do(Act{Name: "Update", E: e})
				next[e] = nextPoll(w, e, ob)
			} else {
				ob := do(Act{Name: "Flush", E: e})
				next[e] = w.Elapsed() + ob.Ret
			}
		}
		pauseAt := rng.Intn(600)           // ms
		lossFrom := pauseAt + rng.Intn(pauseMs+1)
		lossTo := lossFrom + []int{0, 600, 2000, 10000, pauseMs}[rng.Intn(5)]
		resumeAt := pauseAt + pauseMs
		if lossTo > resumeAt+3000 {
			lossTo = resumeAt + 3000
		}
		endAt := resumeAt
		if lossTo > endAt {
			endAt = lossTo
		}
		total := (20 + rng.Intn(100)) * mss // bytes to write in all
		for len(sum.Panics) == 0 && w.Elapsed() < endAt {
			now := w.Elapsed()
			for e := 1; e <= 2; e++ {
				if now >= next[e] {
					flushDue(e)
				}
			}
			// the writer behaves like a session: admitted only below the send window
			if w.Woff[1] < int64(total) && w.K[1].WaitSnd() < cfg.SndWnd {
				n := 1 + rng.Intn(3*mss)
				if do(Act{Name: "Send", E: 1, A: n}).Ret == 0 && !useUpdate {
					flushDue(1)
				}
			}
			// network: in order, at once; control-only datagrams are lost during the loss interval
			for len(w.Net) > 0 {
				d := w.Net[0]
				if now >= lossFrom && now < lossTo && onlyControl(w, d.data) {
					do(Act{Name: "Drop", E: d.dst, A: 1})
					sum.Kinds["control-dropped"]++
				} else {
					do(Act{Name: "Deliver", E: d.dst, A: 1, B: 0})
				}
			}
			if now < pauseAt || now >= resumeAt {
				for do(Act{Name: "Recv", E: 2, A: 1 + rng.Intn(4*mss)}).Ret >= 0 {
				}
			} else {
				sum.Kinds["paused-iterations"]++
			}
			d := next[1] - w.Elapsed()
			if d2 := next[2] - w.Elapsed(); d2 < d {
				d = d2
			}
			if d < 1 {
				d = 1
			}
			do(Act{Name: "Tick", A: d})
		}
		if len(sum.Panics) == 0 {
			settlePhase(w, tr, do, useUpdate, &next, sum)
		}
		tf.WriteTrace(map[string]any{"cfg": cfg, "src": label, "clean": false, "forged": false, "pause": pauseMs, "loss": []int{lossFrom, lossTo}}, tr)
		sum.Behaviours++
		sum.Nontrivial++
		active = nil
	})
}

// TestCoreFates: exhaustive fate enumeration on the real code (the C02 quantifier "all fate assignments to the first K
// datagrams"): a short one-directional transfer (no reverse data, so lost ACKs are not healed by piggy-backed una),
// every datagram emitted by either end takes the next fate of the vector -- 0 deliver, 1 drop, 2 deliver twice,
// 3 hold back until the heal (reordering) -- then the network is fair and the run settles. Every vector in
// {0,1,2,3}^K is executed, for several configurations and both drives.
func TestCoreFates(t *testing.T) {
	out := vh.OutDir(t)
	K := vh.EnvInt("FATES_K", 5)
	tf, err := vh.OpenTraceFile(filepath.Join(out, "core_fates.ndjson"))
	vh.Must(err)
	sum := newSummary()
	cfgs := []Cfg{
		{Mtu: 56, SndWnd: 4, RcvWnd: 4, NoDelay: 0, Interval: 100, Resend: 0, Nc: 0, Stream: 1, AckNoDelay: 0},
		{Mtu: 56, SndWnd: 3, RcvWnd: 3, NoDelay: 1, Interval: 10, Resend: 2, Nc: 0, Stream: 0, AckNoDelay: 1},
		{Mtu: 56, SndWnd: 4, RcvWnd: 2, NoDelay: 1, Interval: 20, Resend: 1, Nc: 1, Stream: 1, AckNoDelay: 0},
	}
	total := 1
	for i := 0; i < K; i++ {
		total *= 4
	}
	for ci, cfg := range cfgs {
		for v := 0; v < total; v++ {
			fates := make([]int, K)
			x := v
			for i := range fates {
				fates[i] = x % 4
				x /= 4
			}
			fateRun(t, cfg, fates, (v+ci)%2 == 1, sum, tf, fmt.Sprintf("fates%d-%v", ci, fates))
		}
	}
	vh.Must(tf.Close())
	sum.Traces, sum.Lines = tf.N, tf.L
	vh.WriteJSON(filepath.Join(out, "core_fates.json"), sum)
}

func fateRun(t *testing.T, cfg Cfg, fates []int, useUpdate bool, sum *summary, tf *vh.TraceFile, label string) {
	synctest.Test(t, func(t *testing.T) {
		w := NewWorld(cfg, 0xFFFFFFFE, 0x7FFFFFFF, 0xFFFFFF00)
		tr := &vh.Trace{}
		do := func(a Act) Obs {
			if !w.Enabled(a) {
				return Obs{}
			}
			obs, in := w.Step(a)
			if a.Name == "Recv" && obs.Ret == -1 {
				return obs
			}
			record(tr, w, a, obs, in)
			sum.Steps++
			sum.Acts[a.Name]++
			classify(sum, a, obs, in)
			if obs.Panic != "" {
				sum.Panics = append(sum.Panics, fmt.Sprintf("%s %+v: %s", label, a, obs.Panic))
			}
			return obs
		}
		next := [3]int{0, 0, 0}
		flushDue := func(e int) {
			if useUpdate {
				ob := do(Act{Name: "Update", E: e})
				next[e] = nextPoll(w, e, ob)
			} else {
				ob := do(Act{Name: "Flush", E: e})
				next[e] = w.Elapsed() + ob.Ret
			}
		}
		mss := cfg.Mtu - 24
		// three writes: 1 segment, 2 segments, a partial one
		for _, n := range []int{mss, 2 * mss, mss / 2} {
			do(Act{Name: "Send", E: 1, A: n})
		}
		fi := 0
		held := 0 // datagrams at the front of w.Net that are held back until the heal
		for iter := 0; iter < 4000 && len(sum.Panics) == 0 && fi < len(fates); iter++ {
			for e := 1; e <= 2; e++ {
				if w.Elapsed() >= next[e] {
					flushDue(e)
				}
			}
			for len(w.Net) > held && fi < len(fates) {
				i := held + 1
				switch fates[fi] {
				case 0:
					do(Act{Name: "Deliver", E: w.Net[i-1].dst, A: i, B: 0})
				case 1:
					do(Act{Name: "Drop", E: w.Net[i-1].dst, A: i})
				case 2:
					do(Act{Name: "Deliver", E: w.Net[i-1].dst, A: i, B: 1})
					do(Act{Name: "Deliver", E: w.Net[i-1].dst, A: i, B: 0})
				case 3:
					held++
				}
				fi++
				for do(Act{Name: "Recv", E: 2, A: 1 << 20}).Ret >= 0 {
				}
			}
			if fi >= len(fates) {
				break
			}
			d := next[1] - w.Elapsed()
			if d2 := next[2] - w.Elapsed(); d2 < d {
				d = d2
			}
			if d < 1 {
				d = 1
			}
			do(Act{Name: "Tick", A: d})
		}
		if len(sum.Panics) == 0 {
			settlePhase(w, tr, do, useUpdate, &next, sum)
		}
		tf.WriteTrace(map[string]any{"cfg": cfg, "src": label, "clean": false, "forged": false}, tr)
		sum.Behaviours++
		nontrivial := false
		for _, f := range fates {
			if f != 0 {
				nontrivial = true
			}
		}
		if nontrivial {
			sum.Nontrivial++
		}
		active = nil
	})
}

// nextPoll: when to call Update again. Check's answer if it lies in the future; when Check says "now" although Update
// has just run (a retransmission is due but Update only flushes at ts_flush), poll at ts_flush instead of every ms.
func nextPoll(w *World, e int, ob Obs) int {
	now := w.Elapsed()
	if ob.Drive > now {
		return ob.Drive
	}
	if tf := w.Proj(e).TsFlush; tf > now {
		return tf
	}
	return now + 1
}

// TestCoreScripts executes hand-written boundary scripts (VERIF_IN/core_scripts.ndjson, one per line, written by
// tools/checks_core.py: boundary_scripts) on two real KCP objects and records the usual trace; the monitors and the
// conformance specification judge it like any other run. "DeliverAny" delivers the oldest datagram in flight, actions that
// are not enabled are skipped.
func TestCoreScripts(t *testing.T) {
	in := vh.EnvStr("VERIF_IN", "")
	if in == "" {
		t.Skip("VERIF_IN not set")
	}
	f, err := os.Open(filepath.Join(in, "core_scripts.ndjson"))
	if err != nil {
		t.Skip("no scripts")
	}
	defer f.Close()
	out := vh.OutDir(t)
	tf, err := vh.OpenTraceFile(filepath.Join(out, "core_scripts.ndjson"))
	vh.Must(err)
	sum := newSummary()
	sc := bufio.NewScanner(f)
	sc.Buffer(make([]byte, 1<<20), 64<<20)
	for sc.Scan() {
		var s struct {
			Meta struct {
				Cfg    Cfg    `json:"cfg"`
				Label  string `json:"label"`
				Forged bool   `json:"forged"`
			} `json:"meta"`
			Actions []Act `json:"actions"`
		}
		vh.Must(json.Unmarshal(sc.Bytes(), &s))
		synctest.Test(t, func(t *testing.T) {
			w := NewWorld(s.Meta.Cfg, 0, 0, 0)
			tr := &vh.Trace{}
			for _, a := range s.Actions {
				if a.Name == "DeliverAny" {
					if len(w.Net) == 0 {
						continue
					}
					a = Act{Name: "Deliver", E: w.Net[0].dst, A: 1}
				}
				if a.Name == "DropAny" { // the oldest datagram in flight is lost
					if len(w.Net) == 0 {
						continue
					}
					a = Act{Name: "Drop", E: w.Net[0].dst, A: 1}
				}
				if a.Name == "DropAll" { // every datagram in flight is lost
					for len(w.Net) > 0 {
						d := Act{Name: "Drop", E: w.Net[0].dst, A: 1}
						obs, in := w.Step(d)
						record(tr, w, d, obs, in)
						sum.Steps++
						sum.Acts["Drop"]++
					}
					continue
				}
				if a.Name == "Settle" { // the network heals, readers read, both ends flush when they ask to (C02 / C03)
					next := [3]int{0, 0, 0}
					do := func(a Act) Obs {
						if !w.Enabled(a) {
							return Obs{}
						}
						obs, in := w.Step(a)
						if a.Name == "Recv" && obs.Ret == -1 {
							return obs
						}
						record(tr, w, a, obs, in)
						sum.Steps++
						sum.Acts[a.Name]++
						if obs.Panic != "" {
							sum.Panics = append(sum.Panics, fmt.Sprintf("%s %+v: %s", s.Meta.Label, a, obs.Panic))
						}
						return obs
					}
					settlePhase(w, tr, do, a.A == 1, &next, sum)
					continue
				}
				if a.Name == "RecvPeek" { // the raw-core idiom: a buffer of exactly PeekSize() bytes
					ps := w.K[a.E].PeekSize()
					if ps < 0 {
						continue
					}
					a = Act{Name: "Recv", E: a.E, A: ps}
				}
				if !w.Enabled(a) {
					continue
				}
				obs, in := w.Step(a)
				if a.Name == "Recv" && obs.Ret == -1 {
					continue
				}
				record(tr, w, a, obs, in)
				sum.Steps++
				sum.Acts[a.Name]++
				sum.Kinds[s.Meta.Label]++
				if obs.Panic != "" {
					sum.Panics = append(sum.Panics, fmt.Sprintf("%s %+v: %s", s.Meta.Label, a, obs.Panic))
					break
				}
			}
			tf.WriteTrace(map[string]any{"cfg": s.Meta.Cfg, "src": "script:" + s.Meta.Label, "clean": false, "forged": s.Meta.Forged}, tr)
			sum.Behaviours++
			sum.Nontrivial++
			active = nil
		})
	}
	vh.Must(tf.Close())
	sum.Traces, sum.Lines = tf.N, tf.L
	vh.WriteJSON(filepath.Join(out, "core_scripts.json"), sum)
}

// TestCoreRtoForge (C18, second clause): acknowledgements whose echoed timestamp is far in the past -- days, weeks, the whole
// non-negative range of the 32-bit signed difference -- arrive as first RTT sample and after an ordinary history of small
// samples, interleaved with genuine traffic. The values overflow TLC's integers inside the estimator's arithmetic, so these
// traces are judged by the monitors only (C18_RtoBounds on the observed state after every step), not by conformance.
func TestCoreRtoForge(t *testing.T) {
	out := vh.OutDir(t)
	rng := rand.New(rand.NewSource(vh.Seed()*49979687 + 17))
	runs := vh.EnvInt("CORE_RUNS", 24)
	tf, err := vh.OpenTraceFile(filepath.Join(out, "core_rtoforge.ndjson"))
	vh.Must(err)
	sum := newSummary()
	far := []int{-(1 << 31) + 1, -(1 << 31) + 100, -2100000000, -2000000000, -1900000000, -(1 << 30) - 1, -(1 << 30), -(1 << 30) + 1, -1000000000,
		-900000000, -800000000, -715827883, -715827882, -700000000, -600000000, -(1 << 29), -(1 << 28), -86400000, -3600000}
	for r := 0; r < runs; r++ {
		cfg := randCfg(rng, false)
		synctest.Test(t, func(t *testing.T) {
			w := NewWorld(cfg, boundaryOffset(rng), boundaryOffset(rng), boundaryClock(rng))
			tr := &vh.Trace{}
			do := func(a Act) Obs {
				if !w.Enabled(a) {
					return Obs{}
				}
				obs, in := w.Step(a)
				if a.Name == "Recv" && obs.Ret == -1 {
					return obs
				}
				record(tr, w, a, obs, in)
				sum.Steps++
				sum.Acts[a.Name]++
				if obs.Panic != "" {
					sum.Panics = append(sum.Panics, fmt.Sprintf("rtoforge%d %+v: %s", r, a, obs.Panic))
				}
				return obs
			}
			mss := cfg.Mtu - 24
			warm := r%2 == 1 // an ordinary history of small samples first
			for step := 0; step < 120 && len(sum.Panics) == 0; step++ {
				if warm || step > 10 {
					do(Act{Name: "Send", E: 1, A: 1 + rng.Intn(2*mss)})
					do(Act{Name: "Flush", E: 1})
					for len(w.Net) > 0 {
						do(Act{Name: "Deliver", E: w.Net[0].dst, A: 1})
					}
					do(Act{Name: "Recv", E: 2, A: 70000})
					do(Act{Name: "Flush", E: 2})
					for len(w.Net) > 0 {
						do(Act{Name: "Deliver", E: w.Net[0].dst, A: 1})
					}
				}
				do(Act{Name: "Tick", A: []int{1, 10, cfg.Interval, 100, 1000}[rng.Intn(5)]})
				if !warm || step > 10 {
					dts := far[rng.Intn(len(far))]
					if rng.Intn(4) == 0 {
						dts = -rng.Intn(1<<31 - 1)
					}
					do(Act{Name: "Forge", E: 1, F: map[string]int{"cmd": 82, "frg": 0, "wnd": 32, "dts": dts, "dsn": rng.Intn(3), "duna": 0, "len": 0, "bad": 0}})
					sum.Kinds["far-past-ack-ts"]++
				}
			}
			tf.WriteTrace(map[string]any{"cfg": cfg, "src": fmt.Sprintf("rtoforge%d", r), "clean": false, "forged": true}, tr)
			sum.Behaviours++
			sum.Nontrivial++
			active = nil
		})
	}
	vh.Must(tf.Close())
	sum.Traces, sum.Lines = tf.N, tf.L
	vh.WriteJSON(filepath.Join(out, "core_rtoforge.json"), sum)
}
