// Package refcrypt holds reference evaluators for kcp-go's packet ciphers that are independent of crypt.go:
// the block ciphers through Go's crypto/cipher full-block CFB with the package's documented fixed IV, salsa20
// through x/crypto/salsa20 with the first 8 packet bytes as nonce, the XOR table through pbkdf2, AES-GCM through
// crypto/cipher. Used by the C08 check (textbook equality) and by the session wire monitor (C06/C09: decrypting
// captured datagrams, recomputing CRC32).
package refcrypt

import (
	"crypto/aes"
	"crypto/cipher"
	"crypto/des"
	"crypto/sha1"
	"fmt"

	"github.com/tjfoc/gmsm/sm4"
	kcp "github.com/xtaci/kcp-go/v5"
	"golang.org/x/crypto/blowfish"
	"golang.org/x/crypto/cast5"
	"golang.org/x/crypto/pbkdf2"
	"golang.org/x/crypto/salsa20"
	"golang.org/x/crypto/tea"
	"golang.org/x/crypto/twofish"
	"golang.org/x/crypto/xtea"
)

// IV is the fixed initial vector documented in crypt.go ("a defined initial vector").
var IV = []byte{167, 115, 79, 156, 18, 172, 27, 1, 164, 21, 242, 193, 252, 120, 230, 107}

const saltXor = `sH3CIVoF#rWLtJo6`

// Suite is one cipher: the library's implementation plus the reference one.
type Suite struct {
	Name    string
	KeyLen  int
	Kind    string // "cfb", "stream", "aead", "nil"
	New     func(key []byte) (kcp.BlockCrypt, error)
	Block   func(key []byte) (cipher.Block, error)   // cfb only
	RefEnc  func(key, dst, src []byte)               // reference encryption of a whole packet
	RefDec  func(key, dst, src []byte)               // reference decryption of a whole packet
	AEAD    func(key []byte) (cipher.AEAD, error)    // aead only
	BlockSz int
}

func cfbSuite(name string, keyLen int, nw func([]byte) (kcp.BlockCrypt, error), blk func([]byte) (cipher.Block, error)) Suite {
	s := Suite{Name: name, KeyLen: keyLen, Kind: "cfb", New: nw, Block: blk}
	s.RefEnc = func(key, dst, src []byte) {
		b, err := blk(key)
		if err != nil {
			panic(err)
		}
		bs := b.BlockSize()
		n := len(src) / bs * bs
		// standard full-block CFB over the whole blocks ...
		cipher.NewCFBEncrypter(b, IV[:bs]).XORKeyStream(dst[:n], src[:n])
		// ... and the tail (shorter than a block) XORed with the next keystream block E(previous ciphertext block)
		if n < len(src) {
			prev := IV[:bs]
			if n > 0 {
				prev = dst[n-bs : n]
			}
			ks := make([]byte, bs)
			b.Encrypt(ks, prev)
			for i := n; i < len(src); i++ {
				dst[i] = src[i] ^ ks[i-n]
			}
		}
	}
	s.RefDec = func(key, dst, src []byte) {
		b, err := blk(key)
		if err != nil {
			panic(err)
		}
		bs := b.BlockSize()
		n := len(src) / bs * bs
		tmp := make([]byte, len(src))
		copy(tmp, src)
		if n < len(src) {
			prev := IV[:bs]
			if n > 0 {
				prev = tmp[n-bs : n]
			}
			ks := make([]byte, bs)
			b.Encrypt(ks, prev)
			for i := n; i < len(src); i++ {
				dst[i] = tmp[i] ^ ks[i-n]
			}
		}
		cipher.NewCFBDecrypter(b, IV[:bs]).XORKeyStream(dst[:n], tmp[:n])
	}
	return s
}

// Suites lists every supported cipher.
func Suites() []Suite {
	ss := []Suite{
		cfbSuite("aes-128", 16, kcp.NewAESBlockCrypt, aes.NewCipher),
		cfbSuite("aes-192", 24, kcp.NewAESBlockCrypt, aes.NewCipher),
		cfbSuite("aes-256", 32, kcp.NewAESBlockCrypt, aes.NewCipher),
		cfbSuite("sm4", 16, kcp.NewSM4BlockCrypt, func(k []byte) (cipher.Block, error) { return sm4.NewCipher(k) }),
		cfbSuite("twofish", 32, kcp.NewTwofishBlockCrypt, func(k []byte) (cipher.Block, error) { return twofish.NewCipher(k) }),
		cfbSuite("3des", 24, kcp.NewTripleDESBlockCrypt, des.NewTripleDESCipher),
		cfbSuite("cast5", 16, kcp.NewCast5BlockCrypt, func(k []byte) (cipher.Block, error) { return cast5.NewCipher(k) }),
		cfbSuite("blowfish", 32, kcp.NewBlowfishBlockCrypt, func(k []byte) (cipher.Block, error) { return blowfish.NewCipher(k) }),
		cfbSuite("tea", 16, kcp.NewTEABlockCrypt, func(k []byte) (cipher.Block, error) { return tea.NewCipherWithRounds(k, 16) }),
		cfbSuite("xtea", 16, kcp.NewXTEABlockCrypt, func(k []byte) (cipher.Block, error) { return xtea.NewCipher(k) }),
	}
	sal := Suite{Name: "salsa20", KeyLen: 32, Kind: "stream", New: kcp.NewSalsa20BlockCrypt}
	sal.RefEnc = func(key, dst, src []byte) {
		if len(src) < 8 {
			copy(dst, src) // packets shorter than the nonce are left alone
			return
		}
		var k [32]byte
		copy(k[:], key)
		copy(dst[:8], src[:8])
		salsa20.XORKeyStream(dst[8:], src[8:], src[:8], &k)
	}
	sal.RefDec = sal.RefEnc
	ss = append(ss, sal)
	xr := Suite{Name: "xor", KeyLen: 32, Kind: "stream", New: kcp.NewSimpleXORBlockCrypt}
	xr.RefEnc = func(key, dst, src []byte) {
		tbl := pbkdf2.Key(key, []byte(saltXor), 32, 1500, sha1.New)
		for i := range src {
			dst[i] = src[i] ^ tbl[i]
		}
	}
	xr.RefDec = xr.RefEnc
	ss = append(ss, xr)
	nn := Suite{Name: "none", KeyLen: 16, Kind: "stream", New: kcp.NewNoneBlockCrypt}
	nn.RefEnc = func(key, dst, src []byte) { copy(dst, src) }
	nn.RefDec = nn.RefEnc
	ss = append(ss, nn)
	gcm := Suite{Name: "aes-gcm", KeyLen: 16, Kind: "aead", New: kcp.NewAESGCMCrypt}
	gcm.AEAD = func(key []byte) (cipher.AEAD, error) {
		b, err := aes.NewCipher(key)
		if err != nil {
			return nil, err
		}
		return cipher.NewGCM(b)
	}
	ss = append(ss, gcm)
	for i := range ss {
		if ss[i].Block != nil {
			b, err := ss[i].Block(make([]byte, ss[i].KeyLen))
			if err != nil {
				panic(fmt.Sprintf("%s: %v", ss[i].Name, err))
			}
			ss[i].BlockSz = b.BlockSize()
		}
	}
	return ss
}

// ByName returns the suite with the given name ("" / "nil" = no cipher).
func ByName(name string) *Suite {
	if name == "" || name == "nil" {
		return &Suite{Name: "nil", Kind: "nil"}
	}
	for _, s := range Suites() {
		if s.Name == name {
			s := s
			return &s
		}
	}
	panic("unknown cipher " + name)
}
