// Package cryptdrv binds Cfb.tla to crypt.go (C08): for every cipher and EVERY packet length 0..1500 (each length is an
// instance of one length class of the model: groups of 8 blocks, 0..7 left-over blocks, tail or not) the real
// Encrypt/Decrypt run in place and into a separate buffer and are compared with the reference evaluation of the
// specification's textbook recurrence (Go's crypto/cipher CFB with the documented IV; refcrypt for the others).
package cryptdrv

import (
	"bytes"
	"crypto/cipher"
	"fmt"
	"math/rand"
	"path/filepath"
	"sync"
	"testing"
	"time"

	"verifharness/refcrypt"
	"verifharness/vh"
)

type summary struct {
	Lines, Traces int
	Kinds         map[string]int
	Classes       int
	Cases         int
}

func safely(f func()) (panicked bool) {
	defer func() {
		if recover() != nil {
			panicked = true
		}
	}()
	f()
	return
}

func TestCryptAll(t *testing.T) {
	out := vh.OutDir(t)
	rng := rand.New(rand.NewSource(vh.Seed()*613 + 1))
	keys := vh.EnvInt("CRYPT_KEYS", 2)
	tf, err := vh.OpenTraceFile(filepath.Join(out, "crypt.ndjson"))
	vh.Must(err)
	sum := &summary{Kinds: map[string]int{}}
	classes := map[string]bool{}
	for _, su := range refcrypt.Suites() {
		tr := &vh.Trace{}
		if su.Kind == "aead" {
			aeadCases(tr, su, rng, sum)
			tf.WriteTrace(map[string]any{"cipher": su.Name, "kind": su.Kind}, tr)
			continue
		}
		for k := 0; k < keys; k++ {
			key := make([]byte, su.KeyLen)
			rng.Read(key)
			bc, err := su.New(key)
			vh.Must(err)
			for n := 0; n <= 1500; n++ {
				src := make([]byte, n)
				rng.Read(src)
				ref := make([]byte, n)
				su.RefEnc(key, ref, src)
				// encrypt into a separate buffer (pre-filled with junk) and in place
				sep := make([]byte, n)
				rng.Read(sep)
				srcCopy := append([]byte(nil), src...)
				// a BlockCrypt that has panicked is not used again (it may have died holding its own lock): a fresh one takes over
				fresh := func(p bool) bool {
					if p {
						bc, err = su.New(key)
						vh.Must(err)
					}
					return p
				}
				p1 := fresh(safely(func() { bc.Encrypt(sep, src) }))
				inpl := append([]byte(nil), src...)
				p2 := fresh(safely(func() { bc.Encrypt(inpl, inpl) }))
				// decrypt the reference ciphertext: separate and in place
				dsep := make([]byte, n)
				rng.Read(dsep)
				refCopy := append([]byte(nil), ref...)
				p3 := fresh(safely(func() { bc.Decrypt(dsep, ref) }))
				dinpl := append([]byte(nil), ref...)
				p4 := fresh(safely(func() { bc.Decrypt(dinpl, dinpl) }))
				ev := map[string]any{"ev": "len", "cipher": su.Name, "kind": su.Kind, "len": n,
					"enc_sep": bytes.Equal(sep, ref), "enc_inplace": bytes.Equal(inpl, ref),
					"dec_sep": bytes.Equal(dsep, src), "dec_inplace": bytes.Equal(dinpl, src),
					"src_intact": bytes.Equal(src, srcCopy) && bytes.Equal(ref, refCopy), "panic": p1 || p2 || p3 || p4,
					"groups": 0, "left": 0, "tail": 0}
				if su.BlockSz > 0 {
					blocks := n / su.BlockSz
					ev["groups"], ev["left"], ev["tail"] = blocks/8, blocks%8, n%su.BlockSz
					classes[fmt.Sprintf("%d/%d/%d/%v", su.BlockSz, blocks/8, blocks%8, n%su.BlockSz != 0)] = true
				}
				tr.Add(ev)
				sum.Cases += 4
			}
		}
		// concurrent callers on one BlockCrypt: every result must equal the sequential one
		key := make([]byte, su.KeyLen)
		rng.Read(key)
		bc, _ := su.New(key)
		var wg sync.WaitGroup
		var mu sync.Mutex
		mism := 0
		for g := 0; g < 8; g++ {
			wg.Add(1)
			go func(seed int64) {
				defer wg.Done()
				r := rand.New(rand.NewSource(seed))
				for i := 0; i < vh.EnvInt("CRYPT_CONC", 300); i++ {
					n := r.Intn(1501)
					src := make([]byte, n)
					r.Read(src)
					ref := make([]byte, n)
					su.RefEnc(key, ref, src)
					got := make([]byte, n)
					if g := i % 2; g == 0 {
						if safely(func() { bc.Encrypt(got, src) }) {
							mu.Lock()
							mism += 1000 // a panic; the object may be dead: this caller stops
							mu.Unlock()
							return
						}
						if !bytes.Equal(got, ref) {
							mu.Lock()
							mism++
							mu.Unlock()
						}
					} else {
						if safely(func() { bc.Decrypt(got, ref) }) {
							mu.Lock()
							mism += 1000
							mu.Unlock()
							return
						}
						if !bytes.Equal(got, src) {
							mu.Lock()
							mism++
							mu.Unlock()
						}
					}
				}
			}(rng.Int63())
		}
		// (a call that panicked may have left the object's own lock held: the other callers then wait for ever -- do not wait with them)
		waited := make(chan struct{})
		go func() { wg.Wait(); close(waited) }()
		select {
		case <-waited:
		case <-time.After(60 * time.Second):
			mu.Lock()
			mism += 1000000
			mu.Unlock()
		}
		mu.Lock()
		mismNow := mism
		mu.Unlock()
		tr.Add(map[string]any{"ev": "conc", "cipher": su.Name, "mismatches": mismNow})
		sum.Kinds["conc-"+su.Name] = mismNow
		tf.WriteTrace(map[string]any{"cipher": su.Name, "kind": su.Kind}, tr)
	}
	vh.Must(tf.Close())
	sum.Lines, sum.Traces, sum.Classes = tf.L, tf.N, len(classes)
	vh.WriteJSON(filepath.Join(out, "crypt.json"), sum)
}

type sealer interface {
	Seal(dst, nonce, plaintext, additionalData []byte) []byte
	Open(dst, nonce, ciphertext, additionalData []byte) ([]byte, error)
	NonceSize() int
	Overhead() int
}

// AEAD sealing and opening round-trip inside the packet buffer without reallocating it, and refuse when the tag does not fit.
func aeadCases(tr *vh.Trace, su refcrypt.Suite, rng *rand.Rand, sum *summary) {
	key := make([]byte, su.KeyLen)
	rng.Read(key)
	bc, err := su.New(key)
	vh.Must(err)
	a := bc.(sealer)
	ref, _ := su.AEAD(key)
	var _ cipher.AEAD = ref
	ns, ov := a.NonceSize(), a.Overhead()
	for n := 0; n+ns+ov <= 1500; n++ {
		buf := make([]byte, ns+n, 1500) // like postProcess: nonce then plaintext inside a 1500-byte pool buffer
		rng.Read(buf)
		plain := append([]byte(nil), buf[ns:]...)
		var sealed []byte
		p := safely(func() { sealed = a.Seal(buf[:ns], buf[:ns], buf[ns:], nil) })
		same := !p && len(sealed) == ns+n+ov && &sealed[0] == &buf[0] && cap(sealed) == cap(buf)
		refOpen, rerr := ref.Open(nil, sealed[:ns], sealed[ns:], nil)
		interop := !p && rerr == nil && bytes.Equal(refOpen, plain)
		var opened []byte
		var oerr error
		p2 := p || safely(func() { opened, oerr = a.Open(sealed[ns:ns], sealed[:ns], sealed[ns:], nil) })
		rt := !p2 && oerr == nil && bytes.Equal(opened, plain) && (n == 0 || &opened[0] == &buf[ns])
		tr.Add(map[string]any{"ev": "aead", "cipher": su.Name, "len": n, "same_backing": same, "interop": interop, "roundtrip": rt, "panic": false})
		sum.Cases += 2
	}
	// no room for the tag: Seal must refuse (panic) instead of silently reallocating
	tight := make([]byte, ns+100, ns+100+ov-1)
	refused := safely(func() { a.Seal(tight[:ns], tight[:ns], tight[ns:], nil) })
	tr.Add(map[string]any{"ev": "aead-noroom", "cipher": su.Name, "refused": refused})
}
