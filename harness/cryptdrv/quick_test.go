package cryptdrv

import (
	"bytes"
	"math/rand"
	"testing"

	"verifharness/refcrypt"
)

func TestQuickRef(t *testing.T) {
	rng := rand.New(rand.NewSource(1))
	for _, su := range refcrypt.Suites() {
		if su.Kind == "aead" {
			continue
		}
		key := make([]byte, su.KeyLen)
		rng.Read(key)
		bc, err := su.New(key)
		if err != nil {
			t.Fatal(su.Name, err)
		}
		bad := 0
		for n := 0; n <= 1500; n++ {
			src := make([]byte, n)
			rng.Read(src)
			a := make([]byte, n)
			b := make([]byte, n)
			bc.Encrypt(a, src)
			su.RefEnc(key, b, src)
			if !bytes.Equal(a, b) {
				bad++
				if bad < 3 {
					t.Logf("%s len %d enc mismatch", su.Name, n)
				}
			}
			c := make([]byte, n)
			su.RefDec(key, c, a)
			if !bytes.Equal(c, src) {
				bad++
				if bad < 3 {
					t.Logf("%s len %d refdec mismatch", su.Name, n)
				}
			}
		}
		t.Logf("%s bad=%d", su.Name, bad)
	}
}
