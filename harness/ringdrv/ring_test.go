// Package ringdrv binds RingBuffer.tla to ringbuffer.go (C20): it replays
// TLC-generated paths (model -> code, projection compared after every step)
// and records traces of replayed and of long random operation sequences for
// validation by RingObs.tla / RingBufferTrace.tla (code -> model).
package ringdrv

import (
	"fmt"
	"math/rand"
	"path/filepath"
	"reflect"
	"testing"

	kcp "github.com/xtaci/kcp-go/v5"

	"verifharness/vh"
)

const mutDelta = 1000000

type ring interface {
	Push(v int)
	Pop() (int, bool)
	Peek() (int, bool)
	Discard(n int) int
	Clear()
	ForEach(stop int, mut bool, d int) []int
	ForEachReverse(stop int, mut bool, d int) []int
	Len() int
	IsEmpty() bool
	IsFull() bool
	MaxLen() int
	Layout() (int, int, int)
	Slots() []int
}

type intRing struct{ r *kcp.RingBuffer[int] }

func (x intRing) Push(v int)         { x.r.Push(v) }
func (x intRing) Pop() (int, bool)   { return x.r.Pop() }
func (x intRing) Peek() (int, bool) {
	p, ok := x.r.Peek()
	if !ok {
		if p != nil {
			return -1, false
		}
		return 0, false
	}
	return *p, true
}
func (x intRing) Discard(n int) int { return x.r.Discard(n) }
func (x intRing) Clear()            { x.r.Clear() }
func (x intRing) ForEach(stop int, mut bool, d int) (vis []int) {
	n := 0
	x.r.ForEach(func(p *int) bool {
		n++
		vis = append(vis, *p)
		if mut {
			*p += d
		}
		return n != stop
	})
	return
}
func (x intRing) ForEachReverse(stop int, mut bool, d int) (vis []int) {
	n := 0
	x.r.ForEachReverse(func(p *int) bool {
		n++
		vis = append(vis, *p)
		if mut {
			*p += d
		}
		return n != stop
	})
	return
}
func (x intRing) Len() int                { return x.r.Len() }
func (x intRing) IsEmpty() bool           { return x.r.IsEmpty() }
func (x intRing) IsFull() bool            { return x.r.IsFull() }
func (x intRing) MaxLen() int             { return x.r.MaxLen() }
func (x intRing) Layout() (int, int, int) { return x.r.VerifLayout() }
func (x intRing) Slots() []int            { return x.r.VerifSlots() }

// ptrRing stores *int so that retention of popped / discarded elements is observable (nil = zero value).
type ptrRing struct{ r *kcp.RingBuffer[*int] }

func box(v int) *int { return &v }
func unbox(p *int) int {
	if p == nil {
		return 0
	}
	return *p
}
func (x ptrRing) Push(v int) { x.r.Push(box(v)) }
func (x ptrRing) Pop() (int, bool) {
	p, ok := x.r.Pop()
	return unbox(p), ok
}
func (x ptrRing) Peek() (int, bool) {
	p, ok := x.r.Peek()
	if !ok {
		return 0, false
	}
	return unbox(*p), true
}
func (x ptrRing) Discard(n int) int { return x.r.Discard(n) }
func (x ptrRing) Clear()            { x.r.Clear() }
func (x ptrRing) ForEach(stop int, mut bool, d int) (vis []int) {
	n := 0
	x.r.ForEach(func(p **int) bool {
		n++
		vis = append(vis, unbox(*p))
		if mut {
			*p = box(unbox(*p) + d)
		}
		return n != stop
	})
	return
}
func (x ptrRing) ForEachReverse(stop int, mut bool, d int) (vis []int) {
	n := 0
	x.r.ForEachReverse(func(p **int) bool {
		n++
		vis = append(vis, unbox(*p))
		if mut {
			*p = box(unbox(*p) + d)
		}
		return n != stop
	})
	return
}
func (x ptrRing) Len() int                { return x.r.Len() }
func (x ptrRing) IsEmpty() bool           { return x.r.IsEmpty() }
func (x ptrRing) IsFull() bool            { return x.r.IsFull() }
func (x ptrRing) MaxLen() int             { return x.r.MaxLen() }
func (x ptrRing) Layout() (int, int, int) { return x.r.VerifLayout() }
func (x ptrRing) Slots() []int {
	s := x.r.VerifSlots()
	out := make([]int, len(s))
	for i, p := range s {
		out[i] = unbox(p)
	}
	return out
}

func newAt(kind string, slots, head int) ring {
	if kind == "ptr" {
		return ptrRing{kcp.VerifNewRingBufferAt[*int](slots, head)}
	}
	return intRing{kcp.VerifNewRingBufferAt[int](slots, head)}
}

func newSized(kind string, size int) ring {
	if kind == "ptr" {
		return ptrRing{kcp.NewRingBuffer[*int](size)}
	}
	return intRing{kcp.NewRingBuffer[int](size)}
}

type retT struct {
	V   int   `json:"v"`
	Ok  bool  `json:"ok"`
	Vis []int `json:"vis"`
}

type actT struct {
	Op string `json:"op"`
	A  int    `json:"a"`
	B  int    `json:"b"`
}

// apply executes one operation and returns the observation event; a panic inside the ring
// becomes an event with panic=true (the caller abandons that ring).
func apply(r ring, a actT, logSlots bool) (ev map[string]any) {
	defer func() {
		if p := recover(); p != nil {
			ev = map[string]any{"ev": "op", "op": a.Op, "a": a.A, "b": a.B, "ret": retT{Vis: []int{}}, "len": -1,
				"head": -1, "tail": -1, "cap": -1, "dead": 0, "empty": false, "full": false, "maxlen": -1,
				"slots": []int{}, "panic": true, "panicmsg": fmt.Sprint(p)}
		}
	}()
	return apply1(r, a, logSlots)
}

func apply1(r ring, a actT, logSlots bool) map[string]any {
	ret := retT{Vis: []int{}}
	switch a.Op {
	case "Push":
		r.Push(a.A)
	case "Pop":
		v, ok := r.Pop()
		if ok {
			ret.V, ret.Ok = v, true
		} else if v != 0 {
			ret.V = v // a non-zero value with ok=false is visible as a mismatch
		}
	case "Peek":
		v, ok := r.Peek()
		if ok {
			ret.V, ret.Ok = v, true
		} else if v != 0 {
			ret.V = v
		}
	case "Clear":
		r.Clear()
	case "Discard":
		ret.V, ret.Ok = r.Discard(a.A), true
	case "ForEach":
		vis := r.ForEach(a.A, a.B == 1, mutDelta)
		ret.V, ret.Ok = len(vis), true
		ret.Vis = append(ret.Vis, vis...)
	case "ForEachReverse":
		vis := r.ForEachReverse(a.A, a.B == 1, mutDelta)
		ret.V, ret.Ok = len(vis), true
		ret.Vis = append(ret.Vis, vis...)
	default:
		panic("unknown op " + a.Op)
	}
	h, t, c := r.Layout()
	slots := r.Slots()
	dead := 0
	for i, v := range slots {
		live := false
		if h <= t {
			live = h <= i && i < t
		} else {
			live = i >= h || i < t
		}
		if !live && v != 0 {
			dead++
		}
	}
	ev := map[string]any{"ev": "op", "op": a.Op, "a": a.A, "b": a.B, "ret": ret, "len": r.Len(),
		"head": h, "tail": t, "cap": c, "dead": dead, "empty": r.IsEmpty(), "full": r.IsFull(), "maxlen": r.MaxLen(), "panic": false}
	if logSlots {
		ev["slots"] = slots
	} else {
		ev["slots"] = []int{}
	}
	return ev
}

type node struct {
	S struct {
		Head  int   `json:"head"`
		Tail  int   `json:"tail"`
		Slots []int `json:"slots"`
		Len   int   `json:"len"`
		Ret   retT  `json:"ret"`
	} `json:"s"`
	A actT `json:"a"`
}

type summary struct {
	Paths, Steps, Traces, Lines int
	Drift                       []string
	Ops                         map[string]int
	MaxCap                      int
	Growths                     map[string]int
}

// scale maps the model's mutation delta (and values) onto the harness' delta.
func scaleVal(v, modelMut int) int {
	if modelMut > 0 && v >= modelMut {
		return v - modelMut + mutDelta
	}
	return v
}

func TestRingReplay(t *testing.T) {
	in := vh.EnvStr("VERIF_IN", "")
	if in == "" {
		t.Skip("VERIF_IN not set")
	}
	out := vh.OutDir(t)
	var paths [][]node
	vh.Must(vh.ReadJSON(filepath.Join(in, "ring_paths.json"), &paths))
	modelMut := vh.EnvInt("RING_MODEL_MUT", 100)
	tf, err := vh.OpenTraceFile(filepath.Join(out, "ring_replay.ndjson"))
	vh.Must(err)
	sum := summary{Ops: map[string]int{}, Growths: map[string]int{}}
	for pi, p := range paths {
		for _, kind := range []string{"int", "ptr"} {
			init := p[0]
			r := newAt(kind, len(init.S.Slots), init.S.Head)
			tr := &vh.Trace{}
			drifted := false
			for si, n := range p[1:] {
				_, _, c0 := r.Layout()
				ev := apply(r, n.A, true)
				tr.Add(ev)
				sum.Steps++
				if ev["panic"] == true {
					break
				}
				sum.Ops[n.A.Op]++
				h, tl, c := r.Layout()
				if c != c0 {
					sum.Growths[fmt.Sprintf("%d->%d", c0, c)]++
				}
				// expected projection from the model (values scaled)
				exp := make([]int, len(n.S.Slots))
				for i, v := range n.S.Slots {
					exp[i] = scaleVal(v, modelMut)
				}
				expVis := make([]int, 0, len(n.S.Ret.Vis))
				for _, v := range n.S.Ret.Vis {
					expVis = append(expVis, scaleVal(v, modelMut))
				}
				got := ev["ret"].(retT)
				expV := n.S.Ret.V
				if n.A.Op == "Pop" || n.A.Op == "Peek" {
					expV = scaleVal(expV, modelMut)
				}
				if drifted {
					continue
				}
				if h != n.S.Head || tl != n.S.Tail || c != len(n.S.Slots) || r.Len() != n.S.Len ||
					!reflect.DeepEqual(r.Slots(), exp) || got.V != expV || got.Ok != n.S.Ret.Ok || !reflect.DeepEqual(got.Vis, expVis) {
					if len(sum.Drift) < 50 {
						sum.Drift = append(sum.Drift, fmt.Sprintf("path=%d kind=%s step=%d op=%+v expected head=%d tail=%d slots=%v len=%d ret=%+v; got head=%d tail=%d slots=%v len=%d ret=%+v",
							pi, kind, si+1, n.A, n.S.Head, n.S.Tail, exp, n.S.Len, n.S.Ret, h, tl, r.Slots(), r.Len(), got))
					}
					drifted = true // keep driving the real ring with the rest of the schedule: RingObs still judges it
				}
			}
			tf.WriteTrace(map[string]any{"slots": len(init.S.Slots), "head": init.S.Head, "kind": kind, "src": fmt.Sprintf("path%d", pi)}, tr)
		}
		sum.Paths++
	}
	vh.Must(tf.Close())
	sum.Traces, sum.Lines = tf.N, tf.L
	vh.WriteJSON(filepath.Join(out, "ring_replay.json"), sum)
}

// TestRingDrive records long seeded random operation sequences on rings built with
// NewRingBuffer (real constants), growing through 8 -> doubling -> +10%.
func TestRingDrive(t *testing.T) {
	out := vh.OutDir(t)
	rng := rand.New(rand.NewSource(vh.Seed()*7919 + 17))
	runs := vh.EnvInt("RING_RUNS", 12)
	steps := vh.EnvInt("RING_STEPS", 2500)
	tf, err := vh.OpenTraceFile(filepath.Join(out, "ring_drive.ndjson"))
	vh.Must(err)
	sum := summary{Ops: map[string]int{}, Growths: map[string]int{}}
	sizes := []int{0, 1, 7, 8, 9, 16, 33, 100, 512, 1000, 1023, 1024, 1025}
	for run := 0; run < runs; run++ {
		kind := []string{"int", "ptr"}[run%2]
		size := sizes[rng.Intn(len(sizes))]
		r := newSized(kind, size)
		h0, _, c0 := r.Layout()
		tr := &vh.Trace{}
		next := 1
		// phases bias towards growth, drain, or churn so that wrapped layouts and all growth regimes occur
		phase := 0
		big := run%3 == 0 // every third run is pushed beyond 1024 slots
		for s := 0; s < steps; s++ {
			if s%97 == 0 {
				phase = rng.Intn(3)
			}
			var a actT
			x := rng.Intn(100)
			pushBias := []int{70, 35, 50}[phase]
			if big && r.Len() < 1200 && s < steps/2 {
				pushBias = 92
			}
			n := r.Len()
			switch {
			case x < pushBias:
				a = actT{"Push", next, 0}
				next++
			case x < pushBias+12:
				a = actT{Op: "Pop"}
			case x < pushBias+16:
				a = actT{Op: "Peek"}
			case x < pushBias+22:
				cands := []int{0, 1, 2, n - 1, n, n + 1, rng.Intn(n + 2)}
				d := cands[rng.Intn(len(cands))]
				if d < 0 {
					d = 0
				}
				a = actT{"Discard", d, 0}
			case x < pushBias+23 && !big:
				a = actT{Op: "Clear"}
			default:
				stop := []int{1, 2, n, n + 1, 1 + rng.Intn(n+1)}[rng.Intn(5)]
				if stop < 1 {
					stop = 1
				}
				op := "ForEach"
				if rng.Intn(2) == 0 {
					op = "ForEachReverse"
				}
				mut := 0
				if rng.Intn(3) == 0 && n <= 64 {
					// mutate only elements that were not mutated before (the spec's guard)
					ok := true
					var vis []int
					if op == "ForEach" {
						vis = r.ForEach(stop, false, 0)
					} else {
						vis = r.ForEachReverse(stop, false, 0)
					}
					for _, v := range vis {
						if v >= mutDelta {
							ok = false
						}
					}
					if ok {
						mut = 1
					}
				}
				if n > 64 && stop > 8 {
					stop = 1 + rng.Intn(8) // keep logged visit lists short on big rings
				}
				a = actT{op, stop, mut}
			}
			_, _, cb := r.Layout()
			ev := apply(r, a, cb <= 40 || s%211 == 0)
			_, _, ca := r.Layout()
			if ca != cb {
				sum.Growths[fmt.Sprintf("%d->%d", cb, ca)]++
			}
			if ca > sum.MaxCap {
				sum.MaxCap = ca
			}
			tr.Add(ev)
			sum.Steps++
			sum.Ops[a.Op]++
			if ev["panic"] == true {
				break
			}
		}
		tf.WriteTrace(map[string]any{"slots": c0, "head": h0, "kind": kind, "src": fmt.Sprintf("drive%d size=%d", run, size)}, tr)
	}
	vh.Must(tf.Close())
	sum.Traces, sum.Lines = tf.N, tf.L
	vh.WriteJSON(filepath.Join(out, "ring_drive.json"), sum)
}

// TestRingOps re-executes one recorded operation sequence (the replay file of a violation).
func TestRingOps(t *testing.T) {
	in := vh.EnvStr("VERIF_IN", "")
	if in == "" {
		t.Skip("VERIF_IN not set")
	}
	out := vh.OutDir(t)
	var rp struct {
		Init struct {
			Slots int    `json:"slots"`
			Head  int    `json:"head"`
			Kind  string `json:"kind"`
		} `json:"init"`
		Ops []actT `json:"ops"`
	}
	vh.Must(vh.ReadJSON(filepath.Join(in, "ring_ops.json"), &rp))
	tf, err := vh.OpenTraceFile(filepath.Join(out, "ring_ops.ndjson"))
	vh.Must(err)
	r := newAt(rp.Init.Kind, rp.Init.Slots, rp.Init.Head)
	tr := &vh.Trace{}
	for _, a := range rp.Ops {
		ev := apply(r, a, true)
		tr.Add(ev)
		if ev["panic"] == true {
			break
		}
	}
	tf.WriteTrace(map[string]any{"slots": rp.Init.Slots, "head": rp.Init.Head, "kind": rp.Init.Kind, "src": "replay"}, tr)
	vh.Must(tf.Close())
}
