// Package waitdrv binds SessionWait.tla to the blocking calls of real sessions and listeners (C13): scripts generated
// by TLC (calls started, messages arriving, deadline changes, Close, socket error, time passing) are executed in
// virtual time on real UDPSessions; what every call returned and when is recorded and validated by TLC against the
// model (WaitTrace) and judged by the API-level monitors (WaitObs).
package waitdrv

import (
	"bufio"
	"encoding/json"
	"errors"
	"fmt"
	"io"
	"net"
	"os"
	"path/filepath"
	"sync/atomic"
	"testing"
	"testing/synctest"
	"time"

	kcp "github.com/xtaci/kcp-go/v5"

	"verifharness/simnet"
	"verifharness/vh"
)

const unit = 1000 * time.Millisecond

type wstep struct {
	Ev string `json:"ev"`
	X  string `json:"x"`
	V  int    `json:"v"`
	// start only: the caller is held at a point INSIDE its call -- G=1: the deadline has been loaded, the locked check has not been
	// made yet; G=2: the check found nothing, the caller is about to park -- while the steps In (setdl / arrive / close / sockerr,
	// no time passes) are executed, then released. These are the interleavings of SessionWait.tla between its labels that a script
	// executed only while callers are parked cannot reach.
	G  int     `json:"g"`
	In []wstep `json:"in"`
}

type gateT struct {
	side, phase   int64
	hit, release  chan struct{}
}
type wscript struct {
	Callers int     `json:"callers"`
	Steps   []wstep `json:"steps"`
	Src     string  `json:"src"`
	Side    string  `json:"side"` // optional: fixed side / mode / error kind instead of the rotation
	Mode    string  `json:"mode"`
	ErrBy   string  `json:"errby"`
}

type result struct {
	x    string
	kind string
	t    int
}

func kindOf(err error) string {
	if err == nil {
		return "ok"
	}
	var ne net.Error
	if errors.As(err, &ne) && ne.Timeout() {
		return "timeout"
	}
	if errors.Is(err, io.ErrClosedPipe) {
		return "closed"
	}
	type causer interface{ Cause() error }
	for e := err; e != nil; {
		if e == io.ErrClosedPipe {
			return "closed"
		}
		if t, ok := e.(interface{ Timeout() bool }); ok && t.Timeout() {
			return "timeout"
		}
		c, ok := e.(causer)
		if !ok {
			break
		}
		e = c.Cause()
	}
	return "error"
}

type summary struct {
	Scripts, Steps, Traces, Lines int
	Kinds                         map[string]int
	Nontrivial                    int
}

func readScripts(path string) ([]wscript, error) {
	f, err := os.Open(path)
	if err != nil {
		return nil, err
	}
	defer f.Close()
	var out []wscript
	sc := bufio.NewScanner(f)
	sc.Buffer(make([]byte, 1<<20), 1<<26)
	for sc.Scan() {
		var s wscript
		if err := json.Unmarshal(sc.Bytes(), &s); err != nil {
			return nil, err
		}
		out = append(out, s)
	}
	return out, sc.Err()
}

// runScript executes one script. side = "client": the waiting session is the dialled one; "server": the accepted one.
// mode = "read": the callers are blocked in Read and a unit of the resource is a message from the peer; "write": the callers are
// blocked in Write behind a full send window (the network is cut, nothing is ever acknowledged) and a unit of the resource is one
// more slot of send window. errBy = "fail": the socket error of the script is a failing transport; "lclose": the listener, which
// owns its transport as the ones made by ListenWithOptions do, is closed by the application (server side only).
func runScript(t *testing.T, s wscript, side, mode, errBy string, sum *summary, tf *vh.TraceFile, label string) {
	vh.Bubble(t, 12345, 2, func(e *vh.Env) {
		tr := &vh.Trace{}
		lc, _ := e.Hub.Listen("10.0.0.1:1000")
		cc, _ := e.Hub.Listen("10.0.0.2:2000")
		fd, fp := 0, 0
		if mode == "write" {
			fd, fp = 1, 1 // FEC on: an out-of-band message is the harness' way to make the session use its socket at once
		}
		var l *kcp.Listener
		var err error
		if errBy == "lclose" {
			l, err = kcp.VerifServeConnOwned(nil, fd, fp, lc)
		} else {
			l, err = kcp.ServeConn(nil, fd, fp, lc)
		}
		vh.Must(err)
		cli, err := kcp.NewConn3(5, lc.LocalAddr(), nil, fd, fp, cc)
		vh.Must(err)
		cli.Write([]byte("hello")) // creates the server-side session
		srv, err := l.AcceptKCP()
		vh.Must(err)
		buf := make([]byte, 100)
		srv.Read(buf)
		R, P := cli, srv
		rconn := cc
		if side == "server" {
			R, P = srv, cli
			rconn = lc
		}
		P.SetNoDelay(1, 10, 2, 1) // no congestion window at the peer: messages written at one instant arrive at that instant
		synctest.Wait()
		wnd := 1
		if mode == "write" {
			time.Sleep(2 * time.Second) // everything sent so far is acknowledged
			synctest.Wait()
			e.Hub.SetPolicy(func(d *simnet.Dgram) simnet.Fate { return simnet.Fate{} }) // the network is cut
			R.SetWindowSize(wnd, 32)
			R.Write([]byte{0}) // fills the window: one segment, never acknowledged
			synctest.Wait()
		}
		// the socket is used at once (an error on it is only noticed when something is sent)
		poke := func() {
			if mode == "write" {
				R.SendOOB([]byte{1})
			}
		}
		start := time.Now()
		nowU := func() int { return int(time.Since(start) / unit) }
		results := make(chan result, 16)
		startedAt := map[string]int{}
		inflight := 0
		overlap := false
		dl, dlat := 0, 0
		closed, serr := false, false
		harvest := func() {
			synctest.Wait()
			for {
				select {
				case r := <-results:
					inflight--
					tr.Add(map[string]any{"ev": "ret", "x": r.x, "res": r.kind, "t": r.t, "dl": dl, "dlat": dlat, "overlap": overlap, "since": r.t, "st": startedAt[r.x]})
					sum.Kinds["ret-"+r.kind]++
				default:
					return
				}
			}
		}
		// units of the resource that a blocked caller could take right now
		availNow := func() int {
			st := R.VerifKCPState()
			if mode == "write" {
				if a := int(st.SndWnd) - len(st.SndBuf) - len(st.SndQueue); a > 0 {
					return a
				}
				return 0
			}
			return len(st.RcvQueue)
		}
		started := map[string]bool{}
		var gate atomic.Pointer[gateT]
		kcp.VerifSetSink(func(ev kcp.VerifEvent) {
			g := gate.Load()
			if g == nil || ev.Kind != "s.wait" || ev.Ref != any(R) || ev.A != g.side || ev.B != g.phase {
				return
			}
			if !gate.CompareAndSwap(g, nil) {
				return
			}
			g.hit <- struct{}{} // (the hook points lie outside the session lock)
			<-g.release
		})
		defer kcp.VerifSetSink(nil)
		var apply func(st wstep)
		apply = func(st wstep) {
			sum.Steps++
			switch st.Ev {
			case "start":
				x := st.X
				started[x] = true
				startedAt[x] = nowU()
				inflight++
				if inflight >= 2 {
					overlap = true
				}
				tr.Add(map[string]any{"ev": "start", "x": x, "g": st.G})
				var g *gateT
				if st.G > 0 {
					g = &gateT{side: map[string]int64{"read": 0, "write": 1}[mode], phase: int64(st.G), hit: make(chan struct{}, 1), release: make(chan struct{})}
					gate.Store(g)
				}
				done := make(chan struct{})
				go func() {
					var err error
					if mode == "write" {
						_, err = R.Write([]byte{2})
					} else {
						b := make([]byte, 4096)
						_, err = R.Read(b)
					}
					results <- result{x, kindOf(err), nowU()}
					close(done)
				}()
				if g != nil {
					select {
					case <-g.hit:
						sum.Kinds[fmt.Sprintf("gate%d", st.G)]++
						for _, in := range st.In {
							if in.Ev == "setdl" || in.Ev == "arrive" || in.Ev == "close" || in.Ev == "sockerr" {
								apply(in)
								synctest.Wait() // everything the event sets off has happened (the held caller is blocked on the gate)
							}
						}
						close(g.release)
					case <-done:
						gate.Store(nil) // the call returned without passing the point
						close(g.release) // (whoever took the gate at this very moment is not held)
						sum.Kinds["gate-not-reached"]++
					}
				}
			case "arrive":
				tr.Add(map[string]any{"ev": "arrive"})
				if mode == "write" {
					wnd++
					R.SetWindowSize(wnd, 32) // one more slot; update() tells the blocked writers within one interval
				} else {
					P.Write([]byte("one message"))
				}
			case "setdl":
				tr.Add(map[string]any{"ev": "setdl", "v": st.V})
				setdl := R.SetReadDeadline
				if mode == "write" {
					setdl = R.SetWriteDeadline
				}
				if st.V == 0 {
					setdl(time.Time{})
				} else {
					setdl(start.Add(time.Duration(st.V) * unit))
				}
				dl, dlat = st.V, nowU()
			case "close":
				tr.Add(map[string]any{"ev": "close"})
				R.Close()
				closed = true
			case "sockerr":
				tr.Add(map[string]any{"ev": "sockerr"})
				switch {
				case errBy == "lclose":
					l.Close() // closes the transport it owns: the listener's receive loop fails and tells every session
				case mode == "write":
					rconn.FailWrites(errors.New("simulated socket error"))
				default:
					rconn.FailReads(errors.New("simulated socket error"))
				}
				poke()
				serr = true
			case "tick":
				// half a unit into the tick everything that reacts to the events of this instant has reacted (the periodic update()
				// tells blocked writers about an opened window within one flush interval): whoever is still blocked now is judged
				time.Sleep(unit / 2)
				harvest()
				tr.Add(map[string]any{"ev": "tick", "now": nowU(), "blocked": inflight, "avail": availNow(), "dl": dl, "closed": closed, "serr": serr, "overlap": overlap})
				time.Sleep(unit - unit/2)
			}
		}
		for _, st := range s.Steps {
			apply(st)
			harvest()
		}
		// calls still blocked at the end of the script (write side: the periodic update() has told the writers about a window
		// that opened at this instant before half a time unit has passed)
		if mode == "write" {
			time.Sleep(unit / 2)
		}
		harvest()
		avail := availNow()
		for x := range started {
			_ = x
		}
		if inflight > 0 {
			// which callers are still blocked: those started without a ret line
			rets := map[string]bool{}
			for _, ev := range tr.Evts {
				if ev["ev"] == "ret" {
					rets[ev["x"].(string)] = true
				}
			}
			for x := range started {
				if !rets[x] {
					tr.Add(map[string]any{"ev": "blocked", "x": x, "now": nowU(), "dl": dl, "avail": avail, "closed": closed, "serr": serr, "overlap": overlap})
					sum.Kinds["blocked-at-end"]++
				}
			}
		}
		// release everything (sessions that the listener created meanwhile and never handed out are collected first:
		// see the known finding C15/NoLeak_BacklogSession)
		R.Close()
		P.Close()
		lc.Close()
		cc.Close()
		synctest.Wait()
		for i := 0; i < 5000 && l.VerifAcceptLen() > 0; i++ {
			if s, err := l.AcceptKCP(); err == nil && s != nil {
				s.Close()
			}
		}
		l.Close()
		synctest.Wait()
		for inflight > 0 {
			<-results
			inflight--
		}
		tf.WriteTrace(map[string]any{"src": label, "side": side, "mode": mode, "errby": errBy, "callers": s.Callers}, tr)
		sum.Kinds[mode+"-"+side+"-"+errBy]++
		sum.Scripts++
		sum.Nontrivial++
	})
}

func TestWaitScripts(t *testing.T) {
	in := vh.EnvStr("VERIF_IN", "")
	if in == "" {
		t.Skip("VERIF_IN not set")
	}
	out := vh.OutDir(t)
	scripts, err := readScripts(filepath.Join(in, "wait_scripts.ndjson"))
	vh.Must(err)
	tf, err := vh.OpenTraceFile(filepath.Join(out, "wait_scripts.ndjson"))
	vh.Must(err)
	sum := &summary{Kinds: map[string]int{}}
	for i, s := range scripts {
		// every script runs on one of: {dialled, accepted} x {blocked in Read, blocked in Write}; on the accepted side every other
		// script with a socket error realises it as the application closing a listener that owns its transport
		side := []string{"client", "server"}[i%2]
		mode := []string{"read", "write"}[(i/2)%2]
		errBy := "fail"
		if side == "server" && (i/4)%2 == 1 {
			errBy = "lclose"
		}
		if s.Side != "" {
			side = s.Side
		}
		if s.Mode != "" {
			mode = s.Mode
		}
		if s.ErrBy != "" {
			errBy = s.ErrBy
		}
		if side != "server" {
			errBy = "fail"
		}
		runScript(t, s, side, mode, errBy, sum, tf, fmt.Sprintf("%s#%d", s.Src, i))
	}
	vh.Must(tf.Close())
	sum.Traces, sum.Lines = tf.N, tf.L
	vh.WriteJSON(filepath.Join(out, "wait_scripts.json"), sum)
}

// TestWaitApi: the remaining API-level clauses of C13 -- Accept (deadline before the call, new peer, Close, socket error,
// and the known-finding case of a deadline changed while Accept is blocked), and the after-Close semantics.
func TestWaitApi(t *testing.T) {
	out := vh.OutDir(t)
	tf, err := vh.OpenTraceFile(filepath.Join(out, "wait_api.ndjson"))
	vh.Must(err)
	sum := &summary{Kinds: map[string]int{}}
	type acase struct {
		name       string
		deadlineAt int // units; 0 none (set before Accept)
		connectAt  int // units; 0 never
		closeAt    int
		errAt      int
		changeAt   int // set a deadline of changeTo while blocked
		changeTo   int
		expect     string
		expectT    int
	}
	cases := []acase{
		{name: "deadline-before", deadlineAt: 2, expect: "timeout", expectT: 2},
		{name: "deadline-past", deadlineAt: -1, expect: "timeout", expectT: 0},
		{name: "peer-connects", connectAt: 1, expect: "ok", expectT: 1},
		{name: "peer-before-deadline", deadlineAt: 3, connectAt: 1, expect: "ok", expectT: 1},
		{name: "close", closeAt: 1, expect: "closed", expectT: 1},
		{name: "close-before-deadline", deadlineAt: 3, closeAt: 2, expect: "closed", expectT: 2},
		{name: "socket-error", errAt: 1, expect: "error", expectT: 1},
		{name: "deadline-set-while-blocked", changeAt: 1, changeTo: 2, expect: "timeout", expectT: 2},
		{name: "deadline-shortened-while-blocked", deadlineAt: 5, changeAt: 1, changeTo: 2, expect: "timeout", expectT: 2},
	}
	for _, c := range cases {
		vh.Bubble(t, 777, 2, func(e *vh.Env) {
			tr := &vh.Trace{}
			lc, _ := e.Hub.Listen("10.0.0.1:1000")
			cc, _ := e.Hub.Listen("10.0.0.2:2000")
			l, err := kcp.ServeConn(nil, 0, 0, lc)
			vh.Must(err)
			start := time.Now()
			if c.deadlineAt != 0 {
				l.SetDeadline(start.Add(time.Duration(c.deadlineAt) * unit))
			}
			type ares struct {
				kind string
				t    int
			}
			done := make(chan ares, 1)
			var acc *kcp.UDPSession
			go func() {
				s, err := l.AcceptKCP()
				acc = s
				done <- ares{kindOf(err), int(time.Since(start) / unit)}
			}()
			var cli *kcp.UDPSession
			for u := 0; u <= 7; u++ {
				synctest.Wait()
				if c.connectAt == u && u > 0 {
					cli, _ = kcp.NewConn3(9, lc.LocalAddr(), nil, 0, 0, cc)
					cli.Write([]byte("x"))
				}
				if c.closeAt == u && u > 0 {
					l.Close()
				}
				if c.errAt == u && u > 0 {
					lc.FailReads(errors.New("simulated socket error"))
				}
				if c.changeAt == u && u > 0 {
					l.SetDeadline(start.Add(time.Duration(c.changeTo) * unit))
				}
				synctest.Wait()
				time.Sleep(unit)
			}
			synctest.Wait()
			r := ares{"blocked", -1}
			select {
			case r = <-done:
			default:
			}
			tr.Add(map[string]any{"ev": "accept", "case": c.name, "res": r.kind, "t": r.t, "expect": c.expect, "expect_t": c.expectT,
				"changed_while_blocked": c.changeAt > 0})
			sum.Kinds["accept-"+r.kind]++
			if cli != nil {
				cli.Close()
			}
			if acc != nil {
				acc.Close()
			}
			lc.Close()
			cc.Close()
			synctest.Wait()
			l.Close()
			synctest.Wait()
			for i := 0; i < 5000 && l.VerifAcceptLen() > 0; i++ {
				if s, err := l.AcceptKCP(); err == nil && s != nil {
					s.Close()
				}
			}
			if r.kind == "blocked" {
				<-done
			}
			tf.WriteTrace(map[string]any{"src": "accept-" + c.name, "side": "listener", "callers": 1}, tr)
			sum.Scripts++
			sum.Nontrivial++
		})
	}
	// after Close: Write fails, Read first drains what was received and then fails, a second Close reports an error
	vh.Bubble(t, 778, 2, func(e *vh.Env) {
		tr := &vh.Trace{}
		lc, _ := e.Hub.Listen("10.0.0.1:1000")
		cc, _ := e.Hub.Listen("10.0.0.2:2000")
		l, _ := kcp.ServeConn(nil, 0, 0, lc)
		cli, _ := kcp.NewConn3(5, lc.LocalAddr(), nil, 0, 0, cc)
		cli.Write([]byte("m1"))
		srv, _ := l.AcceptKCP()
		cli.Write([]byte("m2"))
		cli.Write([]byte("m3"))
		time.Sleep(500 * time.Millisecond)
		synctest.Wait()
		srv.Close()
		_, werr := srv.Write([]byte("x"))
		b := make([]byte, 100)
		drained := 0
		var rerr error
		for i := 0; i < 5; i++ {
			srv.SetReadDeadline(time.Now().Add(unit))
			n, err := srv.Read(b)
			if err != nil {
				rerr = err
				break
			}
			if n > 0 {
				drained++
			}
		}
		err2 := srv.Close()
		tr.Add(map[string]any{"ev": "afterclose", "write_err": werr != nil, "drained_then_err": drained == 3 && kindOf(rerr) == "closed",
			"close2_err": err2 != nil, "drained": drained, "readerr": kindOf(rerr)})
		cli.Close()
		l.Close()
		lc.Close()
		cc.Close()
		tf.WriteTrace(map[string]any{"src": "afterclose", "side": "server", "callers": 1}, tr)
		sum.Scripts++
	})
	vh.Must(tf.Close())
	sum.Traces, sum.Lines = tf.N, tf.L
	vh.WriteJSON(filepath.Join(out, "wait_api.json"), sum)
	_ = simnet.Deliver
}

// TestAcceptScripts executes TLC-generated scripts of AcceptWait.tla (and enumerated ones) on a real Listener in virtual time:
// goroutines blocked in AcceptKCP, new peers connecting, the listener's deadline being set / changed / cleared, Close, a socket
// read error, time passing. What every Accept returned and when, and who is still blocked at every tick, is recorded for the
// AcceptObs monitors and for validation against the model (AcceptTrace).
func TestAcceptScripts(t *testing.T) {
	in := vh.EnvStr("VERIF_IN", "")
	if in == "" {
		t.Skip("VERIF_IN not set")
	}
	out := vh.OutDir(t)
	scripts, err := readScripts(filepath.Join(in, "accept_scripts.ndjson"))
	vh.Must(err)
	tf, err := vh.OpenTraceFile(filepath.Join(out, "accept_scripts.ndjson"))
	vh.Must(err)
	sum := &summary{Kinds: map[string]int{}}
	for i, s := range scripts {
		vh.Bubble(t, 4711, 2, func(e *vh.Env) {
			tr := &vh.Trace{}
			lc, _ := e.Hub.Listen("10.0.0.1:1000")
			l, err := kcp.ServeConn(nil, 0, 0, lc)
			vh.Must(err)
			start := time.Now()
			nowU := func() int { return int(time.Since(start) / unit) }
			type ares struct {
				x    string
				kind string
				t    int
				s    *kcp.UDPSession
			}
			results := make(chan ares, 16)
			startedAt, dle := map[string]int{}, map[string]int{}
			changed, blockedNow := map[string]bool{}, map[string]bool{}
			var accepted []*kcp.UDPSession
			var clients []*kcp.UDPSession
			var cconns []interface{ Close() error }
			dl, closed, serr, peers := 0, false, false, 0
			harvest := func() {
				synctest.Wait()
				for {
					select {
					case r := <-results:
						delete(blockedNow, r.x)
						if r.s != nil {
							accepted = append(accepted, r.s)
						}
						tr.Add(map[string]any{"ev": "ret", "x": r.x, "res": r.kind, "t": r.t, "st": startedAt[r.x], "dle": dle[r.x], "changed": changed[r.x]})
						sum.Kinds["accept-"+r.kind]++
					default:
						return
					}
				}
			}
			anyChanged := func() bool {
				for x := range blockedNow {
					if changed[x] {
						return true
					}
				}
				return false
			}
			for _, st := range s.Steps {
				sum.Steps++
				switch st.Ev {
				case "start":
					x := st.X
					startedAt[x], dle[x], changed[x], blockedNow[x] = nowU(), dl, false, true
					tr.Add(map[string]any{"ev": "start", "x": x})
					go func() {
						sess, err := l.AcceptKCP()
						results <- ares{x, kindOf(err), nowU(), sess}
					}()
				case "connect":
					peers++
					cc, _ := e.Hub.Listen(fmt.Sprintf("10.0.1.%d:2000", peers))
					c, err := kcp.NewConn3(uint32(100+peers), lc.LocalAddr(), nil, 0, 0, cc)
					vh.Must(err)
					c.Write([]byte("x"))
					clients = append(clients, c)
					cconns = append(cconns, cc)
					tr.Add(map[string]any{"ev": "connect"})
				case "setdl":
					tr.Add(map[string]any{"ev": "setdl", "v": st.V})
					if st.V == 0 {
						l.SetDeadline(time.Time{})
					} else {
						l.SetDeadline(start.Add(time.Duration(st.V) * unit))
					}
					dl = st.V
					for x := range blockedNow {
						changed[x] = true
					}
				case "close":
					tr.Add(map[string]any{"ev": "close"})
					l.Close()
					closed = true
				case "sockerr":
					tr.Add(map[string]any{"ev": "sockerr"})
					lc.FailReads(errors.New("simulated socket error"))
					serr = true
				case "tick":
					time.Sleep(unit / 2)
					harvest()
					tr.Add(map[string]any{"ev": "tick", "now": nowU(), "blocked": len(blockedNow), "anychanged": anyChanged(), "dl": dl,
						"backlog": l.VerifAcceptLen(), "closed": closed, "serr": serr})
					time.Sleep(unit - unit/2)
				}
				harvest()
			}
			harvest()
			for x := range blockedNow {
				tr.Add(map[string]any{"ev": "blocked", "x": x})
				sum.Kinds["blocked-at-end"]++
			}
			// release everything
			for _, c := range clients {
				c.Close()
			}
			for _, a := range accepted {
				a.Close()
			}
			lc.Close()
			for _, cc := range cconns {
				cc.Close()
			}
			synctest.Wait()
			l.Close()
			synctest.Wait()
			for len(blockedNow) > 0 {
				r := <-results
				delete(blockedNow, r.x)
				if r.s != nil {
					r.s.Close()
				}
			}
			l.SetReadDeadline(time.Time{})
			for k := 0; k < 100000 && l.VerifAcceptLen() > 0; k++ {
				if a, err := l.AcceptKCP(); err == nil && a != nil {
					a.Close()
				}
			}
			tf.WriteTrace(map[string]any{"src": fmt.Sprintf("%s#%d", s.Src, i), "side": "listener", "callers": s.Callers}, tr)
			sum.Scripts++
			sum.Nontrivial++
		})
	}
	vh.Must(tf.Close())
	sum.Traces, sum.Lines = tf.N, tf.L
	vh.WriteJSON(filepath.Join(out, "accept_scripts.json"), sum)
}
