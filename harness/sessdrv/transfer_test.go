package sessdrv

import (
	"fmt"
	"io"
	"math/rand"
	"path/filepath"
	"sync"
	"sync/atomic"
	"testing"
	"testing/synctest"
	"time"

	kcp "github.com/xtaci/kcp-go/v5"

	"verifharness/simnet"
	"verifharness/vh"
)

// Scenario describes one session-level run.
type Scenario struct {
	Label     string
	Cfg       SessCfg
	PeerFEC   [2]int // listener-side FEC ratio when it differs from the client's (C16 at session level); {0,0} = same
	LossPct   int
	DupPct    int
	MaxDelay  int // ms; per-datagram random delay up to this (reordering)
	Clean     bool // C18: nothing lost / duplicated / reordered, constant one-way delay FixedDelay, reader keeps up, windows as the property demands
	FixedDelay int // ms
	Bytes     int // client -> server stream length
	BackBytes int // server -> client stream length
	OOB       int // number of out-of-band messages each way
	MtuEvents int // number of SetMtu calls during the transfer
	PauseMs   int // the server application stops reading for this long in the middle of the transfer (C03)
	CtlLoss   bool // during the pause every datagram without a PUSH segment is lost
	Outage    int // ms of total outage in the middle (C02)
	Seed      int64
	Corrupt   int // number of corrupted copies of captured datagrams injected (C06)
	Garbage   int // number of random / mutated datagrams injected (C05)
	CloseMid  bool // close everything in the middle of the transfer instead of after completion (C15)
	Vec       bool // C01: the writers use WriteBuffers with vectors of 2-4 slices and short write deadlines; a call that fails reports how many
	               // bytes it accepted (io.Writer), the application retries the rest -- so bytes queued by a call that reported fewer show
	               // up twice in the peer's stream. Stream mode only (a vector is cut into messages slice by slice).
	ForgeRec  bool // C05: an on-path adversary drops one data packet of every fourth FEC group and alters the group's first parity packet so
	// that the packet the receiver RECONSTRUCTS carries a boundary value in its size prefix (no cipher)
	RateLimit int  // bytes per second handed to SetRateLimit on both sessions (0: none): the post-processing goroutine lags behind
}

type summary struct {
	Runs, Events, Traces, Lines int
	Kinds                       map[string]int
	Nontrivial                  int
	Failures                    []string
}

func randSessCfg(rng *rand.Rand) SessCfg {
	ciphers := []string{"nil", "aes-128", "3des", "salsa20", "xor", "none", "aes-gcm", "sm4", "blowfish", "tea"}
	fecs := [][2]int{{0, 0}, {1, 1}, {2, 1}, {3, 2}, {10, 3}}
	mtus := []int{0, 200, 576, 1400, 1500}
	f := fecs[rng.Intn(len(fecs))]
	c := SessCfg{Cipher: ciphers[rng.Intn(len(ciphers))], D: f[0], P: f[1], Mtu: mtus[rng.Intn(len(mtus))],
		SndWnd: []int{4, 32, 128, 1024}[rng.Intn(4)], RcvWnd: []int{4, 32, 128, 1024}[rng.Intn(4)],
		NoDelay: rng.Intn(2), Interval: []int{10, 20, 40, 100}[rng.Intn(4)], Resend: rng.Intn(3), Nc: rng.Intn(2),
		Stream: rng.Intn(2) == 0, WriteDelay: rng.Intn(3) == 0, AckNoDelay: rng.Intn(3) == 0}
	return c
}

const (
	srvAddr = "10.0.0.1:1000"
	cliAddr = "10.0.0.2:2000"
)

// mss of a session right now.
func mssOf(s *kcp.UDPSession) int { return int(s.VerifKCPState().Mss) }

// runTransfer executes one scenario in its own bubble and writes its trace.
func runTransfer(t *testing.T, sc Scenario, sum *summary, tf *vh.TraceFile) {
	vh.Bubble(t, uint32(sc.Seed*2654435761), 2, func(e *vh.Env) {
		rng := rand.New(rand.NewSource(sc.Seed))
		snmp0 := kcp.DefaultSnmp.Copy()
		snmpClean, resentClean := snmp0, 0
		var cleanBase sync.Once
		w := NewWorld(e)
		w.Owned = sc.Seed%5 == 4 // every fifth run: the dialled session and the listener own their transports
		kcp.VerifPoolSanitize(vh.EnvInt("SESS_NOSAN", 0) == 0, 64, false)
		if sc.Seed%3 == 0 {
			kcp.VerifEntropyNearReseed(uint64(10 + rng.Intn(400))) // the nonce source reseeds itself in mid-transfer (C09 freshness, C14)
		}
		defer kcp.VerifPoolSanitize(false, 0, false)
		w.Mon.KeepRaw = sc.Corrupt > 0 || sc.Garbage > 0
		var pausedOnce, outageOnce atomic.Bool
		ioTimeout := time.Duration(400000+sc.PauseMs+sc.Outage) * time.Millisecond
		var gotCli, gotSrv atomic.Int64 // bytes read by the client / the server
		var phase atomic.Int32 // 0 normal, 1 paused/ctl-loss, 2 outage, 3 healed (no more faults)
		frng := rand.New(rand.NewSource(sc.Seed ^ 0x5bd1e995))
		forger := newRecoveryForger(sc)
		e.Hub.SetPolicy(func(d *simnet.Dgram) simnet.Fate {
			if f, handled := forger.fate(d); handled {
				return f
			}
			ph := phase.Load()
			if sc.Clean {
				return simnet.Fate{Delays: []time.Duration{time.Duration(sc.FixedDelay) * time.Millisecond}, Ordered: true}
			}
			if ph == 3 {
				return simnet.Fate{Delays: []time.Duration{0}}
			}
			if ph == 2 {
				return simnet.Fate{}
			}
			if ph == 1 && w.Mon.ControlOnly(d) {
				return simnet.Fate{} // every window update / probe / acknowledgement is lost
			}
			x := frng.Intn(100)
			if x < sc.LossPct {
				return simnet.Fate{}
			}
			delay := func() time.Duration {
				if sc.Clean {
					return time.Duration(sc.FixedDelay) * time.Millisecond
				}
				if sc.MaxDelay == 0 {
					return 0
				}
				return time.Duration(frng.Intn(sc.MaxDelay+1)) * time.Millisecond
			}
			if x < sc.LossPct+sc.DupPct {
				return simnet.Fate{Delays: []time.Duration{delay(), delay()}}
			}
			return simnet.Fate{Delays: []time.Duration{delay()}}
		})
		scfg := sc.Cfg
		if sc.PeerFEC != [2]int{0, 0} {
			scfg.D, scfg.P = sc.PeerFEC[0], sc.PeerFEC[1]
		}
		l, lconn := w.Listen(srvAddr, scfg)
		// the accepted session answers before Accept returns, with the default MTU until the acceptor has applied the configuration
		rcfg := scfg
		rcfg.Mtu = 0
		w.Mon.Register(srvAddr, cliAddr, 77, rcfg, 0)
		cli, cconn := w.Dial(cliAddr, srvAddr, 77, sc.Cfg)
		if sc.Cfg.D > 0 && sc.Seed%3 != 1 {
			// the dialled session's FEC encoder starts one or two groups before the wrap value of its sequence ids
			// (the peer's decoder still starts at 0: ids just below the wrap value are "a little behind" for it)
			n := uint32(sc.Cfg.D + sc.Cfg.P)
			cli.VerifSetFECNext(0xffffffff/n*n - n*uint32(1+sc.Seed%2))
		}
		if sc.RateLimit > 0 {
			cli.SetRateLimit(uint32(sc.RateLimit))
		}
		w.Ev(map[string]any{"ev": "open", "conn": "cli", "stream": sc.Cfg.Stream})
		// write admission (C04): the hook fires under the session mutex in the branch of WriteBuffers that queues the data
		var connName sync.Map // *kcp.UDPSession -> "cli" / "srv"
		connName.Store(cli, "cli")
		kcp.VerifSetSink(func(ev kcp.VerifEvent) {
			if ev.Kind != "s.wadmit" {
				return
			}
			name := "other"
			if s, ok := ev.Ref.(*kcp.UDPSession); ok {
				if n, ok := connName.Load(s); ok {
					name = n.(string)
				}
			}
			w.Ev(map[string]any{"ev": "wadmit", "conn": name, "waitsnd": ev.A, "sndwnd": ev.B})
		})
		defer kcp.VerifSetSink(nil)
		var oobMu sync.Mutex
		oobSent := map[string]map[string]int{"cli": {}, "srv": {}} // payload -> count sent, by sender
		handler := func(me, from string) kcp.OOBCallBackType {
			return func(b []byte) {
				oobMu.Lock()
				_, known := oobSent[from][string(b)]
				oobMu.Unlock()
				w.Ev(map[string]any{"ev": "oobrecv", "conn": me, "len": len(b), "known": known})
			}
		}
		if sc.Cfg.D > 0 && sc.OOB > 0 {
			cli.SetOOBHandler(handler("cli", "srv"))
		}
		var wg sync.WaitGroup
		var srv *kcp.UDPSession
		accepted := make(chan struct{})
		// --- server side ---
		wg.Add(1)
		go func() {
			defer wg.Done()
			l.SetReadDeadline(time.Now().Add(600 * time.Second))
			s, err := l.AcceptKCP()
			if err != nil {
				w.Ev(map[string]any{"ev": "accept", "ok": false})
				close(accepted)
				return
			}
			if scfg.Mtu > 0 {
				w.Mon.BeginSetMtu(srvAddr, cliAddr, scfg.Mtu)
			}
			scfg.Apply(s)
			if scfg.Mtu > 0 {
				w.Mon.SetMtu(srvAddr, cliAddr, scfg.Mtu)
			}
			if scfg.D > 0 && sc.OOB > 0 {
				s.SetOOBHandler(handler("srv", "cli"))
			}
			if sc.RateLimit > 0 {
				s.SetRateLimit(uint32(sc.RateLimit))
			}
			srv = s
			connName.Store(s, "srv")
			w.Ev(map[string]any{"ev": "accept", "ok": true, "conv": s.GetConv()})
			close(accepted)
			// reader: client's stream
			var off int64
			buf := make([]byte, 70000)
			rng := rand.New(rand.NewSource(sc.Seed ^ 0x1111)) // one generator per goroutine
			for off < int64(sc.Bytes) {
				// buffers smaller than a message are used in message mode too: the rest of the message stays for the next Read
				n := []int{1 + rng.Intn(3000), 1 + rng.Intn(200), 1, len(buf)}[rng.Intn(4)]
				if (!sc.Cfg.Stream && rng.Intn(2) == 0) || sc.Clean {
					n = len(buf) // a buffer that always fits one message
				}
				if sc.PauseMs > 0 && off > int64(sc.Bytes/3) && phase.Load() == 0 && !pausedOnce.Swap(true) {
					w.Ev(map[string]any{"ev": "pause", "conn": "srv", "ms": sc.PauseMs})
					if sc.CtlLoss {
						phase.Store(1)
					}
					time.Sleep(time.Duration(sc.PauseMs) * time.Millisecond)
					w.Ev(map[string]any{"ev": "resume", "conn": "srv"})
					if sc.CtlLoss {
						time.Sleep(1500 * time.Millisecond) // losses continue a little after the reader resumed
						phase.Store(0)
					}
				}
				s.SetReadDeadline(time.Now().Add(ioTimeout))
				k, err := s.Read(buf[:n])
				if err != nil {
					w.Ev(map[string]any{"ev": "readerr", "conn": "srv", "off": off, "timeout": isTimeout(err)})
					return
				}
				w.Ev(map[string]any{"ev": "read", "conn": "srv", "n": k, "off": off, "ok": vh.Check(buf[:k], 1, off), "buf": n})
				off += int64(k)
				gotSrv.Store(off)
			}
		}()
		// --- client writer ---
		var chunkMu sync.Mutex
		chunks := map[string][]int{"cli": {}, "srv": {}}
		writer := func(name string, getS func() *kcp.UDPSession, id, total int, peerAddr, myAddr string) {
			defer wg.Done()
			s := getS()
			if s == nil {
				return
			}
			var off int64
			warmed := false
			rng := rand.New(rand.NewSource(sc.Seed ^ int64(id)*0x2222)) // one generator per goroutine
			mtuLeft := sc.MtuEvents
			oobLeft := sc.OOB
			for off < int64(total) {
				n := []int{1, 10, 100, 1000, 1376, 1400, 3000, 1 + rng.Intn(6000)}[rng.Intn(8)]
				if int64(n) > int64(total)-off {
					n = int(int64(total) - off)
				}
				b := make([]byte, n)
				vh.Fill(b, id, off)
				mss := mssOf(s)
				var k int
				var err error
				if sc.Vec {
					var vec [][]byte
					rest := b
					for i := 0; i < 3 && len(rest) > 1; i++ {
						c := 1 + rng.Intn(len(rest)-1)
						if rng.Intn(2) == 0 && len(rest) > 2*mss {
							c = mss * (1 + rng.Intn(2)) // whole segments: the window fills exactly at a slice boundary
						}
						vec = append(vec, rest[:c])
						rest = rest[c:]
					}
					vec = append(vec, rest)
					s.SetWriteDeadline(time.Now().Add(time.Duration([]int{5, 30, 80, 300}[rng.Intn(4)]) * time.Millisecond))
					k, err = s.WriteBuffers(vec)
					if err != nil && isTimeout(err) && time.Since(w.Env.Start) < ioTimeout {
						// nothing (or only k bytes) accepted, says the call: the application tries again with the rest
						w.Ev(map[string]any{"ev": "writeretry", "conn": name, "off": off, "k": k, "slices": len(vec)})
						off += int64(k)
						continue
					}
					if err == nil {
						w.Ev(map[string]any{"ev": "write", "conn": name, "n": k, "off": off, "mss": mss})
					}
				} else {
					s.SetWriteDeadline(time.Now().Add(ioTimeout))
					// logged before the call: the peer may read these bytes before Write returns
					w.Ev(map[string]any{"ev": "write", "conn": name, "n": n, "off": off, "mss": mss})
					k, err = s.Write(b)
				}
				if err != nil {
					w.Ev(map[string]any{"ev": "writeerr", "conn": name, "off": off, "timeout": isTimeout(err)})
					return
				}
				chunkMu.Lock()
				for r := k; r > 0; r -= mss {
					c := mss
					if r < mss {
						c = r
					}
					chunks[name] = append(chunks[name], c)
				}
				chunkMu.Unlock()
				off += int64(k)
				if sc.Clean && !warmed {
					// C18's precondition speaks of the peer's acknowledgement delay: an accepted session exists, with the library's default
					// 100 ms flush interval, before the application can configure it, and its first scheduled update still fires at that
					// interval. The measured part of a clean run starts once both ends run with their configured intervals.
					warmed = true
					<-accepted
					time.Sleep(300 * time.Millisecond)
					cleanBase.Do(func() {
						snmpClean = kcp.DefaultSnmp.Copy()
						resentClean = w.Mon.Resent()
					})
				}
				if name == "cli" && sc.Outage > 0 && off > int64(total/2) && !outageOnce.Swap(true) {
					phase.Store(2)
					w.Ev(map[string]any{"ev": "outage", "ms": sc.Outage})
					time.Sleep(time.Duration(sc.Outage) * time.Millisecond)
					phase.Store(0)
					w.Ev(map[string]any{"ev": "outage-end"})
				}
				if oobLeft > 0 && sc.Cfg.D > 0 && rng.Intn(3) == 0 {
					oobLeft--
					max := s.GetOOBMaxSize()
					ln := []int{0, 1, 100, max, max + 1, rng.Intn(max + 1)}[rng.Intn(6)]
					p := make([]byte, ln)
					vh.Fill(p, 1000+id, int64(oobLeft)*2000)
					oobMu.Lock()
					oobSent[name][string(p)]++
					oobMu.Unlock()
					err := s.SendOOB(p)
					w.Ev(map[string]any{"ev": "oobsend", "conn": name, "len": ln, "max": max, "refused": err != nil})
				}
				if mtuLeft > 0 && rng.Intn(4) == 0 {
					mtuLeft--
					hs := s.VerifHeaderSize()
					m := []int{hs + 24, hs + 25, hs + 50, 300, 576, 1000, 1400, 1500, 1600, 100000, -5, 0}[rng.Intn(12)]
					if rng.Intn(3) == 0 {
						// a little below / above the MTU in force (less than, exactly, more than an AEAD tag or a header away)
						cur := mssOf(s) + 24 + hs
						if c, _ := Crypt(sc.Cfg.Cipher); c != nil && sc.Cfg.Cipher == "aes-gcm" {
							cur += 16
						}
						m = cur + []int{-1, -8, -15, -16, -17, -24, -40, 1, 16}[rng.Intn(9)]
					}
					w.Mon.BeginSetMtu(myAddr, peerAddr, m)
					ok := s.SetMtu(m)
					if ok {
						w.Mon.SetMtu(myAddr, peerAddr, m)
					} else {
						w.Mon.EndSetMtu(myAddr, peerAddr)
					}
					w.Ev(map[string]any{"ev": "setmtu", "conn": name, "mtu": m, "ok": ok})
				}
				if rng.Intn(5) == 0 {
					time.Sleep(time.Duration(rng.Intn(30)) * time.Millisecond)
				}
				if sc.Cfg.D > 0 && rng.Intn(10) == 0 {
					time.Sleep(600 * time.Millisecond) // longer than the FEC encoder's continuity bound: the open group's parity is skipped
				}
			}
		}
		wg.Add(1)
		go writer("cli", func() *kcp.UDPSession { return cli }, 1, sc.Bytes, srvAddr, cliAddr)
		if sc.BackBytes > 0 {
			wg.Add(2)
			go writer("srv", func() *kcp.UDPSession { <-accepted; return srv }, 2, sc.BackBytes, cliAddr, srvAddr)
			go func() {
				defer wg.Done()
				var off int64
				buf := make([]byte, 70000)
				rng := rand.New(rand.NewSource(sc.Seed ^ 0x3333)) // one generator per goroutine
				for off < int64(sc.BackBytes) {
					cli.SetReadDeadline(time.Now().Add(ioTimeout))
					n := []int{len(buf), 1 + rng.Intn(4000), 1 + rng.Intn(100)}[rng.Intn(3)]
					k, err := cli.Read(buf[:n])
					if err != nil {
						w.Ev(map[string]any{"ev": "readerr", "conn": "cli", "off": off, "timeout": isTimeout(err)})
						return
					}
					w.Ev(map[string]any{"ev": "read", "conn": "cli", "n": k, "off": off, "ok": vh.Check(buf[:k], 2, off), "buf": n})
					off += int64(k)
					gotCli.Store(off)
				}
			}()
		}
		// --- injections (C05 / C06) while traffic flows ---
		if sc.Garbage > 0 {
			wg.Add(1)
			go func() {
				defer wg.Done()
				<-accepted
				injectGarbage(w, sc, rand.New(rand.NewSource(sc.Seed^0x7777)), func() *kcp.UDPSession { return srv }, cli)
			}()
		}
		// C04 at session level: both ends' queue lengths are sampled every few virtual milliseconds for the whole transfer
		stopSampler := make(chan struct{})
		samplerDone := make(chan struct{})
		go func() {
			defer close(samplerDone)
			last := map[string][5]int{}
			settledWnd := map[string]bool{}
			sample := func(name string, s *kcp.UDPSession) {
				st := s.VerifKCPState()
				sets := 0
				if f, ok := s.VerifFECState(); ok {
					sets = len(f.Sets)
				}
				cur := [5]int{len(st.RcvQueue), len(st.RcvBuf), len(st.SndBuf), sets, int(st.RcvWnd)<<16 | int(st.SndWnd)}
				if last[name] == cur {
					return // unchanged since the last sample
				}
				last[name] = cur
				if vh.EnvInt("SESS_DEBUG", 0) == 2 && len(st.RcvBuf) > int(st.RcvWnd) {
					sns := []uint32{}
					for _, sg := range st.RcvBuf {
						sns = append(sns, sg.Sn)
					}
					fmt.Printf("DEBUG %s t=%d rcv_nxt=%d wnd=%d rcv_buf=%v queue=%d\n", name, w.Now(), st.RcvNxt, st.RcvWnd, sns, len(st.RcvQueue))
				}
				w.Ev(map[string]any{"ev": "bounds", "conn": name, "rcvq": len(st.RcvQueue), "rcvb": len(st.RcvBuf), "rcvwnd": effRcvWnd(&settledWnd, name, st),
					"sndb": len(st.SndBuf), "sndwnd": int(st.SndWnd), "sets": sets, "pool": 0, "rto": int(s.GetRTO()), "minrto": int(st.RxMinrto)})
			}
			for i := 0; ; i++ {
				select {
				case <-stopSampler:
					return
				case <-time.After(time.Duration(5+i%21) * time.Millisecond):
				}
				sample("cli", cli)
				select {
				case <-accepted:
					if srv != nil {
						sample("srv", srv)
					}
				default:
				}
			}
		}()
		defer func() {
			select {
			case <-stopSampler:
			default:
				close(stopSampler)
			}
			<-samplerDone
		}()
		if sc.CloseMid {
			time.Sleep(time.Duration(50+rng.Intn(400)) * time.Millisecond)
		} else {
			wg.Wait()
			phase.Store(3)
			if sc.Corrupt > 0 && srv != nil {
				injectCorrupt(w, sc, rng, srv, cli, l)
			}
			if sc.OOB > 0 && sc.Cfg.D > 0 {
				injectForeignOOB(w, rng, 77)
			}
		}
		// final state, then close everything in a seeded order
		<-accepted
		close(stopSampler)
		<-samplerDone
		done := !sc.CloseMid && gotSrv.Load() == int64(sc.Bytes) && gotCli.Load() == int64(sc.BackBytes)
		w.FlushWire()
		ws, wok := w.Mon.Reassemble(cliAddr, srvAddr)
		wirePrefix := len(ws)
		wireContent := vh.Check(ws, 1, 0)
		chunkMu.Lock()
		snmpEnd := kcp.DefaultSnmp.Copy()
		w.Ev(map[string]any{"ev": "end", "complete": done, "wire_prefix": wirePrefix, "wire_content_ok": wireContent, "wire_consistent": wok,
			"written": sc.Bytes, "chunks_cli": chunks["cli"], "chunks_srv": chunks["srv"],
			"retrans": int(snmpEnd.RetransSegs - snmpClean.RetransSegs), "wire_resent": w.Mon.Resent() - resentClean,
			"forged_recoveries": forger.attacks, "fec_recovered": int(snmpEnd.FECRecovered - snmp0.FECRecovered), "fec_errs": int(snmpEnd.FECErrs - snmp0.FECErrs),
			"kcp_in_errors": int(snmpEnd.KCPInErrors - snmp0.KCPInErrors)})
		chunkMu.Unlock()
		if sc.CloseMid && sc.Seed%2 == 0 {
			// the transports start failing writes a little before everything is closed: the sessions keep queueing output that can
			// no longer be sent, then Close finds their post-processing queues busy
			which := rng.Intn(3)
			if which != 1 {
				cconn.FailWrites(fmt.Errorf("simulated write failure"))
			}
			if which != 0 {
				lconn.FailWrites(fmt.Errorf("simulated write failure"))
			}
			w.Ev(map[string]any{"ev": "writefail", "which": which})
			time.Sleep(time.Duration(rng.Intn(25)) * time.Millisecond)
		}
		order := rng.Perm(4)
		for _, o := range order {
			switch o {
			case 0:
				err := cli.Close()
				w.Ev(map[string]any{"ev": "close", "conn": "cli", "err": err != nil})
			case 1:
				if srv != nil {
					if sc.CloseMid {
						w.Mon.ForgetMtu(srvAddr, cliAddr) // the listener may replace the closed session with a fresh, unconfigured one
					}
					err := srv.Close()
					w.Ev(map[string]any{"ev": "close", "conn": "srv", "err": err != nil})
				}
			case 2:
				l.Close()
			case 3:
				lconn.Close()
				cconn.Close()
			}
			if sc.CloseMid {
				time.Sleep(time.Duration(rng.Intn(20)) * time.Millisecond)
			}
		}
		lconn.Close()
		cconn.Close()
		if sc.CloseMid {
			wg.Wait()
		}
		// out-of-band sends on closed sessions (refused or dropped; their buffers must be recycled exactly once)
		if sc.Cfg.D > 0 {
			for i := 0; i < 6; i++ {
				cli.SendOOB([]byte("late"))
				if srv != nil {
					srv.SendOOB([]byte("late"))
				}
			}
		}
		// second Close reports an error; Write after Close fails
		err2 := cli.Close()
		_, werr := cli.Write([]byte("x"))
		w.Ev(map[string]any{"ev": "afterclose", "conn": "cli", "close2_err": err2 != nil, "write_err": werr != nil})
		// every goroutine and scheduled callback of the library must be gone a little later
		time.Sleep(12 * time.Second)
		if sc.RateLimit > 0 {
			// a paced session still sends what was queued when it was closed: up to 2048 packets at the configured rate
			time.Sleep(time.Duration(2048*1500/sc.RateLimit+1) * time.Second)
		}
		synctest.Wait()
		leaks := []string{}
		backlogLeaks := 0
		known := map[string]bool{fmt.Sprintf("%p", cli): true}
		if srv != nil {
			known[fmt.Sprintf("%p", srv)] = true
		}
		for _, g := range vh.KcpGoroutines() {
			if isSchedGoroutine(g) {
				continue
			}
			owned := false
			for p := range known {
				if contains(g, p) {
					owned = true
				}
			}
			if owned || contains(g, "(*Listener)") {
				leaks = append(leaks, firstKcpFrame(g))
			} else {
				backlogLeaks++ // a session that was created by the listener but never handed to the application
			}
		}
		// sessions still sitting in the accept backlog (never handed out) are collected so that the bubble can end
		unclaimed := 0
		l.SetReadDeadline(time.Time{}) // an expired deadline would only add a third ready case to Accept's select
		for i := 0; i < 100000 && l.VerifAcceptLen() > 0; i++ { // the closed listener's Accept picks die or the backlog at random
			if s, err := l.AcceptKCP(); err == nil && s != nil {
				s.Close()
				unclaimed++
			}
		}
		if unclaimed > 0 {
			time.Sleep(12 * time.Second)
			synctest.Wait()
		}
		gets, puts, outstanding, anomalies := kcp.VerifPoolReport()
		w.FlushWire()
		if anomalies == nil {
			anomalies = []string{}
		}
		w.Ev(map[string]any{"ev": "teardown", "leaks": leaks, "backlog_leaks": backlogLeaks, "unclaimed": unclaimed, "pool_gets": gets, "pool_puts": puts, "pool_outstanding": outstanding,
			"pool_anomalies": anomalies})
		tf.WriteTrace(map[string]any{"cfg": sc.Cfg, "label": sc.Label, "seed": sc.Seed, "loss": sc.LossPct, "dup": sc.DupPct, "delay": sc.MaxDelay,
			"closemid": sc.CloseMid, "peerfec": sc.PeerFEC, "faulty": sc.Corrupt > 0 || sc.Garbage > 0, "clean": sc.Clean, "paced": sc.RateLimit > 0}, w.Tr)
		sum.Runs++
		sum.Events += w.Tr.Len()
		if sc.LossPct > 0 || sc.DupPct > 0 || sc.MaxDelay > 0 || sc.Outage > 0 || sc.PauseMs > 0 || sc.Corrupt > 0 || sc.Garbage > 0 || sc.CloseMid {
			sum.Nontrivial++
		}
		_ = io.EOF
	})
}

func isTimeout(err error) bool {
	type to interface{ Timeout() bool }
	for err != nil {
		if t, ok := err.(to); ok && t.Timeout() {
			return true
		}
		u, ok := err.(interface{ Unwrap() error })
		if !ok {
			c, ok2 := err.(interface{ Cause() error })
			if !ok2 {
				return false
			}
			err = c.Cause()
			continue
		}
		err = u.Unwrap()
	}
	return false
}

func isSchedGoroutine(g string) bool {
	return contains(g, "(*TimedSched).sched") || contains(g, "(*TimedSched).prepend")
}

func contains(s, sub string) bool {
	return len(sub) == 0 || (len(s) >= len(sub) && (func() bool {
		for i := 0; i+len(sub) <= len(s); i++ {
			if s[i:i+len(sub)] == sub {
				return true
			}
		}
		return false
	})())
}

func firstKcpFrame(g string) string {
	const marker = "github.com/xtaci/kcp-go/v5."
	for i := 0; i+len(marker) <= len(g); i++ {
		if g[i:i+len(marker)] == marker {
			j := i
			for j < len(g) && g[j] != '\n' && g[j] != '(' || (j < len(g) && g[j] == '(' && j+1 < len(g) && g[j+1] == '*') {
				j++
			}
			end := i
			for end < len(g) && g[end] != '\n' {
				end++
			}
			return g[i:end]
		}
	}
	return "?"
}

func newSum() *summary { return &summary{Kinds: map[string]int{}} }

// TestSessTransfer: seeded random configurations and fault mixes (the session-level data plane of C01 C02 C03 C09 C10 C15 C19).
func TestSessTransfer(t *testing.T) {
	out := vh.OutDir(t)
	rng := rand.New(rand.NewSource(vh.Seed()*982451653 + 7))
	runs := vh.EnvInt("SESS_RUNS", 16)
	tf, err := vh.OpenTraceFile(filepath.Join(out, "sess_transfer.ndjson"))
	vh.Must(err)
	sum := newSum()
	for r := 0; r < runs; r++ {
		cfg := randSessCfg(rng)
		sc := Scenario{Label: fmt.Sprintf("transfer%d", r), Cfg: cfg, Seed: rng.Int63(),
			LossPct: []int{0, 5, 20}[rng.Intn(3)], DupPct: []int{0, 5}[rng.Intn(2)], MaxDelay: []int{0, 10, 60}[rng.Intn(3)],
			Bytes: 20000 + rng.Intn(120000), BackBytes: []int{0, 30000}[rng.Intn(2)], OOB: []int{0, 6}[rng.Intn(2)],
			MtuEvents: []int{0, 0, 3}[rng.Intn(3)]}
		if vh.EnvInt("SESS_OOB", 0) == 1 {
			sc.OOB = 8
			if sc.Cfg.D == 0 && r%4 != 0 {
				sc.Cfg.D, sc.Cfg.P = []int{1, 2, 3, 10}[rng.Intn(4)], []int{1, 2, 3}[rng.Intn(3)]
			}
			sc.BackBytes = 20000
		}
		if vh.EnvInt("SESS_MTU_EVENTS", 0) == 1 {
			sc.MtuEvents = 4
		}
		if vh.EnvInt("SESS_CLOSEMID", 0) == 1 && r%2 == 0 {
			sc.CloseMid = true
		}
		switch r % 5 {
		case 1:
			sc.Outage = []int{500, 5000, 60000}[rng.Intn(3)]
		case 2:
			sc.PauseMs, sc.CtlLoss = []int{300, 3000, 40000}[rng.Intn(3)], rng.Intn(2) == 0
		case 3:
			sc.CloseMid = true
		}
		if sc.CloseMid && sc.MtuEvents == 0 && r%4 < 2 {
			sc.RateLimit = 20000 + rng.Intn(300000) // paced output: packets wait in the post-processing queue when Close comes
		}
		runTransfer(t, sc, sum, tf)
	}
	vh.Must(tf.Close())
	sum.Traces, sum.Lines = tf.N, tf.L
	vh.WriteJSON(filepath.Join(out, "sess_transfer.json"), sum)
}

func scenarioBatch(t *testing.T, name string, tweak func(r int, rng *rand.Rand, sc *Scenario)) {
	out := vh.OutDir(t)
	rng := rand.New(rand.NewSource(vh.Seed()*982451653 + int64(len(name))*7919))
	runs := vh.EnvInt("SESS_RUNS", 16)
	tf, err := vh.OpenTraceFile(filepath.Join(out, name+".ndjson"))
	vh.Must(err)
	sum := newSum()
	for r := 0; r < runs; r++ {
		cfg := randSessCfg(rng)
		sc := Scenario{Label: fmt.Sprintf("%s%d", name, r), Cfg: cfg, Seed: rng.Int63(),
			LossPct: []int{0, 5, 20}[rng.Intn(3)], DupPct: []int{0, 5}[rng.Intn(2)], MaxDelay: []int{0, 10, 60}[rng.Intn(3)],
			Bytes: 20000 + rng.Intn(60000)}
		tweak(r, rng, &sc)
		if only := vh.EnvInt("SESS_ONLY", -1); only >= 0 && r != only {
			continue // (debugging aid: one scenario of the batch, generated exactly as in the full batch)
		}
		runTransfer(t, sc, sum, tf)
	}
	vh.Must(tf.Close())
	sum.Traces, sum.Lines = tf.N, tf.L
	vh.WriteJSON(filepath.Join(out, name+".json"), sum)
}

// TestSessMtu (C10): many SetMtu calls with boundary values during bidirectional transfers, with OOB of maximum size.
func TestSessMtu(t *testing.T) {
	scenarioBatch(t, "sess_mtu", func(r int, rng *rand.Rand, sc *Scenario) {
		sc.MtuEvents = 12
		sc.BackBytes = 20000
		sc.OOB = 6
		if sc.Cfg.D == 0 && r%2 == 0 {
			sc.Cfg.D, sc.Cfg.P = 2, 1
		}
	})
}

// TestSessCorrupt (C06): a cipher is always configured; corrupted copies are injected after the transfer.
func TestSessCorrupt(t *testing.T) {
	ciphers := []string{"aes-128", "aes-256", "3des", "salsa20", "xor", "none", "aes-gcm", "sm4", "twofish", "blowfish", "cast5", "tea", "xtea"}
	scenarioBatch(t, "sess_corrupt", func(r int, rng *rand.Rand, sc *Scenario) {
		sc.Cfg.Cipher = ciphers[r%len(ciphers)]
		sc.Corrupt = 60
		sc.BackBytes = 10000
		sc.OOB = 4
		sc.Bytes = 8000 + rng.Intn(20000)
		if r%2 == 0 && sc.Cfg.D == 0 {
			sc.Cfg.D, sc.Cfg.P = 3, 2
		}
	})
}

// TestSessGarbage (C05): garbage and mutated datagrams injected while traffic flows.
func TestSessGarbage(t *testing.T) {
	scenarioBatch(t, "sess_garbage", func(r int, rng *rand.Rand, sc *Scenario) {
		sc.Garbage = 200 + rng.Intn(1800)
		sc.BackBytes = 10000
		if r%3 == 0 {
			sc.Cfg.Cipher = "nil" // garbage reaches the FEC and KCP parsers
		}
	})
}

// TestSessStall (C03 at session level): the server application stops reading in mid-transfer for 0.3 s .. 10 min while the
// client keeps writing (Write blocks once the window is full); in half of the runs every datagram that carries no PUSH
// segment is lost during the pause and for 1.5 s afterwards; receive windows 1..32.
func TestSessStall(t *testing.T) {
	scenarioBatch(t, "sess_stall", func(r int, rng *rand.Rand, sc *Scenario) {
		sc.PauseMs = []int{300, 3000, 40000, 130000, 600000}[rng.Intn(5)]
		sc.CtlLoss = r%2 == 0
		sc.Cfg.RcvWnd = []int{1, 2, 3, 4, 8, 32}[rng.Intn(6)]
		sc.Cfg.Stream = true
		sc.LossPct, sc.DupPct = []int{0, 5}[rng.Intn(2)], 0
		sc.Bytes = 40000 + rng.Intn(60000)
	})
}

// TestSessClean (C18 at session level): a path that loses, duplicates and reorders nothing, with a constant one-way delay D such that
// 2D + the peer's flush interval stays below the minimum retransmission timeout, a reader that keeps up and a receive window of
// at least min(send window, 32): no data segment may appear on the wire twice and the library's RetransSegs counter must not
// move. The RTO reported by both sessions is sampled throughout (C18_SessRtoBounds) -- in every session run, not only here.
func TestSessClean(t *testing.T) {
	scenarioBatch(t, "sess_clean", func(r int, rng *rand.Rand, sc *Scenario) {
		sc.Clean = true
		sc.LossPct, sc.DupPct, sc.MaxDelay, sc.Outage, sc.PauseMs, sc.CloseMid, sc.MtuEvents, sc.Corrupt, sc.Garbage = 0, 0, 0, 0, 0, false, 0, 0, 0
		if sc.Cfg.NoDelay == 1 {
			sc.Cfg.Interval = 10
			sc.FixedDelay = []int{0, 1, 5, 9}[rng.Intn(4)] // 2*9 + 10 < 30
		} else {
			sc.Cfg.Interval = []int{10, 20, 40}[rng.Intn(3)]
			sc.FixedDelay = []int{0, 1, 5, 20, 29}[rng.Intn(5)] // 2*29 + 40 < 100
		}
		if sc.Cfg.RcvWnd < 32 {
			sc.Cfg.RcvWnd = 32
		}
		sc.Cfg.AckNoDelay = rng.Intn(2) == 0
		sc.BackBytes = []int{0, 20000}[rng.Intn(2)]
		sc.Bytes = 20000 + rng.Intn(150000)
	})
}

// effRcvWnd: the receive window the bounds are judged by. An accepted session exists -- with the library's default window of 32 --
// and buffers segments before the application can configure it (C04 assumes windows are set before traffic): segments accepted
// under the default window may lie beyond the configured one and stay in rcv_buf until rcv_nxt reaches them. Until rcv_nxt has
// advanced by 32 from where it was first seen, the default window applies if it is larger than the configured one.
var wndBase sync.Map // "<settled map pointer>/<name>" -> rcv_nxt at the first sample

func effRcvWnd(settled *map[string]bool, name string, st kcp.VerifKCPState) int {
	wnd := int(st.RcvWnd)
	if (*settled)[name] || wnd >= 32 {
		return wnd
	}
	key := fmt.Sprintf("%p/%s", settled, name)
	b, _ := wndBase.LoadOrStore(key, st.RcvNxt)
	if int32(st.RcvNxt-b.(uint32)) >= 32 {
		(*settled)[name] = true
		wndBase.Delete(key)
		return wnd
	}
	return 32
}

// TestSessVector (C01): vectored writes with short deadlines behind small send windows; see Scenario.Vec.
func TestSessVector(t *testing.T) {
	scenarioBatch(t, "sess_vector", func(r int, rng *rand.Rand, sc *Scenario) {
		sc.Vec = true
		sc.Cfg.Stream = true
		sc.Cfg.SndWnd = []int{2, 4, 8, 32}[r%4]
		sc.MaxDelay = []int{10, 60}[rng.Intn(2)]
		sc.BackBytes = []int{0, 20000}[rng.Intn(2)]
		if r%5 == 1 {
			sc.Outage = []int{500, 5000}[rng.Intn(2)]
		}
	})
}

// TestSessForgedRecovery (C05): see recoveryForger.
func TestSessForgedRecovery(t *testing.T) {
	scenarioBatch(t, "sess_forgedrec", func(r int, rng *rand.Rand, sc *Scenario) {
		sc.ForgeRec = true
		sc.Cfg.Cipher = "nil"
		f := [][2]int{{2, 1}, {3, 1}, {3, 2}, {10, 3}, {1, 1}, {5, 2}}[r%6]
		sc.Cfg.D, sc.Cfg.P = f[0], f[1]
		sc.PeerFEC = [2]int{0, 0}
		sc.LossPct, sc.DupPct, sc.MaxDelay, sc.Outage, sc.PauseMs, sc.CloseMid, sc.MtuEvents, sc.OOB = []int{0, 3}[rng.Intn(2)], 0, 0, 0, 0, false, 0, 0
		sc.Bytes = 30000 + rng.Intn(60000)
		sc.BackBytes = 0
	})
}
