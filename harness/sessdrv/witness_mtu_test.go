package sessdrv

import (
	"testing"
	"testing/synctest"
	"time"

	"verifharness/vh"
)

// TestWitnessParityAfterShrink is the deterministic witness of the known finding
// C10/LenWithinMtu_ParityOfOpenGroup: a smaller MTU accepted while an FEC group is open.
// Five 200-byte messages are flushed as ONE datagram (1128 bytes, first data packet of a 3+1 group, every segment small),
// they are acknowledged, SetMtu(576) is accepted (no queued segment is larger than the new MSS), two more small messages
// complete the group within the encoder's continuity window -- and the parity packet is as long as the first data packet.
// With VERIF_WITNESS_EXPECT=held the test fails if the oversize parity packet IS seen (used after a repair).
func TestWitnessParityAfterShrink(t *testing.T) {
	// second case: an AEAD cipher and an MTU lowered by less than the 16-byte tag -- the length that counts is the sealed one
	for _, wc := range []struct {
		cipher string
		msgs   []int
		newMtu int
	}{{"nil", []int{200, 200, 200, 200, 200}, 576}, {"aes-gcm", []int{247, 247, 247, 247, 250}, 1390}, {"aes-128", []int{250, 250, 250, 250, 250}, 1395}} {
		witnessParityAfterShrink(t, wc.cipher, wc.msgs, wc.newMtu)
	}
}

func witnessParityAfterShrink(t *testing.T, cipher string, msgs []int, newMtu int) {
	vh.Bubble(t, 1000, 2, func(e *vh.Env) {
		w := NewWorld(e)
		cfg := SessCfg{Cipher: cipher, D: 3, P: 1, Mtu: 1400, SndWnd: 128, RcvWnd: 128, NoDelay: 1, Interval: 10, Resend: 2, Nc: 1,
			Stream: false, WriteDelay: true, AckNoDelay: true}
		l, lconn := w.Listen(srvAddr, cfg)
		w.Mon.Register(srvAddr, cliAddr, 77, cfg, 0)
		cli, cconn := w.Dial(cliAddr, srvAddr, 77, cfg)
		go func() {
			s, err := l.AcceptKCP()
			if err != nil {
				return
			}
			defer s.Close()
			cfg.Apply(s)
			buf := make([]byte, 4096)
			for {
				if _, err := s.Read(buf); err != nil {
					return
				}
			}
		}()
		msg := make([]byte, 300)
		// one vectored write: the messages are queued under one hold of the session lock, so the session's own update goroutine (which
		// runs at the same virtual instant) cannot flush some of them first (it did, under CPU load: a 1123-byte first datagram)
		var vec [][]byte
		for _, n := range msgs {
			vec = append(vec, msg[:n])
		}
		cli.WriteBuffers(vec)
		time.Sleep(100 * time.Millisecond)
		synctest.Wait()
		if ws := cli.VerifKCPState(); len(ws.SndBuf) != 0 || len(ws.SndQueue) != 0 {
			t.Fatalf("witness setup: data not acknowledged yet (%+v)", ws)
		}
		ok := cli.SetMtu(newMtu)
		w.Mon.SetMtu(cliAddr, srvAddr, newMtu)
		at := e.NowMs()
		time.Sleep(20 * time.Millisecond)
		cli.Write(msg[:10])
		time.Sleep(20 * time.Millisecond)
		cli.Write(msg[:10])
		time.Sleep(100 * time.Millisecond)
		synctest.Wait()
		w.Mon.mu.Lock()
		over, big := 0, 0
		for _, o := range w.Mon.Obs {
			if o.Src == cliAddr && o.T <= at && o.Len > big {
				big = o.Len
			}
		}
		if big <= newMtu {
			t.Errorf("witness setup (%s): no data packet above the new MTU %d was sent before the change (largest %d)", cipher, newMtu, big)
		}
		for _, o := range w.Mon.Obs {
			if o.Src == cliAddr && o.T > at && o.Len > newMtu {
				over++
				t.Logf("%s t=%d ms (SetMtu(%d)=%v at %d): datagram of %d bytes, FEC type %#x, id %d, openparity=%v", cipher, o.T, newMtu, ok, at, o.Len, o.FecType, o.FecSeq, o.OpenPar)
				if !o.OpenPar {
					t.Errorf("an oversize datagram that is not the parity of the group open at the shrink")
				}
			}
		}
		w.Mon.mu.Unlock()
		cli.Close()
		l.Close()
		lconn.Close()
		cconn.Close()
		time.Sleep(12 * time.Second)
		if !ok {
			t.Fatalf("witness setup: SetMtu(%d) was refused", newMtu)
		}
		expectHeld := vh.EnvStr("VERIF_WITNESS_EXPECT", "finding") == "held"
		if expectHeld && over > 0 {
			t.Fatalf("oversize parity packet after an accepted smaller MTU (%d datagrams)", over)
		}
		if !expectHeld && over == 0 {
			t.Fatalf("the known finding did not reproduce: no datagram above the accepted MTU")
		}
	})
}
