package sessdrv

import (
	"encoding/binary"
	"fmt"
	"hash/crc32"
	"math/rand"
	"testing/synctest"
	"time"

	kcp "github.com/xtaci/kcp-go/v5"
)

func listenerDigest(l *kcp.Listener) string {
	return fmt.Sprintf("%v|acc=%d", l.VerifSessions(), l.VerifAcceptLen())
}

// corruptions that the integrity check is guaranteed to catch (C06's quantifier):
// AEAD: any change; CRC ciphers: an error burst of <= 32 bits inside the CRC-covered plaintext, or a changed stored CRC
// (applied to the plaintext obtained with the REFERENCE cipher, then re-encrypted with it); too-short datagrams.
func (m *Monitor) makeCorrupt(rng *rand.Rand, src, dst string, raw []byte) (out []byte, kind string) {
	m.mu.Lock()
	ep := m.eps[flow(src, dst)]
	m.mu.Unlock()
	if ep == nil || ep.suite.Kind == "nil" {
		return nil, ""
	}
	if rng.Intn(6) == 0 {
		// too short to carry the integrity field
		limit := 20
		if ep.suite.Kind == "aead" {
			limit = ep.aead.NonceSize() + ep.aead.Overhead()
		}
		out := append([]byte(nil), raw[:rng.Intn(limit)]...)
		if len(out) >= 6 && rng.Intn(2) == 0 {
			// bytes 4..5 are where an (unverified) frame would carry the FEC type marker
			out[4], out[5] = []byte{0xf1, 0xf2, 0xf3}[rng.Intn(3)], 0
		}
		return out, "short"
	}
	if ep.suite.Kind == "aead" {
		out = append([]byte(nil), raw...)
		i := rng.Intn(len(out))
		out[i] ^= 1 << uint(rng.Intn(8))
		return out, "aead-bitflip"
	}
	plain := make([]byte, len(raw))
	ep.suite.RefDec(key32[:ep.suite.KeyLen], plain, raw)
	if crc32.ChecksumIEEE(plain[20:]) != binary.LittleEndian.Uint32(plain[16:]) {
		return nil, ""
	}
	if rng.Intn(4) == 0 || len(plain) == 20 {
		binary.LittleEndian.PutUint32(plain[16:], binary.LittleEndian.Uint32(plain[16:])^uint32(1+rng.Intn(1<<30)))
		kind = "stored-crc"
	} else {
		// burst of 1..32 bits starting at a random bit of the covered bytes: first and last bit of the burst flipped,
		// the ones in between at random (a burst of length L has its two end bits set by definition)
		nbits := (len(plain) - 20) * 8
		L := 1 + rng.Intn(32)
		if L > nbits {
			L = nbits
		}
		start := rng.Intn(nbits - L + 1)
		flip := func(bit int) { plain[20+bit/8] ^= 1 << uint(bit%8) }
		flip(start)
		if L > 1 {
			flip(start + L - 1)
		}
		for b := start + 1; b < start+L-1; b++ {
			if rng.Intn(2) == 0 {
				flip(b)
			}
		}
		kind = fmt.Sprintf("burst%d", L)
	}
	out = make([]byte, len(plain))
	ep.suite.RefEnc(key32[:ep.suite.KeyLen], out, plain)
	return out, kind
}

// injectCorrupt (C06): in a quiet moment, feed corrupted copies of captured datagrams to the listener (known peer and
// unknown source address) and to the dialled session; the deep digests before and after must be equal.
func injectCorrupt(w *World, sc Scenario, rng *rand.Rand, srv, cli *kcp.UDPSession, l *kcp.Listener) {
	w.Mon.mu.Lock()
	keep := w.Mon.Keep
	w.Mon.mu.Unlock()
	w.FlushWire()
	var c2s, s2c [][]byte
	// classify by flow using the observation log order is not kept with raw copies; use both directions by trial
	for _, raw := range keep {
		c2s = append(c2s, raw)
		s2c = append(s2c, raw)
	}
	if len(keep) == 0 {
		return
	}
	time.Sleep(3 * time.Second) // let acknowledgements and probes settle: nothing in flight, nothing to send
	for i := 0; i < sc.Corrupt; i++ {
		raw := keep[rng.Intn(len(keep))]
		target := rng.Intn(3) // 0: listener from the known peer, 1: listener from an unknown address, 2: dialled session
		var data []byte
		var kind string
		src, dst := cliAddr, srvAddr
		if target == 2 {
			src, dst = srvAddr, cliAddr
		}
		data, kind = w.Mon.makeCorrupt(rng, src, dst, raw)
		if data == nil {
			// the datagram belongs to the other flow (or there is no cipher)
			src, dst = dst, src
			data, kind = w.Mon.makeCorrupt(rng, src, dst, raw)
			if data == nil {
				continue
			}
			if target == 2 {
				target = 0
			} else {
				target = 2
			}
		}
		from := src
		if target == 1 {
			from = "10.9.9.9:999"
		}
		synctest.Wait()
		d0 := srv.VerifDigest() + "#" + cli.VerifDigest() + "#" + listenerDigest(l)
		c0 := kcp.DefaultSnmp.Copy().InCsumErrors
		w.Env.Hub.Inject(from, dst, data)
		synctest.Wait()
		d1 := srv.VerifDigest() + "#" + cli.VerifDigest() + "#" + listenerDigest(l)
		c1 := kcp.DefaultSnmp.Copy().InCsumErrors
		w.Ev(map[string]any{"ev": "corrupt", "kind": kind, "target": target, "len": len(data), "same": d0 == d1, "csum": int(c1 - c0),
			"short": kind == "short"})
	}
}

// injectGarbage (C05): while traffic flows, random byte strings and structure-aware mutations of captured datagrams
// (bit flips, truncation, extension, field splicing) arrive from the peer's address and from unknown addresses.
func injectGarbage(w *World, sc Scenario, rng *rand.Rand, getSrv func() *kcp.UDPSession, cli *kcp.UDPSession) {
	settledWnd := map[string]bool{}
	for i := 0; i < sc.Garbage; i++ {
		time.Sleep(time.Duration(1+rng.Intn(20)) * time.Millisecond)
		w.Mon.mu.Lock()
		var raw []byte
		if len(w.Mon.Keep) > 0 {
			raw = append([]byte(nil), w.Mon.Keep[rng.Intn(len(w.Mon.Keep))]...)
		}
		w.Mon.mu.Unlock()
		var data []byte
		switch k := rng.Intn(7); {
		case k == 0 || raw == nil:
			data = make([]byte, []int{0, 1, 5, 6, 7, 8, 11, 12, 19, 20, 23, 24, 25, 48, 200, 1400, 1500}[rng.Intn(17)])
			rng.Read(data)
		case k == 1:
			data = raw[:rng.Intn(len(raw)+1)]
		case k == 2:
			data = append(raw, make([]byte, rng.Intn(64))...)
		case k == 3:
			data = raw
			for j := 0; j < 1+rng.Intn(4); j++ {
				data[rng.Intn(len(data))] ^= 1 << uint(rng.Intn(8))
			}
		case k == 4 && len(raw) >= 8:
			data = raw
			binary.LittleEndian.PutUint32(data[rng.Intn(len(data)-3):], []uint32{0, 1, 0xffffffff, 0x7fffffff, 0xfffffffe, uint32(rng.Intn(70000))}[rng.Intn(6)])
		case k == 5 && len(raw) >= 8:
			data = raw
			binary.LittleEndian.PutUint16(data[rng.Intn(len(data)-1):], []uint16{0, 1, 2, 0xf1, 0xf2, 0xf3, 0xffff, uint16(len(raw)), uint16(len(raw) + 1)}[rng.Intn(9)])
		case k == 6 && len(raw) >= 8:
			// keep the frame consistent but move the FEC sequence id far away (same position in the data/parity cycle
			// for the common group sizes: the offset is a multiple of 2*3*5*13)
			data = raw
			seq := binary.LittleEndian.Uint32(data)
			binary.LittleEndian.PutUint32(data, seq+uint32(390*(1+rng.Intn(5000000))))
		default:
			data = raw
		}
		from, to := cliAddr, srvAddr
		switch rng.Intn(4) {
		case 0:
			from, to = srvAddr, cliAddr
		case 1:
			from = "10.8.8.8:888"
		}
		w.Env.Hub.Inject(from, to, data)
		if i%16 == 0 {
			if s := getSrv(); s != nil {
				st := s.VerifKCPState()
				sets := 0
				if f, ok := s.VerifFECState(); ok {
					sets = len(f.Sets)
				}
				_, _, outstanding, _ := kcp.VerifPoolReport()
				w.Ev(map[string]any{"ev": "bounds", "conn": "srv", "rcvq": len(st.RcvQueue), "rcvb": len(st.RcvBuf), "rcvwnd": effRcvWnd(&settledWnd, "srv", st),
					"sndb": len(st.SndBuf), "sndwnd": int(st.SndWnd), "sets": sets, "pool": outstanding, "rto": int(st.RxRto), "minrto": int(st.RxMinrto)})
			}
		}
	}
}

// sealOOB builds an out-of-band datagram as the session sending from src to dst would (README frame layout: FEC header with
// sequence id 0xffffffff and type 0xF3, 16-bit size = payload + 2, conversation id, message), sealed with the REFERENCE cipher.
func (m *Monitor) sealOOB(rng *rand.Rand, src, dst string, conv uint32, msg []byte) []byte {
	m.mu.Lock()
	ep := m.eps[flow(src, dst)]
	m.mu.Unlock()
	if ep == nil || ep.d == 0 {
		return nil
	}
	plain := make([]byte, 8+4+len(msg))
	binary.LittleEndian.PutUint32(plain, 0xffffffff)
	binary.LittleEndian.PutUint16(plain[4:], 0xf3)
	binary.LittleEndian.PutUint16(plain[6:], uint16(4+len(msg)+2))
	binary.LittleEndian.PutUint32(plain[8:], conv)
	copy(plain[12:], msg)
	switch ep.suite.Kind {
	case "nil":
		return plain
	case "aead":
		nonce := make([]byte, ep.aead.NonceSize())
		rng.Read(nonce)
		return ep.aead.Seal(nonce, nonce, plain, nil)
	default:
		pkt := make([]byte, 20+len(plain))
		rng.Read(pkt[:16])
		copy(pkt[20:], plain)
		binary.LittleEndian.PutUint32(pkt[16:], crc32.ChecksumIEEE(pkt[20:]))
		out := make([]byte, len(pkt))
		ep.suite.RefEnc(key32[:ep.suite.KeyLen], out, pkt)
		return out
	}
}

// injectForeignOOB (C19 "never to another session"): after the transfer, well-formed out-of-band datagrams that belong to ANOTHER
// conversation between the same two addresses (a previous incarnation on the same address pair, a second conversation sharing the
// socket) arrive at the dialled session. None of them may reach this conversation's handler (the handler logs "oobrecv" with
// known=false for a payload its peer never sent). The listener side is covered by the routing traces of C11: there a foreign
// conversation id on an out-of-band datagram starts a new conversation, like any first packet with sn = 0.
func injectForeignOOB(w *World, rng *rand.Rand, conv uint32) {
	for i := 0; i < 6; i++ {
		msg := []byte(fmt.Sprintf("foreign-oob-%d-%d", i, rng.Intn(1000)))
		if i%3 == 2 {
			msg = msg[:rng.Intn(3)] // very short messages, too
		}
		if dg := w.Mon.sealOOB(rng, srvAddr, cliAddr, conv+1+uint32(i), msg); dg != nil {
			w.Env.Hub.Inject(srvAddr, cliAddr, dg)
			w.Ev(map[string]any{"ev": "ooinject", "to": "cli", "conv": int(conv) + 1 + i, "len": len(msg)})
		}
	}
	time.Sleep(50 * time.Millisecond)
}
