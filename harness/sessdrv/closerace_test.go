package sessdrv

import (
	"fmt"
	"math/rand"
	"path/filepath"
	"sync/atomic"
	"testing"
	"testing/synctest"
	"time"

	kcp "github.com/xtaci/kcp-go/v5"

	"verifharness/simnet"
	"verifharness/vh"
)

// TestSessCloseRace (C15): the interleaving "a datagram has passed the receive loop's closed-check, then the application's Close
// runs to completion, then the datagram is processed by the closed session" is FORCED with the input hook as a scheduler gate:
// the hook at the entry of the FEC branch of kcpInput (before the session mutex is taken) blocks the receiving goroutine while
// the test closes that very session, then lets it go on. Lossy FEC traffic both ways makes sure the decoder holds shards of
// incomplete groups at that moment. Afterwards everything is closed; the pool sanitizer's report (a second Put of one
// acquisition, a write into a recycled buffer) and the leak scan are judged by the C15 monitors.
func TestSessCloseRace(t *testing.T) {
	out := vh.OutDir(t)
	rng := rand.New(rand.NewSource(vh.Seed()*104729 + 77))
	runs := vh.EnvInt("SESS_RUNS", 16)
	if runs > 60 {
		runs = 60 + runs/20
	}
	tf, err := vh.OpenTraceFile(filepath.Join(out, "sess_closerace.ndjson"))
	vh.Must(err)
	sum := &summary{}
	for r := 0; r < runs; r++ {
		cfg := SessCfg{Cipher: []string{"nil", "aes-128", "aes-gcm", "salsa20"}[rng.Intn(4)], D: []int{2, 3, 10}[rng.Intn(3)], P: []int{1, 2, 3}[rng.Intn(3)],
			Mtu: []int{0, 576, 1400}[rng.Intn(3)], SndWnd: 128, RcvWnd: 128, NoDelay: 1, Interval: 10, Resend: 2, Nc: 1,
			Stream: rng.Intn(2) == 0, WriteDelay: false, AckNoDelay: rng.Intn(2) == 0}
		target := []string{"cli", "srv"}[r%2]
		seed := rng.Int63()
		vh.Bubble(t, uint32(seed), 2, func(e *vh.Env) {
			rr := rand.New(rand.NewSource(seed))
			w := NewWorld(e)
			kcp.VerifPoolSanitize(true, 64, false)
			defer kcp.VerifPoolSanitize(false, 0, false)
			frng := rand.New(rand.NewSource(seed ^ 0x1234))
			e.Hub.SetPolicy(func(d *simnet.Dgram) simnet.Fate {
				if frng.Intn(100) < 15 {
					return simnet.Fate{}
				}
				return simnet.Fate{Delays: []time.Duration{time.Duration(frng.Intn(8)) * time.Millisecond}}
			})
			l, lconn := w.Listen(srvAddr, cfg)
			w.Mon.Register(srvAddr, cliAddr, 77, cfg, 0)
			cli, cconn := w.Dial(cliAddr, srvAddr, 77, cfg)
			cli.Write([]byte("hello"))
			srv, err := l.AcceptKCP()
			vh.Must(err)
			cfg.Apply(srv)
			sess := map[string]*kcp.UDPSession{"cli": cli, "srv": srv}
			// traffic both ways until the sessions are closed
			pump := func(s *kcp.UDPSession) {
				go func() {
					b := make([]byte, 1+rr.Intn(3000))
					for {
						s.SetWriteDeadline(time.Now().Add(50 * time.Millisecond))
						if _, err := s.Write(b); err != nil && !isTimeout(err) {
							return
						}
						time.Sleep(time.Duration(1+len(b)%5) * time.Millisecond)
					}
				}()
				go func() {
					b := make([]byte, 4096)
					for {
						s.SetReadDeadline(time.Now().Add(50 * time.Millisecond))
						if _, err := s.Read(b); err != nil && !isTimeout(err) {
							return
						}
					}
				}()
			}
			paced := r%3 == 2
			rateLimit := 0
			if paced {
				// variant: the output of the target is paced so that its post-processing goroutine lags behind with packets queued;
				// then its transport starts failing writes, and shortly afterwards the session is closed
				rateLimit = 8000 + rr.Intn(60000)
				sess[target].SetRateLimit(uint32(rateLimit))
			}
			pump(cli)
			pump(srv)
			time.Sleep(time.Duration(40+rr.Intn(300)) * time.Millisecond)
			if paced {
				if target == "cli" {
					cconn.FailWrites(fmt.Errorf("simulated write failure"))
				} else {
					lconn.FailWrites(fmt.Errorf("simulated write failure"))
				}
				time.Sleep(time.Duration(rr.Intn(400)) * time.Millisecond)
			}
			// the gate
			var armed, hit atomic.Bool
			reached := make(chan struct{})
			release := make(chan struct{})
			kcp.VerifSetSink(func(ev kcp.VerifEvent) {
				if ev.Kind != "s.in" || (ev.A != 5 && ev.A != 6) || !armed.Load() {
					return
				}
				if s, ok := ev.Ref.(*kcp.UDPSession); !ok || s != sess[target] {
					return
				}
				if hit.Swap(true) {
					return
				}
				close(reached)
				<-release
			})
			defer kcp.VerifSetSink(nil)
			armed.Store(!paced)
			gated := false
			select {
			case <-reached:
				gated = true
			case <-time.After(map[bool]time.Duration{false: 2 * time.Second, true: time.Millisecond}[paced]):
			}
			err2 := sess[target].Close() // runs to completion while the datagram waits at the gate
			close(release)
			armed.Store(false)
			for i := 0; i < 8; i++ {
				sess[target].SendOOB([]byte("late")) // out-of-band sends racing / following Close: one owner per buffer
			}
			w.Ev(map[string]any{"ev": "closerace", "target": target, "gated": gated, "paced": paced, "err": err2 != nil})
			time.Sleep(time.Duration(20+rr.Intn(200)) * time.Millisecond) // more traffic reaches the closed session's peer / listener
			for _, n := range []string{"cli", "srv"} {
				if n != target {
					sess[n].Close()
				}
			}
			l.Close()
			lconn.Close()
			cconn.Close()
			time.Sleep(12 * time.Second)
			if rateLimit > 0 {
				// a paced session still sends what was queued when it was closed: up to 2048 packets at the configured rate
				time.Sleep(time.Duration(2048*1500/rateLimit+1) * time.Second)
			}
			synctest.Wait()
			leaks := []string{}
			backlogLeaks := 0
			for _, g := range vh.KcpGoroutines() {
				if isSchedGoroutine(g) {
					continue
				}
				if contains(g, fmt.Sprintf("%p", cli)) || contains(g, fmt.Sprintf("%p", srv)) || contains(g, "(*Listener)") {
					leaks = append(leaks, firstKcpFrame(g))
				} else {
					backlogLeaks++
				}
			}
			unclaimed := 0
			l.SetReadDeadline(time.Time{})
			for i := 0; i < 100000 && l.VerifAcceptLen() > 0; i++ {
				if s, err := l.AcceptKCP(); err == nil && s != nil {
					s.Close()
					unclaimed++
				}
			}
			if unclaimed > 0 {
				time.Sleep(12 * time.Second)
				synctest.Wait()
			}
			gets, puts, outstanding, anomalies := kcp.VerifPoolReport()
			if anomalies == nil {
				anomalies = []string{}
			}
			w.Ev(map[string]any{"ev": "teardown", "leaks": leaks, "backlog_leaks": backlogLeaks, "unclaimed": unclaimed, "pool_gets": gets, "pool_puts": puts,
				"pool_outstanding": outstanding, "pool_anomalies": anomalies})
			tf.WriteTrace(map[string]any{"cfg": cfg, "label": fmt.Sprintf("closerace%d", r), "seed": seed, "loss": 15, "dup": 0, "delay": 8,
				"closemid": true, "peerfec": [2]int{0, 0}, "faulty": false, "clean": false, "paced": paced}, w.Tr)
			sum.Runs++
			sum.Events += w.Tr.Len()
			if gated || paced {
				sum.Nontrivial++
			}
		})
	}
	vh.Must(tf.Close())
	sum.Traces, sum.Lines = tf.N, tf.L
	vh.WriteJSON(filepath.Join(out, "sess_closerace.json"), sum)
}
