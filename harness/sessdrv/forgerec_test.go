package sessdrv

import (
	"encoding/binary"
	"time"

	"github.com/klauspost/reedsolomon"

	"verifharness/simnet"
	"verifharness/vh"
)

// recoveryForger is an on-path adversary against a session without a cipher (C05: "a valid datagram with any bytes altered"). The
// FEC size prefix of a packet that arrives is checked by the receiver -- but the size prefix of a packet that the receiver
// RECONSTRUCTS is computed from the other packets of the group. For every fourth FEC group the forger drops the group's last data
// packet and alters the first two payload bytes of the group's first parity packet so that the reconstructed packet's size prefix
// becomes a chosen boundary value: 0, 1 (below the 2 bytes of the prefix itself), 2, 3, around a KCP header, the true size +/- 1,
// more than the packet holds, 65535. The receiver must reject or truncate, never crash; the stream must stay intact (the dropped
// packet's segments are retransmitted by the ARQ layer).
type recoveryForger struct {
	on      bool
	d, p    int
	enc     reedsolomon.Encoder
	groups  map[uint32]map[int][]byte // group -> position -> bytes from the size prefix on
	attacks int
	victims int
	targets int
}

const forgerMaxVictims = 60

func newRecoveryForger(sc Scenario) *recoveryForger {
	f := &recoveryForger{on: sc.ForgeRec && sc.Cfg.Cipher == "nil" && sc.Cfg.D > 0, d: sc.Cfg.D, p: sc.Cfg.P, groups: map[uint32]map[int][]byte{}}
	if f.on {
		enc, err := reedsolomon.New(f.d, f.p)
		vh.Must(err)
		f.enc = enc
	}
	return f
}

// solve finds the parity byte that makes the reconstructed byte at the missing position equal to want (the code is linear and
// byte-wise: one-byte-wide shards, 256 candidates).
func (f *recoveryForger) solve(present map[int]byte, missing int, want byte) (byte, bool) {
	for v := 0; v < 256; v++ {
		shards := make([][]byte, f.d+f.p)
		for i := 0; i < f.d; i++ {
			if i != missing {
				shards[i] = []byte{present[i]}
			}
		}
		shards[f.d] = []byte{byte(v)}
		if err := f.enc.ReconstructData(shards); err != nil || shards[missing] == nil {
			return 0, false
		}
		if shards[missing][0] == want {
			return byte(v), true
		}
	}
	return 0, false
}

func (f *recoveryForger) fate(d *simnet.Dgram) (simnet.Fate, bool) {
	if !f.on || d.Src != cliAddr || d.Dst != srvAddr || len(d.Data) < 8 {
		return simnet.Fate{}, false
	}
	if f.victims >= forgerMaxVictims {
		// the adversary gives up after a while: a periodic dropper that never stops can stay in step with a sender for ever
		// (observed under one goroutine schedule: d=1, every fourth group attacked, four segments outstanding that are retransmitted
		// together once per backed-off RTO -- the first of the four is always the victim, and as it follows a pause its group has no
		// parity, so the run made no progress for 400 s), and the properties promise completion only once the faults have ended (C02)
		return simnet.Fate{}, false
	}
	seq := binary.LittleEndian.Uint32(d.Data)
	typ := binary.LittleEndian.Uint16(d.Data[4:])
	n := uint32(f.d + f.p)
	g, pos := seq/n, int(seq%n)
	if typ != 0xf1 && typ != 0xf2 {
		return simnet.Fate{}, false
	}
	if g%4 != 1 {
		return simnet.Fate{}, false
	}
	if f.groups[g] == nil {
		f.groups[g] = map[int][]byte{}
	}
	victim := f.d - 1
	if typ == 0xf1 {
		f.groups[g][pos] = append([]byte(nil), d.Data[6:]...)
		if pos == victim {
			f.victims++
			return simnet.Fate{}, true // the victim is lost
		}
		return simnet.Fate{Delays: []time.Duration{0}}, true
	}
	if pos != f.d || len(f.groups[g]) != f.d {
		return simnet.Fate{}, true // further parity packets of an attacked group are lost, too (the first one completes the group)
	}
	trueSize := int(binary.LittleEndian.Uint16(f.groups[g][victim]))
	cands := []int{0, 1, 2, 3, 23, 24, 25, 26, trueSize - 1, trueSize + 1, len(d.Data) - 6 + 1, 65535, 256, 257}
	want := cands[f.targets%len(cands)]
	f.targets++
	if want < 0 || want > 65535 {
		want = 0
	}
	var forged [2]byte
	for b := 0; b < 2; b++ {
		present := map[int]byte{}
		for i := 0; i < f.d; i++ {
			if i != victim {
				sh := f.groups[g][i]
				if b < len(sh) {
					present[i] = sh[b]
				}
			}
		}
		v, ok := f.solve(present, victim, byte(want>>(8*uint(b))))
		if !ok {
			return simnet.Fate{Delays: []time.Duration{0}}, true
		}
		forged[b] = v
	}
	f.attacks++
	delete(f.groups, g)
	return simnet.Fate{Delays: []time.Duration{0}, Mutate: func(b []byte) []byte {
		b[6], b[7] = forged[0], forged[1]
		return b
	}}, true
}
