package sessdrv

import (
	"fmt"
	"math/rand"
	"path/filepath"
	"testing"
	"testing/synctest"
	"time"

	kcp "github.com/xtaci/kcp-go/v5"

	"verifharness/simnet"
	"verifharness/vh"
)

// TestSessDeadLink (C15): Close after a long silence. The peer goes away (the network is cut for good, or the peer's session and
// listener are closed) while the session still has unacknowledged data; the session is left alone until it has retransmitted one
// segment twenty times and more (the core then flags the link as dead) -- minutes of virtual time --, and only then does the
// application close it. In half of the runs the dialled session OWNS its transport, as the ones made by DialWithOptions do: the
// application has no handle on the socket, Close of the session is what must release it and end the receive loop. Lifecycle.tla
// has this as Close(owned) after any number of Update steps; the other session-level drivers never let a session idle that long.
func TestSessDeadLink(t *testing.T) {
	out := vh.OutDir(t)
	rng := rand.New(rand.NewSource(vh.Seed()*15485863 + 5))
	runs := vh.EnvInt("SESS_RUNS", 16)
	if runs > 24 {
		runs = 24 + runs/20
	}
	tf, err := vh.OpenTraceFile(filepath.Join(out, "sess_deadlink.ndjson"))
	vh.Must(err)
	sum := &summary{}
	for r := 0; r < runs; r++ {
		cfg := randSessCfg(rng)
		owned := r%2 == 0
		peerCloses := (r/2)%2 == 0
		idle := time.Duration([]int{4, 45, 90}[(r/4)%3]) * time.Minute
		seed := rng.Int63()
		vh.Bubble(t, uint32(seed), 2, func(e *vh.Env) {
			w := NewWorld(e)
			w.Owned = owned
			kcp.VerifPoolSanitize(true, 64, false)
			defer kcp.VerifPoolSanitize(false, 0, false)
			l, lconn := w.Listen(srvAddr, cfg)
			w.Mon.Register(srvAddr, cliAddr, 77, cfg, 0)
			cli, cconn := w.Dial(cliAddr, srvAddr, 77, cfg)
			cli.Write([]byte("hello"))
			srv, err := l.AcceptKCP()
			vh.Must(err)
			cfg.Apply(srv)
			go func() {
				b := make([]byte, 4096)
				for {
					if _, err := srv.Read(b); err != nil {
						return
					}
				}
			}()
			time.Sleep(time.Second)
			// the peer goes away
			if peerCloses {
				srv.Close()
				l.Close()
				if !owned {
					lconn.Close()
				}
			} else {
				e.Hub.SetPolicy(func(d *simnet.Dgram) simnet.Fate { return simnet.Fate{} })
			}
			// unacknowledged data
			cli.SetWriteDeadline(time.Now().Add(time.Second))
			for i := 0; i < 4; i++ {
				if _, err := cli.Write(make([]byte, 1+rng.Intn(3000))); err != nil {
					break
				}
			}
			time.Sleep(idle)
			synctest.Wait()
			st := cli.VerifKCPState()
			maxXmit := 0
			for _, sg := range st.SndBuf {
				if int(sg.Xmit) > maxXmit {
					maxXmit = int(sg.Xmit)
				}
			}
			err1 := cli.Close()
			w.Ev(map[string]any{"ev": "close", "conn": "cli", "err": err1 != nil, "owned": owned, "xmit": maxXmit, "idle_min": int(idle / time.Minute)})
			if !owned {
				cconn.Close() // the application's own socket
			}
			if !peerCloses {
				srv.Close()
				l.Close()
				if !owned {
					lconn.Close()
				}
			}
			err2 := cli.Close()
			_, werr := cli.Write([]byte("x"))
			w.Ev(map[string]any{"ev": "afterclose", "conn": "cli", "close2_err": err2 != nil, "write_err": werr != nil})
			time.Sleep(12 * time.Second)
			synctest.Wait()
			leaks := []string{}
			backlogLeaks := 0
			for _, g := range vh.KcpGoroutines() {
				if isSchedGoroutine(g) {
					continue
				}
				if contains(g, fmt.Sprintf("%p", cli)) || contains(g, fmt.Sprintf("%p", srv)) || contains(g, "(*Listener)") {
					leaks = append(leaks, firstKcpFrame(g))
				} else {
					backlogLeaks++
				}
			}
			// (whatever is still alive is released through the transports so that the bubble can end)
			cconn.Close()
			lconn.Close()
			unclaimed := 0
			l.SetReadDeadline(time.Time{})
			for i := 0; i < 100000 && l.VerifAcceptLen() > 0; i++ {
				if s, err := l.AcceptKCP(); err == nil && s != nil {
					s.Close()
					unclaimed++
				}
			}
			time.Sleep(12 * time.Second)
			synctest.Wait()
			gets, puts, outstanding, anomalies := kcp.VerifPoolReport()
			if anomalies == nil {
				anomalies = []string{}
			}
			w.Ev(map[string]any{"ev": "teardown", "leaks": leaks, "backlog_leaks": backlogLeaks, "unclaimed": unclaimed, "pool_gets": gets, "pool_puts": puts,
				"pool_outstanding": outstanding, "pool_anomalies": anomalies})
			tf.WriteTrace(map[string]any{"cfg": cfg, "label": fmt.Sprintf("deadlink%d", r), "seed": seed, "loss": 0, "dup": 0, "delay": 0,
				"closemid": true, "peerfec": [2]int{0, 0}, "faulty": false, "clean": false, "paced": false}, w.Tr)
			sum.Runs++
			sum.Events += w.Tr.Len()
			if maxXmit >= 20 {
				sum.Nontrivial++
			}
		})
	}
	vh.Must(tf.Close())
	sum.Traces, sum.Lines = tf.N, tf.L
	vh.WriteJSON(filepath.Join(out, "sess_deadlink.json"), sum)
}
