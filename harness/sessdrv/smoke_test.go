package sessdrv

import (
	"io"
	"math/rand"
	"testing"
	"testing/synctest"
	"time"

	kcp "github.com/xtaci/kcp-go/v5"

	"verifharness/simnet"
	"verifharness/vh"
)

func TestSmoke(t *testing.T) {
	vh.Bubble(t, 0xFFFFF000, 2, func(e *vh.Env) {
		rng := rand.New(rand.NewSource(1))
		e.Hub.SetPolicy(func(d *simnet.Dgram) simnet.Fate {
			if rng.Intn(100) < 20 {
				return simnet.Fate{}
			}
			return simnet.Fate{Delays: []time.Duration{time.Duration(rng.Intn(30)) * time.Millisecond}}
		})
		sc, _ := e.Hub.Listen("10.0.0.1:1000")
		cc, _ := e.Hub.Listen("10.0.0.2:2000")
		block, _ := kcp.NewAESBlockCrypt(make([]byte, 16))
		l, err := kcp.ServeConn(block, 3, 2, sc)
		vh.Must(err)
		c, err := kcp.NewConn3(7, sc.LocalAddr(), block, 3, 2, cc)
		vh.Must(err)
		const N = 200000
		go func() {
			buf := make([]byte, N)
			vh.Fill(buf, 1, 0)
			c.Write(buf)
		}()
		s, err := l.AcceptKCP()
		vh.Must(err)
		got := make([]byte, N)
		_, err = io.ReadFull(s, got)
		vh.Must(err)
		if !vh.Check(got, 1, 0) {
			t.Fatal("content mismatch")
		}
		t.Logf("virtual ms: %d", e.NowMs())
		c.Close()
		s.Close()
		l.Close()
		sc.Close()
		cc.Close()
		synctest.Wait()
		if g := vh.KcpGoroutines(); len(g) > 0 {
			t.Logf("remaining: %d\n%s", len(g), g[0])
		}
	})
}
