// Package sessdrv runs real kcp-go sessions and listeners inside a synctest bubble over the in-memory network
// (simnet) and records session-level traces: every datagram at the WriteTo boundary decoded by the independent
// parser (wire) with the reference ciphers (refcrypt), every application call with its virtual time and result,
// out-of-band messages, MTU changes, closes, leak and pool-sanitizer reports. TLC judges the traces with the
// SessObs monitors (C01 C05 C06 C09 C10 C11 C13 C15 C19 at session level).
package sessdrv

import (
	"bytes"
	"crypto/cipher"
	"encoding/binary"
	"fmt"
	"hash/crc32"
	"net"
	"sync"
	"time"

	"github.com/klauspost/reedsolomon"
	kcp "github.com/xtaci/kcp-go/v5"

	"verifharness/refcrypt"
	"verifharness/simnet"
	"verifharness/vh"
	"verifharness/wire"
)

// SessCfg is the configuration applied to a session (both ends unless a scenario says otherwise).
type SessCfg struct {
	Cipher     string `json:"cipher"`
	D          int    `json:"d"`
	P          int    `json:"p"`
	Mtu        int    `json:"mtu"`
	SndWnd     int    `json:"sndwnd"`
	RcvWnd     int    `json:"rcvwnd"`
	NoDelay    int    `json:"nodelay"`
	Interval   int    `json:"interval"`
	Resend     int    `json:"resend"`
	Nc         int    `json:"nc"`
	Stream     bool   `json:"stream"`
	WriteDelay bool   `json:"writedelay"`
	AckNoDelay bool   `json:"acknodelay"`
}

func (c SessCfg) Apply(s *kcp.UDPSession) {
	s.SetWindowSize(c.SndWnd, c.RcvWnd)
	if c.SndWnd%8 == 0 {
		s.SetNoDelay(1-c.NoDelay, 50, 1, 1-c.Nc) // reconfigured: first the opposite mode, then the configuration of the run
	}
	s.SetNoDelay(c.NoDelay, c.Interval, c.Resend, c.Nc)
	s.SetStreamMode(c.Stream)
	s.SetWriteDelay(c.WriteDelay)
	s.SetACKNoDelay(c.AckNoDelay)
	if c.Mtu > 0 {
		s.SetMtu(c.Mtu)
	}
}

var key32 = []byte("0123456789abcdef0123456789abcdef")

// Crypt builds the library cipher for the configuration (nil for no cipher) and the reference suite.
func Crypt(name string) (kcp.BlockCrypt, *refcrypt.Suite) {
	su := refcrypt.ByName(name)
	if su.Kind == "nil" {
		return nil, su
	}
	b, err := su.New(key32[:su.KeyLen])
	vh.Must(err)
	return b, su
}

// ---------------------------------------------------------------------------
// wire observation
// ---------------------------------------------------------------------------

// DgObs is what the independent decoder found in one datagram.
type DgObs struct {
	Ev       string `json:"ev"` // "dg"
	ID       int    `json:"id"`
	Src      string `json:"src"`
	Dst      string `json:"dst"`
	Len      int    `json:"len"`
	T        int64  `json:"t"`
	Mtu      int    `json:"mtu"`      // the sender's configured session MTU at this moment (0 = unknown sender)
	Steady   bool   `json:"steady"`   // FEC data: no SetMtu has touched the flow since the first data packet of this group (see SessObs!closes)
	OpenPar  bool   `json:"openparity"` // parity above the MTU in force whose group contains a data packet sent under a larger, earlier MTU
	CryptOK  bool   `json:"cryptok"`  // decrypts and passes CRC32 / AEAD tag under the reference cipher
	NonceNew bool   `json:"noncenew"` // the nonce was not used by an earlier datagram of this run
	BytesNew bool   `json:"bytesnew"` // no earlier datagram of this run has identical bytes
	FecOn    bool   `json:"fecon"`
	FecType  int    `json:"fectype"` // 0xf1 / 0xf2 / 0xf3, 0 without FEC
	FecSeq   int64  `json:"fecseq"`  // relative to the start of the group of the sender's first id, modulo the wrap value (OOB: -1)
	FecPos   int    `json:"fecpos"`  // absolute id modulo (d+p): the position in the data/parity cycle
	FecInRng bool   `json:"fecinrange"` // absolute id below the wrap value floor((2^32-1)/(d+p))*(d+p), as README documents
	SizeOK   bool   `json:"sizeok"`  // data/OOB: size field = payload+2 and nothing follows the payload
	Tiles    bool   `json:"tiles"`   // the payload is a sequence of 24-byte headers each followed by exactly len bytes
	ConvOK   bool   `json:"convok"`  // every segment carries the sender's conversation id
	ParityOK bool   `json:"parityok"` // parity: equals the reference Reed-Solomon code of the group's padded size-prefixed payloads
	Segs     []SegObs `json:"segs"`
	OOBLen   int    `json:"ooblen"` // OOB: payload length (after the conversation id), else -1
	FD       int    `json:"fd"`     // the sender's FEC ratio
	FP       int    `json:"fp"`
	Injected bool   `json:"injected"`
}

type SegObs struct {
	Cmd int   `json:"cmd"`
	Frg int   `json:"frg"`
	Wnd int   `json:"wnd"`
	Sn  int64 `json:"sn"`
	Una int64 `json:"una"`
	Len int   `json:"len"`
}

// endpointInfo: what the monitor knows about a sender.
type endpointInfo struct {
	conv      uint32
	suite     *refcrypt.Suite
	aead      cipher.AEAD
	d, p      int
	mtu       int
	prevMtu   int   // largest MTU in force at any moment of the (virtual) instant mtuAt: honoured for datagrams built at that instant
	mtuAt     int64 // before a SetMtu returned and handed to the transport, by another goroutine, just after
	unknownMtu bool            // see ForgetMtu
	pendMtu   int              // a SetMtu call is in progress with this value (0 = none): until it returns either MTU may be in force
	groupMtu  map[int64]int    // FEC group (first id) -> largest MTU in force when one of its data packets was sent
	groupT0   map[int64]int64  // FEC group (first id) -> virtual time of its first data packet on the wire
	mtuTouch  int64            // virtual time of the latest BeginSetMtu / SetMtu / EndSetMtu / ForgetMtu on the flow (-1: never)
	fecBase   int64 // first FEC id seen
	fecSeen   bool
	group     map[int64][]byte // current groups' data packets (from the size field on), by fec seq
	snBase    uint32
	stream    map[uint32][]byte // reassembly: sn -> payload (first transmission wins; all must agree)
	streamBad bool
	resent    int // data segments seen on the wire more than once
	frgOf     map[uint32]uint8
}

// Monitor observes every datagram on the hub.
type Monitor struct {
	mu      sync.Mutex
	start   time.Time
	eps     map[string]*endpointInfo // by source address
	nonces  map[string]bool
	seen    map[string]bool
	Obs     []DgObs
	Keep    [][]byte // raw copies (for corruption / replay experiments)
	KeepRaw bool
}

func NewMonitor(start time.Time) *Monitor {
	return &Monitor{start: start, eps: map[string]*endpointInfo{}, nonces: map[string]bool{}, seen: map[string]bool{}}
}

func flow(src, dst string) string { return src + ">" + dst }

// Resent: how many times a data segment that had been on the wire before was sent again, over all registered flows.
func (m *Monitor) Resent() int {
	m.mu.Lock()
	defer m.mu.Unlock()
	n := 0
	for _, ep := range m.eps {
		n += ep.resent
	}
	return n
}

// relSeq: the id relative to the group start of the first id seen on the flow, counted modulo the wrap value (so that it keeps
// growing across one wrap), its position in the data/parity cycle and whether it lies in the documented range.
func (ep *endpointInfo) relSeq(seq uint32) (rel int64, pos int, inRange bool) {
	n := int64(ep.d + ep.p)
	paws := int64(0xffffffff) / n * n
	rel = int64(seq) - ep.fecBase
	if rel < 0 {
		rel += paws
	}
	return rel, int(int64(seq) % n), int64(seq) < paws
}

// Register tells the monitor which configuration the session sending from src to dst uses.
func (m *Monitor) Register(src, dst string, conv uint32, cfg SessCfg, snBase uint32) {
	addr := flow(src, dst)
	m.mu.Lock()
	defer m.mu.Unlock()
	_, su := Crypt(cfg.Cipher)
	ep := &endpointInfo{conv: conv, suite: su, d: cfg.D, p: cfg.P, mtu: cfg.Mtu, group: map[int64][]byte{}, groupMtu: map[int64]int{}, groupT0: map[int64]int64{}, mtuTouch: -1, snBase: snBase,
		stream: map[uint32][]byte{}, frgOf: map[uint32]uint8{}}
	if ep.mtu == 0 {
		ep.mtu = 1400
	}
	if su.Kind == "aead" {
		a, err := su.AEAD(key32[:su.KeyLen])
		vh.Must(err)
		ep.aead = a
	}
	m.eps[addr] = ep
}

// BeginSetMtu is called just before UDPSession.SetMtu: while the call is in progress the library's own goroutines may already
// build datagrams under the new value, so until SetMtu (accepted) or EndSetMtu (refused) the larger of the two is in force.
func (m *Monitor) BeginSetMtu(src, dst string, mtu int) {
	m.mu.Lock()
	if ep := m.eps[flow(src, dst)]; ep != nil {
		if mtu > 1500 {
			mtu = 1500
		}
		ep.pendMtu = mtu
		ep.mtuTouch = int64(time.Since(m.start) / time.Millisecond)
	}
	m.mu.Unlock()
}

// ForgetMtu: from now on datagrams from src to dst may come from a session the application never configured (the listener
// creates a fresh one, with the default MTU, for a peer that keeps transmitting to a session the application has closed).
func (m *Monitor) ForgetMtu(src, dst string) {
	m.mu.Lock()
	if ep := m.eps[flow(src, dst)]; ep != nil {
		ep.mtu, ep.prevMtu, ep.pendMtu, ep.unknownMtu = 0, 0, 0, true
		ep.mtuTouch = int64(time.Since(m.start) / time.Millisecond)
	}
	m.mu.Unlock()
}

func (m *Monitor) EndSetMtu(src, dst string) {
	m.mu.Lock()
	if ep := m.eps[flow(src, dst)]; ep != nil {
		ep.pendMtu = 0
		ep.mtuTouch = int64(time.Since(m.start) / time.Millisecond)
	}
	m.mu.Unlock()
}

func (m *Monitor) SetMtu(src, dst string, mtu int) {
	m.mu.Lock()
	if ep := m.eps[flow(src, dst)]; ep != nil {
		if mtu > 1500 {
			mtu = 1500
		}
		now := int64(time.Since(m.start) / time.Millisecond)
		if ep.mtuAt != now || ep.prevMtu < ep.mtu { // (several changes may happen at one instant)
			ep.prevMtu = ep.mtu
		}
		ep.mtuAt = now
		ep.mtu = mtu
		ep.pendMtu = 0
		ep.mtuTouch = now
	}
	m.mu.Unlock()
}

// Decrypt applies the reference cipher of the sender at src; ok=false when integrity fails or the packet is too short.
func (m *Monitor) decrypt(ep *endpointInfo, data []byte) (plain []byte, nonce []byte, ok bool) {
	switch ep.suite.Kind {
	case "nil":
		return data, nil, true
	case "aead":
		ns := ep.aead.NonceSize()
		if len(data) < ns+ep.aead.Overhead() {
			return nil, nil, false
		}
		pt, err := ep.aead.Open(nil, data[:ns], data[ns:], nil)
		if err != nil {
			return nil, data[:ns], false
		}
		return pt, data[:ns], true
	default:
		if len(data) < 20 {
			return nil, nil, false
		}
		out := make([]byte, len(data))
		ep.suite.RefDec(key32[:ep.suite.KeyLen], out, data)
		sum := crc32.ChecksumIEEE(out[20:])
		if sum != binary.LittleEndian.Uint32(out[16:]) {
			return nil, out[:16], false
		}
		return out[20:], out[:16], true
	}
}

// Observe is installed as hub.OnWrite (called with the hub mutex held).
func (m *Monitor) Observe(d *simnet.Dgram) {
	m.mu.Lock()
	defer m.mu.Unlock()
	o := DgObs{Ev: "dg", ID: d.ID, Src: d.Src, Dst: d.Dst, Len: len(d.Data), T: int64(time.Since(m.start) / time.Millisecond), OOBLen: -1, Segs: []SegObs{}}
	if m.KeepRaw {
		m.Keep = append(m.Keep, append([]byte(nil), d.Data...))
	}
	key := string(d.Data)
	o.BytesNew = !m.seen[key]
	m.seen[key] = true
	ep := m.eps[flow(d.Src, d.Dst)]
	if ep == nil {
		o.Injected = true
		m.Obs = append(m.Obs, o)
		return
	}
	o.Mtu = ep.mtu
	if o.T == ep.mtuAt && ep.prevMtu > o.Mtu {
		o.Mtu = ep.prevMtu // built before SetMtu returned, sent at the same (virtual) instant
	}
	if ep.pendMtu > o.Mtu {
		o.Mtu = ep.pendMtu // SetMtu is executing right now
	}
	if ep.unknownMtu {
		o.Mtu = 0
	}
	o.FD, o.FP = ep.d, ep.p
	plain, nonce, ok := m.decrypt(ep, d.Data)
	o.CryptOK = ok
	if nonce != nil {
		nk := string(nonce)
		o.NonceNew = !m.nonces[nk]
		m.nonces[nk] = true
	} else {
		o.NonceNew = true
	}
	if !ok {
		if vh.EnvInt("SESS_DEBUG", 0) == 1 {
			fmt.Printf("DEBUG undecryptable dg id=%d %s>%s len=%d t=%d suite=%s mtu=%d\n", d.ID, d.Src, d.Dst, len(d.Data), o.T, ep.suite.Name, ep.mtu)
		}
		m.Obs = append(m.Obs, o)
		return
	}
	body := plain
	if ep.d > 0 {
		o.FecOn = true
		f, err := wire.ParseFec(plain)
		if err != nil {
			m.Obs = append(m.Obs, o)
			return
		}
		o.FecType = int(f.Type)
		switch f.Type {
		case wire.TypeOOB:
			o.FecSeq = -1
			o.SizeOK = len(f.Padding) == 0 && int(f.Size) == len(f.Payload)+2
			if len(f.Payload) >= 4 {
				o.ConvOK = binary.LittleEndian.Uint32(f.Payload) == ep.conv
				o.OOBLen = len(f.Payload) - 4
			}
			o.Tiles = true
			o.ParityOK = true
			m.Obs = append(m.Obs, o)
			return
		case wire.TypeData:
			if !ep.fecSeen {
				ep.fecSeen = true
				ep.fecBase = int64(f.Seqid) / int64(ep.d+ep.p) * int64(ep.d+ep.p)
			}
			o.FecSeq, o.FecPos, o.FecInRng = ep.relSeq(f.Seqid)
			o.SizeOK = len(f.Padding) == 0 && int(f.Size) == len(f.Payload)+2
			ep.group[int64(f.Seqid)] = append([]byte(nil), plain[wire.FecHeader:]...)
			g := int64(f.Seqid) / int64(ep.d+ep.p) * int64(ep.d+ep.p)
			if o.Mtu > ep.groupMtu[g] {
				ep.groupMtu[g] = o.Mtu
			}
			if _, ok := ep.groupT0[g]; !ok {
				ep.groupT0[g] = o.T
			}
			o.Steady = !ep.unknownMtu && ep.pendMtu == 0 && ep.mtuTouch < ep.groupT0[g]
			o.ParityOK = true
			body = f.Payload
		case wire.TypeParity:
			if !ep.fecSeen {
				ep.fecSeen = true
				ep.fecBase = int64(f.Seqid) / int64(ep.d+ep.p) * int64(ep.d+ep.p)
			}
			o.FecSeq, o.FecPos, o.FecInRng = ep.relSeq(f.Seqid)
			o.SizeOK = true
			o.Tiles = true
			o.ConvOK = true
			o.ParityOK = m.checkParity(ep, int64(f.Seqid), f.Payload)
			if g := int64(f.Seqid) / int64(ep.d+ep.p) * int64(ep.d+ep.p); o.Len > o.Mtu && o.Len <= ep.groupMtu[g] {
				o.OpenPar = true // the group was open when a smaller MTU was accepted: parity is as long as its longest data packet
			}
			m.Obs = append(m.Obs, o)
			return
		}
	} else {
		o.SizeOK = true
		o.ParityOK = true
	}
	segs, err := wire.ParseSegments(body)
	o.Tiles = err == nil && len(segs) > 0
	o.ConvOK = true
	for _, s := range segs {
		if s.Conv != ep.conv {
			o.ConvOK = false
		}
		so := SegObs{Cmd: int(s.Cmd), Frg: int(s.Frg), Wnd: int(s.Wnd), Len: int(s.Len), Sn: int64(int32(s.Sn - ep.snBase)), Una: int64(s.Una)}
		if s.Cmd != wire.CmdPush {
			so.Sn = int64(s.Sn)
		}
		o.Segs = append(o.Segs, so)
		if s.Cmd == wire.CmdPush {
			if old, ok := ep.stream[s.Sn]; ok {
				ep.resent++ // this sequence number has been on the wire before
				if !bytes.Equal(old, s.Payload) {
					ep.streamBad = true // a retransmission carrying different bytes
				}
			} else {
				ep.stream[s.Sn] = append([]byte(nil), s.Payload...)
				ep.frgOf[s.Sn] = s.Frg
			}
		}
	}
	m.Obs = append(m.Obs, o)
}

// checkParity recomputes the Reed-Solomon parity of the group that the parity packet with id `seq` belongs to.
func (m *Monitor) checkParity(ep *endpointInfo, seq int64, payload []byte) bool {
	n := int64(ep.d + ep.p)
	first := seq / n * n
	idx := int(seq - first)
	if idx < ep.d {
		return false
	}
	shards := make([][]byte, ep.d+ep.p)
	for i := 0; i < ep.d; i++ {
		dp, ok := ep.group[first+int64(i)]
		if !ok {
			return false // parity without its data packets on the wire
		}
		if len(dp) > len(payload) {
			return false // parity shorter than a data packet of its group
		}
		sh := make([]byte, len(payload))
		copy(sh, dp)
		shards[i] = sh
	}
	for i := ep.d; i < ep.d+ep.p; i++ {
		shards[i] = make([]byte, len(payload))
	}
	enc, err := reedsolomon.New(ep.d, ep.p)
	if err != nil {
		return false
	}
	if err := enc.Encode(shards); err != nil {
		return false
	}
	return bytes.Equal(shards[idx], payload)
}

// Reassemble rebuilds the byte stream sent from addr from the wire alone (sn order, payloads concatenated) and
// reports how many bytes form a contiguous prefix and whether retransmissions were byte-identical.
func (m *Monitor) Reassemble(src, dst string) (stream []byte, consistent bool) {
	m.mu.Lock()
	defer m.mu.Unlock()
	ep := m.eps[flow(src, dst)]
	if ep == nil {
		return nil, false
	}
	for sn := ep.snBase; ; sn++ {
		p, ok := ep.stream[sn]
		if !ok {
			break
		}
		stream = append(stream, p...)
	}
	return stream, !ep.streamBad
}

// ---------------------------------------------------------------------------
// world: a listener, clients, the monitor, the trace
// ---------------------------------------------------------------------------

type World struct {
	Owned bool
	Env  *vh.Env
	Mon  *Monitor
	Tr   *vh.Trace
	mu   sync.Mutex
	seq  int
}

func (w *World) Now() int64 { return w.Env.NowMs() }

// Ev appends an application-level event.
func (w *World) Ev(ev map[string]any) {
	ev["t"] = w.Now()
	w.Tr.Add(ev)
}

func NewWorld(e *vh.Env) *World {
	w := &World{Env: e, Mon: NewMonitor(e.Start), Tr: &vh.Trace{}}
	e.Hub.OnWrite = w.Mon.Observe
	return w
}

// FlushWire moves the datagram observations recorded so far into the trace (in WriteTo order).
func (w *World) FlushWire() {
	w.Mon.mu.Lock()
	obs := w.Mon.Obs
	w.Mon.Obs = nil
	w.Mon.mu.Unlock()
	for i := range obs {
		o := obs[i]
		w.Tr.Add(map[string]any{"ev": "dg", "id": o.ID, "src": o.Src, "dst": o.Dst, "len": o.Len, "t": o.T, "mtu": o.Mtu, "steady": o.Steady, "openparity": o.OpenPar, "cryptok": o.CryptOK,
			"noncenew": o.NonceNew, "bytesnew": o.BytesNew, "fecon": o.FecOn, "fectype": o.FecType, "fecseq": o.FecSeq, "fecpos": o.FecPos, "fecinrange": o.FecInRng, "sizeok": o.SizeOK,
			"tiles": o.Tiles, "convok": o.ConvOK, "parityok": o.ParityOK, "segs": o.Segs, "ooblen": o.OOBLen, "injected": o.Injected, "fd": o.FD, "fp": o.FP})
	}
}

// Dial creates a client session on a fresh simnet endpoint.
// Owned: the sessions / listeners created from now on own their transports, as the ones made by DialWithOptions / ListenWithOptions
// do (Close of the dialled session / of the listener then closes the transport as well).
func (w *World) Dial(local, remote string, conv uint32, cfg SessCfg) (*kcp.UDPSession, *simnet.Conn) {
	c, err := w.Env.Hub.Listen(local)
	vh.Must(err)
	ra, _ := net.ResolveUDPAddr("udp", remote)
	block, _ := Crypt(cfg.Cipher)
	s, err := kcp.NewConn4(conv, ra, block, cfg.D, cfg.P, w.Owned, c)
	vh.Must(err)
	cfg.Apply(s)
	w.Mon.Register(local, remote, conv, cfg, 0)
	return s, c
}

// Listen creates a listener on a fresh simnet endpoint.
func (w *World) Listen(addr string, cfg SessCfg) (*kcp.Listener, *simnet.Conn) {
	c, err := w.Env.Hub.Listen(addr)
	vh.Must(err)
	block, _ := Crypt(cfg.Cipher)
	var l *kcp.Listener
	if w.Owned {
		l, err = kcp.VerifServeConnOwned(block, cfg.D, cfg.P, c)
	} else {
		l, err = kcp.ServeConn(block, cfg.D, cfg.P, c)
	}
	vh.Must(err)
	return l, c
}

func (w *World) String() string { return fmt.Sprintf("world@%dms", w.Now()) }

// ControlOnly reports whether the datagram carries no PUSH segment (ACK / WASK / WINS only, or parity / OOB).
// Called from the hub policy (hub mutex held); uses the reference cipher of the sending flow.
func (m *Monitor) ControlOnly(d *simnet.Dgram) bool {
	m.mu.Lock()
	defer m.mu.Unlock()
	ep := m.eps[flow(d.Src, d.Dst)]
	if ep == nil {
		return false
	}
	plain, _, ok := m.decrypt(ep, d.Data)
	if !ok {
		return false
	}
	body := plain
	if ep.d > 0 {
		f, err := wire.ParseFec(plain)
		if err != nil || f.Type != wire.TypeData {
			return f.Type == wire.TypeParity
		}
		body = f.Payload
	}
	segs, err := wire.ParseSegments(body)
	if err != nil {
		return false
	}
	for _, s := range segs {
		if s.Cmd == wire.CmdPush {
			return false
		}
	}
	return true
}
