package fecdrv

import (
	"encoding/binary"
	"encoding/hex"
	"fmt"
	"os"
	"testing"

	kcp "github.com/xtaci/kcp-go/v5"

	"verifharness/vh"
)

// TestFecArrivals replays a recorded arrival sequence (debug aid): VERIF_ARRIVALS=<file>
func TestFecArrivals(t *testing.T) {
	path := os.Getenv("VERIF_ARRIVALS")
	if path == "" {
		t.Skip("VERIF_ARRIVALS not set")
	}
	var in struct {
		D, P     int
		Arrivals []struct {
			At  int64
			Pkt string
		}
	}
	vh.Must(vh.ReadJSON(path, &in))
	dec := kcp.VerifNewFECDecoder(in.D, in.P)
	sent := map[string]bool{}
	for _, a := range in.Arrivals {
		b, _ := hex.DecodeString(a.Pkt)
		if len(b) >= 8 && binary.LittleEndian.Uint16(b[4:]) == 0xf1 {
			sent[string(b[6:])] = true
		}
	}
	from := int64(vh.EnvInt("VERIF_ARR_FROM", 0))
	for i, a := range in.Arrivals {
		b, _ := hex.DecodeString(a.Pkt)
		if len(b) < 8 || a.At < from {
			continue
		}
		rec := dec.Decode(b)
		for _, r := range rec {
			sz := int(binary.LittleEndian.Uint16(r))
			ok := sz <= len(r) && sz >= 2 && sent[string(r[:sz])]
			desc := ""
			if sz >= 26 && sz <= len(r) {
				desc = fmt.Sprintf("conv=%d cmd=%d sn=%d ts=%d len=%d", binary.LittleEndian.Uint32(r[2:]), r[6], binary.LittleEndian.Uint32(r[14:]), binary.LittleEndian.Uint32(r[10:]), binary.LittleEndian.Uint32(r[22:]))
			}
			fmt.Printf("arrival %d t=%d seq=%d type=%x -> recovered len=%d sz=%d genuine=%v %s\n", i, a.At, binary.LittleEndian.Uint32(b), binary.LittleEndian.Uint16(b[4:]), len(r), sz, ok, desc)
			kcp.VerifPoolPutBuf(r)
		}
	}
}
