// Package fecdrv binds Fec.tla / FecNet.tla to fec.go + autotune.go (C07, C16): real encoder -> driver-owned
// bag of packets -> real decoder. It replays TLC-generated behaviours (model -> code, decoder projection and
// outputs compared per step) and records traces of those and of seeded random runs (large ratios, positions
// around the real wrap value, mismatched ratios) for TLC (FecObs monitors decide, FecTrace reports drift).
package fecdrv

import (
	"bufio"
	"bytes"
	"encoding/binary"
	"encoding/json"
	"fmt"
	"math/rand"
	"os"
	"path/filepath"
	"reflect"
	"sort"
	"testing"
	"testing/synctest"
	"time"

	kcp "github.com/xtaci/kcp-go/v5"

	"verifharness/vh"
)

type pkt struct {
	Seq  uint32
	Flag string // "data" / "parity"
	Gid  int
	Idx  int
	Size int // payload size class (data) / padded length (parity)
	raw  []byte
}

type world struct {
	ed, ep, dd, dp int
	enc            *kcp.VerifFECEncoder
	dec            *kcp.VerifFECDecoder
	air            []pkt
	gid, cnt       int
	start          uint32
	orig           map[[2]int][]byte // (gid, idx) -> bytes from the size field on (what a reconstruction must reproduce)
	sent           int
	firstEver      bool
	seen           map[int]map[int]bool
	newestG        int
}

func payloadFor(gid, idx, size int) []byte {
	b := make([]byte, size)
	vh.Fill(b, gid*131+idx+1, 0)
	return b
}

func newWorld(ed, ep, dd, dp int, start uint32) *world {
	w := &world{ed: ed, ep: ep, dd: dd, dp: dp, start: start, orig: map[[2]int][]byte{}, firstEver: true, seen: map[int]map[int]bool{}}
	w.enc = kcp.VerifNewFECEncoder(ed, ep, 0)
	w.enc.SetNext(start)
	if dd > 0 {
		w.dec = kcp.VerifNewFECDecoder(dd, dp)
		w.dec.SetNewest(start / uint32(dd+dp))
	}
	return w
}

// encode one data packet of payload size `size`; contiguous=false makes the gap to the previous data packet exceed
// the 500 ms limit (virtual time) so that the group's parity is skipped when this packet completes the group.
func (w *world) encode(size int, contiguous bool) (out []pkt, wasContiguous bool) {
	if !contiguous {
		time.Sleep(600 * time.Millisecond)
	} else {
		time.Sleep(time.Millisecond)
	}
	wasContiguous = contiguous && !w.firstEver
	w.firstEver = false
	buf := make([]byte, 8+size, 1500)
	copy(buf[8:], payloadFor(w.gid, w.cnt, size))
	seq := w.enc.Next()
	ps := w.enc.Encode(buf, 500)
	w.orig[[2]int{w.gid, w.cnt}] = append([]byte(nil), buf[6:]...)
	out = append(out, pkt{Seq: seq, Flag: "data", Gid: w.gid, Idx: w.cnt, Size: size, raw: append([]byte(nil), buf...)})
	for i, p := range ps {
		out = append(out, pkt{Seq: binary.LittleEndian.Uint32(p), Flag: "parity", Gid: w.gid, Idx: w.ed + i, Size: len(p) - 8, raw: append([]byte(nil), p...)})
	}
	w.cnt++
	if w.cnt == w.ed {
		w.cnt = 0
		w.gid++
	}
	w.air = append(w.air, out...)
	w.sent++
	return
}

type outJ struct {
	Gid int  `json:"gid"`
	Idx int  `json:"idx"`
	Ok  bool `json:"ok"`
}

// decode feeds air[i] to the real decoder and identifies every reconstructed packet by its bytes.
func (w *world) decode(p pkt) (outs []outJ, panicMsg string) {
	if w.seen[p.Gid] == nil {
		w.seen[p.Gid] = map[int]bool{}
	}
	defer func() {
		if r := recover(); r != nil {
			panicMsg = fmt.Sprint(r)
		}
	}()
	// Which data positions can this call reconstruct? Those absent from the decoder's current shard set (plus this
	// packet). The decoder emits them in ascending position order; each output is then verified byte for byte (with its
	// exact length) against the original at the position it stands for.
	st := w.dec.State()
	n := uint32(st.DataShards + st.ParityShards)
	present := map[int]bool{int(p.Seq % n): true}
	for _, s := range st.Sets[p.Seq/n] {
		present[int(s%n)] = true
	}
	var missing []int
	for k := 0; k < st.DataShards; k++ {
		if !present[k] {
			missing = append(missing, k)
		}
	}
	rec := w.dec.Decode(append([]byte(nil), p.raw...))
	for i, r := range rec {
		o := outJ{Gid: -1, Idx: -1}
		if len(r) >= 2 {
			sz := int(binary.LittleEndian.Uint16(r))
			if len(rec) == len(missing) {
				if ob, ok := w.orig[[2]int{p.Gid, missing[i]}]; ok && sz == len(ob) && sz <= len(r) && bytes.Equal(r[:sz], ob) {
					o = outJ{Gid: p.Gid, Idx: missing[i], Ok: true}
				}
			}
			if !o.Ok {
				// not the expected original: an original of some group at some position (still wrong), else garbage
				// (garbage has no identity: reported as -1/-1)
			}
		}
		outs = append(outs, o)
		kcp.VerifPoolPutBuf(r)
	}
	sort.Slice(outs, func(i, j int) bool { return outs[i].Idx < outs[j].Idx })
	if w.seen[p.Gid] == nil {
		w.seen[p.Gid] = map[int]bool{}
	}
	return
}

type decProj struct {
	D       int       `json:"d"`
	P       int       `json:"p"`
	Tune    bool      `json:"tune"`
	Newest  int64     `json:"newest"`
	Sets    []setProj `json:"sets"`
	RingLen int       `json:"ringlen"`
}
type setProj struct {
	ID   int64   `json:"id"`
	Seqs []int64 `json:"seqs"`
}

// proj: ids and seqids are reported relative to `base` (a multiple of the decoder's group size) so that runs near
// the real wrap value stay inside TLC's integer range; base = 0 for replayed behaviours.
func (w *world) proj(baseSeq uint32) decProj {
	st := w.dec.State()
	n := uint32(st.DataShards + st.ParityShards)
	p := decProj{D: st.DataShards, P: st.ParityShards, Tune: st.ShouldTune, RingLen: st.TuneCount, Sets: []setProj{}}
	baseID := baseSeq / n
	p.Newest = int64(int32(st.NewestShardId - baseID))
	ids := make([]uint32, 0, len(st.Sets))
	for id := range st.Sets {
		ids = append(ids, id)
	}
	sort.Slice(ids, func(i, j int) bool { return int32(ids[i]-baseID) < int32(ids[j]-baseID) })
	for _, id := range ids {
		sp := setProj{ID: int64(int32(id - baseID)), Seqs: []int64{}}
		for _, s := range st.Sets[id] {
			sp.Seqs = append(sp.Seqs, int64(int32(s-baseSeq)))
		}
		sort.Slice(sp.Seqs, func(i, j int) bool { return sp.Seqs[i] < sp.Seqs[j] })
		p.Sets = append(p.Sets, sp)
	}
	return p
}

// ---------------------------------------------------------------------------
// replay of TLC behaviours (W = 0 instances: no wrap; real RingN is not scaled, so replayed instances never tune)
// ---------------------------------------------------------------------------

type fAct struct {
	Name string `json:"name"`
	A    int    `json:"a"`
	B    int    `json:"b"`
}
type fStep struct {
	A fAct           `json:"a"`
	S map[string]any `json:"s"`
}
type fBeh struct {
	Ed    int     `json:"ed"`
	Ep    int     `json:"ep"`
	Dd    int     `json:"dd"`
	Dp    int     `json:"dp"`
	Start int     `json:"start"`
	Steps []fStep `json:"steps"`
	Src   string  `json:"src"`
}

type summary struct {
	Behaviours, Steps, Traces, Lines int
	Drift                            []string
	Kinds                            map[string]int
	Nontrivial                       int
	Panics                           []string
}

func toAny(v any) any {
	b, _ := json.Marshal(v)
	var o any
	json.Unmarshal(b, &o)
	return o
}

func (w *world) record(tr *vh.Trace, name string, p *pkt, outs []outJ, emitted []pkt, contiguous bool, base uint32, panicMsg string) {
	ev := map[string]any{"ev": "op", "name": name, "panic": panicMsg != ""}
	if name == "Decode" {
		live := w.newestG-p.Gid <= 2
		before := len(w.seen[p.Gid])
		w.seen[p.Gid][p.Idx] = true
		after := len(w.seen[p.Gid])
		if p.Gid > w.newestG {
			w.newestG = p.Gid
		}
		seenIdx := []int{}
		for i := range w.seen[p.Gid] {
			seenIdx = append(seenIdx, i)
		}
		sort.Ints(seenIdx)
		if outs == nil {
			outs = []outJ{}
		}
		ev["pkt"] = map[string]any{"seq": int64(int32(p.Seq - base)), "flag": p.Flag, "gid": p.Gid, "idx": p.Idx, "size": p.Size, "ed": w.ed, "ep": w.ep}
		ev["out"] = outs
		ev["reached"] = before < w.ed && after >= w.ed
		ev["live"] = live
		ev["seen"] = seenIdx
		ev["dec"] = w.proj(base)
	} else {
		em := []map[string]any{}
		for _, q := range emitted {
			em = append(em, map[string]any{"seq": int64(int32(q.Seq - base)), "flag": q.Flag, "gid": q.Gid, "idx": q.Idx, "size": q.Size})
		}
		ev["emitted"] = em
		ev["contiguous"] = contiguous
		ev["size"] = 0
		if len(emitted) > 0 {
			ev["size"] = emitted[0].Size
		}
	}
	tr.Add(ev)
}

func resetMeta(w *world, src string, base uint32, calm int) map[string]any {
	return map[string]any{"ed": w.ed, "ep": w.ep, "dd": w.dd, "dp": w.dp, "src": src, "start": int64(int32(w.start - base)), "calm": calm,
		// positioned runs: relative ids are not congruent modulo every group size -> judged by FecObs only; so are runs with very large
		// groups (the conformance specification sorts the 258-sample window at every packet while the decoder is tuning)
		"nearwrap": w.start != 0 || w.ed+w.ep > 64 || w.dd+w.dp > 64}
}

func readBehaviours(path string) ([]fBeh, error) {
	f, err := os.Open(path)
	if err != nil {
		return nil, err
	}
	defer f.Close()
	var out []fBeh
	sc := bufio.NewScanner(f)
	sc.Buffer(make([]byte, 1<<20), 1<<28)
	for sc.Scan() {
		var b fBeh
		if err := json.Unmarshal(sc.Bytes(), &b); err != nil {
			return nil, err
		}
		out = append(out, b)
	}
	return out, sc.Err()
}

func removeAt(a []pkt, i int) []pkt { return append(a[:i:i], a[i+1:]...) }

func TestFecReplay(t *testing.T) {
	in := vh.EnvStr("VERIF_IN", "")
	if in == "" {
		t.Skip("VERIF_IN not set")
	}
	out := vh.OutDir(t)
	bs, err := readBehaviours(filepath.Join(in, "fec_behaviours.ndjson"))
	vh.Must(err)
	tf, err := vh.OpenTraceFile(filepath.Join(out, "fec_replay.ndjson"))
	vh.Must(err)
	sum := &summary{Kinds: map[string]int{}}
	for bi, b := range bs {
		synctest.Test(t, func(t *testing.T) {
			w := newWorld(b.Ed, b.Ep, b.Dd, b.Dp, uint32(b.Start))
			tr := &vh.Trace{}
			label := fmt.Sprintf("%s#%d", b.Src, bi)
			nontrivial := false
			for si, st := range b.Steps {
				sum.Steps++
				var got map[string]any
				switch st.A.Name {
				case "Encode":
					em, cont := w.encode(st.A.A, st.A.B == 1)
					w.record(tr, "Encode", nil, nil, em, cont, 0, "")
					if cont != (st.A.B == 1) {
						// the very first packet can never be "contiguous" in the code (tsLatestPacket starts at 0)
						sum.Kinds["first-packet-noncontiguous"]++
					}
					got = map[string]any{"next": float64(w.enc.Next())}
				case "Deliver":
					if st.A.A < 1 || st.A.A > len(w.air) {
						sum.Drift = append(sum.Drift, fmt.Sprintf("%s step %d: Deliver(%d) not enabled (air=%d)", label, si+1, st.A.A, len(w.air)))
						continue
					}
					p := w.air[st.A.A-1]
					if st.A.B == 0 {
						w.air = removeAt(w.air, st.A.A-1)
					} else {
						sum.Kinds["dup"]++
						nontrivial = true
					}
					outs, pm := w.decode(p)
					w.record(tr, "Decode", &p, outs, nil, false, 0, pm)
					if pm != "" {
						sum.Panics = append(sum.Panics, fmt.Sprintf("%s step %d: %s", label, si+1, pm))
					}
					if len(outs) > 0 {
						sum.Kinds["recovered"]++
						nontrivial = true
					}
					if outs == nil {
						outs = []outJ{}
					}
					got = map[string]any{"dec": toAny(w.proj(0)), "out": toAny(outs)}
				case "Drop":
					if st.A.A < 1 || st.A.A > len(w.air) {
						continue
					}
					w.air = removeAt(w.air, st.A.A-1)
					sum.Kinds["drop"]++
					nontrivial = true
				case "Calm":
					w.air = nil
				case "End":
					continue
				}
				if got != nil {
					for k, gv := range got {
						ev := st.S[k]
						if k == "out" {
							// compare (gid, idx, ok) lists
						}
						if !reflect.DeepEqual(ev, gv) && len(sum.Drift) < 40 {
							eb, _ := json.Marshal(ev)
							gb, _ := json.Marshal(gv)
							sum.Drift = append(sum.Drift, fmt.Sprintf("%s step %d %+v: %s expected %s got %s", label, si+1, st.A, k, eb, gb))
						}
					}
				}
			}
			if nontrivial {
				sum.Nontrivial++
			}
			tf.WriteTrace(resetMeta(w, label, 0, 0), tr)
			sum.Behaviours++
		})
	}
	vh.Must(tf.Close())
	sum.Traces, sum.Lines = tf.N, tf.L
	vh.WriteJSON(filepath.Join(out, "fec_replay.json"), sum)
}

// ---------------------------------------------------------------------------
// random drives
// ---------------------------------------------------------------------------

func realPaws(n int) uint32 { return 0xffffffff / uint32(n) * uint32(n) }

// TestFecDrive (C07): matching ratios up to 128/127, loss / duplication / reordering within a window of a few groups,
// variable payload sizes including 0 and the maximum, skipped parity, encoder positioned at 0, mid-space and within
// three groups of the real wrap value.
func TestFecDrive(t *testing.T) {
	out := vh.OutDir(t)
	rng := rand.New(rand.NewSource(vh.Seed()*2750159 + 41))
	runs := vh.EnvInt("FEC_RUNS", 40)
	groups := vh.EnvInt("FEC_GROUPS", 30)
	tf, err := vh.OpenTraceFile(filepath.Join(out, "fec_drive.ndjson"))
	vh.Must(err)
	sum := &summary{Kinds: map[string]int{}}
	ratios := [][2]int{{1, 1}, {2, 1}, {1, 2}, {2, 2}, {3, 2}, {3, 1}, {5, 3}, {10, 3}, {10, 1}, {4, 4}, {20, 10}, {128, 127}, {64, 3}, {2, 5}}
	for r := 0; r < runs; r++ {
		synctest.Test(t, func(t *testing.T) {
			dp := ratios[rng.Intn(len(ratios))]
			if r < len(ratios) {
				dp = ratios[r]
			}
			d, p := dp[0], dp[1]
			n := d + p
			var start uint32
			switch rng.Intn(4) {
			case 0:
				start = 0
			case 1:
				start = uint32(rng.Intn(1<<20)) * uint32(n)
			default:
				start = realPaws(n) - uint32((1+rng.Intn(3))*n) // the wrap point falls inside the run
				sum.Kinds["wrap-inside-run"]++
			}
			w := newWorld(d, p, d, p, start)
			tr := &vh.Trace{}
			label := fmt.Sprintf("drive%d %d/%d start=%d", r, d, p, start)
			g := groups
			if n > 40 {
				g = 6
			}
			lossPct := []int{0, 10, 30, 50}[rng.Intn(4)]
			for gi := 0; gi < g && len(sum.Panics) == 0; gi++ {
				// encode one group
				skip := rng.Intn(8) == 0
				for i := 0; i < d; i++ {
					size := []int{0, 1, 2, 50, 700, 1400 - 8, rng.Intn(1392)}[rng.Intn(7)]
					em, cont := w.encode(size, !(skip && i == d-1))
					w.record(tr, "Encode", nil, nil, em, cont, start, "")
					if len(em) == 1 && i == d-1 {
						sum.Kinds["parity-skipped"]++
					}
				}
				// deliver what is in the air with faults; keep a tail for reordering across groups
				keepTail := rng.Intn(n + 1)
				if gi == g-1 {
					keepTail = 0
				}
				for len(w.air) > keepTail {
					i := rng.Intn(len(w.air))
					if rng.Intn(3) != 0 {
						i = 0
					} else {
						sum.Kinds["reorder"]++
					}
					pk := w.air[i]
					x := rng.Intn(100)
					switch {
					case x < lossPct:
						w.air = removeAt(w.air, i)
						sum.Kinds["drop"]++
						continue
					case x < lossPct+8:
						sum.Kinds["dup"]++ // delivered now and left in the air
					default:
						w.air = removeAt(w.air, i)
					}
					outs, pm := w.decode(pk)
					w.record(tr, "Decode", &pk, outs, nil, false, start, pm)
					sum.Steps++
					if pm != "" {
						sum.Panics = append(sum.Panics, label+": "+pm)
						break
					}
					if len(outs) > 0 {
						sum.Kinds["recovered"]++
					}
				}
			}
			tf.WriteTrace(resetMeta(w, label, start, 0), tr)
			sum.Behaviours++
			sum.Nontrivial++
		})
	}
	vh.Must(tf.Close())
	sum.Traces, sum.Lines = tf.N, tf.L
	vh.WriteJSON(filepath.Join(out, "fec_drive.json"), sum)
}

// TestFecMismatch (C16): receiver ratio differs from the sender's (or equals it: stability). A faulty prefix
// (loss / duplication / reordering), then an uninterrupted in-order run of 258 + 2(d+p) packets; then loss again
// to observe recovery under the adopted ratio.
func TestFecMismatch(t *testing.T) {
	out := vh.OutDir(t)
	rng := rand.New(rand.NewSource(vh.Seed()*3367900313 + 43))
	tf, err := vh.OpenTraceFile(filepath.Join(out, "fec_mismatch.ndjson"))
	vh.Must(err)
	sum := &summary{Kinds: map[string]int{}}
	maxSum := vh.EnvInt("FEC_PAIR_SUM", 6)
	type pair struct{ ed, ep, dd, dp int }
	var pairs []pair
	for ed := 1; ed < maxSum; ed++ {
		for ep := 1; ed+ep <= maxSum; ep++ {
			for dd := 1; dd < maxSum; dd++ {
				for dp := 1; dd+dp <= maxSum; dp++ {
					pairs = append(pairs, pair{ed, ep, dd, dp})
				}
			}
		}
	}
	// sampled large ratios up to d+p = 255
	for i := 0; i < vh.EnvInt("FEC_BIG_PAIRS", 6); i++ {
		s := 13 + rng.Intn(243)
		ed := 1 + rng.Intn(s-1)
		s2 := 2 + rng.Intn(254)
		dd := 1 + rng.Intn(s2-1)
		pairs = append(pairs, pair{ed, s - ed, dd, s2 - dd})
	}
	// boundary: the largest group the decoder is willing to adopt (d+p = 255, the bound of the property) and its neighbour
	// (not groups with very few data packets: every data packet then drags hundreds of parity packets along)
	for i, b := range []pair{{128, 127, 10, 3}, {254, 1, 1, 1}, {200, 55, 3, 2}, {253, 1, 1, 1}, {127, 127, 10, 3}, {1, 1, 254, 1}, {10, 3, 128, 127}, {60, 195, 2, 1}} {
		if i < vh.EnvInt("FEC_BOUNDARY_PAIRS", 2) {
			pairs = append(pairs, b)
		}
	}
	for pi, pr := range pairs {
		synctest.Test(t, func(t *testing.T) {
			n := pr.ed + pr.ep
			var start uint32
			switch (pi + int(vh.Seed())) % 4 {
			case 0:
				start = 0
			case 1:
				start = uint32(rng.Intn(1<<20)) * uint32(n)
			case 2:
				start = realPaws(n) - uint32(n*(1+rng.Intn(600/n+1))) // within ~600 ids below the real wrap value
				sum.Kinds["near-wrap"]++
			default:
				start = uint32(rng.Intn(1<<12)) * uint32(n)
			}
			w := newWorld(pr.ed, pr.ep, pr.dd, pr.dp, start)
			tr := &vh.Trace{}
			label := fmt.Sprintf("pair%d %d/%d->%d/%d start=%d", pi, pr.ed, pr.ep, pr.dd, pr.dp, start)
			deliver := func(pk pkt) {
				outs, pm := w.decode(pk)
				w.record(tr, "Decode", &pk, outs, nil, false, start, pm)
				sum.Steps++
				if pm != "" {
					sum.Panics = append(sum.Panics, label+": "+pm)
				}
			}
			// faulty prefix
			pre := rng.Intn(3 * n)
			for i := 0; i < pre; i++ {
				em, cont := w.encode(1+rng.Intn(200), true)
				w.record(tr, "Encode", nil, nil, em, cont, start, "")
			}
			rng.Shuffle(len(w.air), func(i, j int) { w.air[i], w.air[j] = w.air[j], w.air[i] })
			for _, pk := range w.air {
				if rng.Intn(3) == 0 {
					continue
				}
				deliver(pk)
				if rng.Intn(6) == 0 {
					deliver(pk)
				}
			}
			w.air = nil
			// uninterrupted run
			need := 258 + 2*n
			tr.Add(map[string]any{"ev": "calm", "need": need, "panic": false})
			cnt := 0
			for cnt < need && len(sum.Panics) == 0 {
				em, cont := w.encode(1+rng.Intn(200), true)
				w.record(tr, "Encode", nil, nil, em, cont, start, "")
				for _, pk := range em {
					if cnt < need {
						deliver(pk)
						cnt++
					}
				}
				w.air = nil
			}
			st := w.dec.State()
			tr.Add(map[string]any{"ev": "converged", "d": st.DataShards, "p": st.ParityShards, "tune": st.ShouldTune, "ed": pr.ed, "ep": pr.ep,
				"run": cnt, "need": need, "panic": false})
			if st.DataShards != pr.ed || st.ParityShards != pr.ep {
				sum.Kinds["not-converged"]++
			}
			// loss afterwards: recovery under the adopted ratio (whole groups, one data packet lost per group)
			w.seen = map[int]map[int]bool{}
			for w.cnt != 0 { // finish the current group without delivering (its packets are simply lost)
				em, cont := w.encode(10, true)
				w.record(tr, "Encode", nil, nil, em, cont, start, "")
			}
			w.air = nil
			tr.Add(map[string]any{"ev": "phase", "name": "recovery", "panic": false})
			for gi := 0; gi < 4 && len(sum.Panics) == 0; gi++ {
				var em []pkt
				for i := 0; i < pr.ed; i++ {
					e1, cont := w.encode(1+rng.Intn(300), true)
					w.record(tr, "Encode", nil, nil, e1, cont, start, "")
					em = append(em, e1...)
				}
				lose := rng.Intn(pr.ed)
				for _, pk := range em {
					if pk.Flag == "data" && pk.Idx == lose {
						continue
					}
					deliver(pk)
				}
				w.air = nil
			}
			tf.WriteTrace(resetMeta(w, label, start, need), tr)
			sum.Behaviours++
			if pr.ed != pr.dd || pr.ep != pr.dp {
				sum.Nontrivial++
			}
		})
	}
	vh.Must(tf.Close())
	sum.Traces, sum.Lines = tf.N, tf.L
	vh.WriteJSON(filepath.Join(out, "fec_mismatch.json"), sum)
}

// TestFecForged (C05, decoder part): a young decoder (newest shard set near the encoder's start) receives genuine traffic mixed
// with datagrams whose FEC sequence id has been altered into boundary regions of the id space -- just below / above 2^31 away
// from the newest id (where the signed "how far behind" comparison flips), just below / at / above the wrap value paws, the top
// of the 32-bit word, and random ids -- keeping type and position consistent so that the decoder does not suspend decoding,
// with many distinct shard ids. The decoder's state must stay bounded (C05_DecoderBounded: at most maxShardSets+2 shard sets,
// each with at most d+p packets) and it must never panic; the genuine traffic must still be recovered (C07 monitors).
func TestFecForged(t *testing.T) {
	out := vh.OutDir(t)
	rng := rand.New(rand.NewSource(vh.Seed()*7368787 + 5))
	runs := vh.EnvInt("FEC_RUNS", 24)
	tf, err := vh.OpenTraceFile(filepath.Join(out, "fec_forged.ndjson"))
	vh.Must(err)
	sum := &summary{Kinds: map[string]int{}}
	ratios := [][2]int{{1, 1}, {2, 1}, {3, 2}, {10, 3}, {5, 5}, {128, 127}}
	for r := 0; r < runs; r++ {
		synctest.Test(t, func(t *testing.T) {
			dp := ratios[rng.Intn(len(ratios))]
			n := uint32(dp[0] + dp[1])
			paws := realPaws(int(n))
			starts := []uint32{0, n * 1000, (1 << 31) / n * n, paws - 40*n, uint32(rng.Int63n(int64(paws))) / n * n}
			start := starts[rng.Intn(len(starts))]
			w := newWorld(dp[0], dp[1], dp[0], dp[1], start)
			tr := &vh.Trace{}
			base := start
			forgedIDs := 0
			for step := 0; step < 400 && len(sum.Panics) == 0; step++ {
				pkts, _ := w.encode(1+rng.Intn(200), true)
				w.air = nil
				for _, p := range pkts {
					if rng.Intn(5) == 0 {
						continue // lost
					}
					outs, pm := w.decode(p)
					w.record(tr, "Decode", &p, outs, nil, false, base, pm)
					sum.Steps++
					if pm != "" {
						sum.Panics = append(sum.Panics, fmt.Sprintf("forged%d genuine seq=%d: %s", r, p.Seq, pm))
					}
				}
				// a burst of altered copies of the last packet, every one in a different shard set
				last := pkts[len(pkts)-1]
				pos := last.Seq % n
				for k := 0; k < 8; k++ {
					var region uint32
					switch rng.Intn(7) {
					case 0:
						region = last.Seq + (1 << 31) - uint32(rng.Intn(4000))*n
					case 1:
						region = last.Seq + (1 << 31) + uint32(rng.Intn(4000))*n
					case 2:
						region = paws - uint32(1+rng.Intn(4000))*n
					case 3:
						region = paws + uint32(rng.Intn(3))*n // at / beyond the wrap value: must be ignored
					case 4:
						region = 0xffffffff - uint32(rng.Intn(4000))*n
					case 5:
						region = last.Seq - uint32(5+rng.Intn(100000))*n // far behind
					default:
						region = rng.Uint32()
					}
					seq := region/n*n + pos
					f := pkt{Seq: seq, Flag: last.Flag, Gid: -1000 - forgedIDs, Idx: last.Idx, Size: last.Size, raw: append([]byte(nil), last.raw...)}
					binary.LittleEndian.PutUint32(f.raw, seq)
					forgedIDs++
					_, pm := w.decode(f)
					// identity checks do not apply to a forged packet: only the decoder's state and the absence of a panic are judged
					ev := map[string]any{"ev": "op", "name": "Decode", "panic": pm != "", "forged": true,
						"pkt": map[string]any{"seq": int64(int32(seq - base)), "flag": f.Flag, "gid": -1, "idx": f.Idx, "size": f.Size, "ed": w.ed, "ep": w.ep},
						"out": []outJ{}, "reached": false, "live": false, "seen": []int{}, "dec": w.proj(base)}
					tr.Add(ev)
					sum.Steps++
					sum.Kinds["forged-seqid"]++
					if pm != "" {
						sum.Panics = append(sum.Panics, fmt.Sprintf("forged%d seq=%d: %s", r, seq, pm))
					}
				}
			}
			tf.WriteTrace(resetMeta(w, fmt.Sprintf("forged%d", r), base, 0), tr)
			sum.Behaviours++
			sum.Nontrivial++
		})
	}
	vh.Must(tf.Close())
	sum.Traces, sum.Lines = tf.N, tf.L
	vh.WriteJSON(filepath.Join(out, "fec_forged.json"), sum)
}

// TestFecPairs (C12, FEC part): the same history -- packet sizes, idle gaps that make the encoder skip a group's parity, losses,
// duplicates, reordering -- is executed with the encoder at position 0 and again one to three groups before the wrap value of the
// sequence ids (the decoder positioned likewise). What the encoder stamped (relative to the starting position, modulo the wrap
// value, and whether it is in the documented range) and what the decoder did (reconstructed packets, shard sets, newest set)
// must be identical. A "pair" line holds the two normalised observations of one step.
func TestFecPairs(t *testing.T) {
	out := vh.OutDir(t)
	rng := rand.New(rand.NewSource(vh.Seed()*6700417 + 3))
	runs := vh.EnvInt("FEC_RUNS", 40)
	tf, err := vh.OpenTraceFile(filepath.Join(out, "fec_pairs.ndjson"))
	vh.Must(err)
	sum := &summary{Kinds: map[string]int{}}
	ratios := [][2]int{{1, 1}, {2, 1}, {3, 2}, {10, 3}, {4, 1}, {12, 3}, {5, 5}, {2, 5}}
	type obs = map[string]any
	runOne := func(d, p int, start uint32, seed int64, skipAt int) (lines []obs, panics []string) {
		synctest.Test(t, func(t *testing.T) {
			r := rand.New(rand.NewSource(seed))
			n := uint32(d + p)
			paws := realPaws(int(n))
			rel := func(seq uint32) int64 {
				x := int64(seq) - int64(start)
				if x < 0 {
					x += int64(paws)
				}
				return x
			}
			w := newWorld(d, p, d, p, start)
			lossPct := []int{0, 10, 30}[r.Intn(3)]
			for gi := 0; gi < 8; gi++ {
				skip := gi == skipAt || r.Intn(6) == 0
				for i := 0; i < d; i++ {
					size := []int{1, 2, 50, 700, r.Intn(1392)}[r.Intn(5)]
					em, _ := w.encode(size, !(skip && i == d-1))
					e := []obs{}
					for _, q := range em {
						e = append(e, obs{"rel": rel(q.Seq), "inrange": q.Seq < paws, "flag": q.Flag, "size": q.Size})
					}
					lines = append(lines, obs{"op": "Encode", "emitted": e})
				}
				keepTail := r.Intn(int(n) + 1)
				if gi == 7 {
					keepTail = 0
				}
				for len(w.air) > keepTail {
					i := 0
					if r.Intn(3) == 0 {
						i = r.Intn(len(w.air))
					}
					pk := w.air[i]
					x := r.Intn(100)
					switch {
					case x < lossPct:
						w.air = removeAt(w.air, i)
						continue
					case x < lossPct+8:
					default:
						w.air = removeAt(w.air, i)
					}
					outs, pm := w.decode(pk)
					if pm != "" {
						panics = append(panics, pm)
						return
					}
					if outs == nil {
						outs = []outJ{}
					}
					st := w.dec.State()
					sets := []obs{}
					ids := make([]uint32, 0, len(st.Sets))
					for id := range st.Sets {
						ids = append(ids, id)
					}
					sort.Slice(ids, func(a, b int) bool { return rel(ids[a]*n) < rel(ids[b]*n) })
					// Only the newest shard set and the two before it are compared, and what a packet reconstructs only when its group is
					// one of those: the decoder measures "how far behind" modulo 2^32 while ids wrap at the wrap value, so across the wrap
					// the set that is exactly three groups behind is dropped one step earlier than elsewhere (it is outside "the few most
					// recent groups" of C07 either way).
					newestRel := rel(st.NewestShardId*n) / int64(n)
					for _, id := range ids {
						if newestRel-rel(id*n)/int64(n) > 2 {
							continue
						}
						ss := []int64{}
						for _, s := range st.Sets[id] {
							ss = append(ss, rel(s))
						}
						sort.Slice(ss, func(a, b int) bool { return ss[a] < ss[b] })
						sets = append(sets, obs{"id": rel(id*n) / int64(n), "seqs": ss})
					}
					live := newestRel-rel(pk.Seq)/int64(n) <= 2
					var outv any = "not-live"
					if live {
						outv = outs
					}
					lines = append(lines, obs{"op": "Decode", "pkt": rel(pk.Seq), "out": outv, "sets": sets, "newest": newestRel,
						"tune": st.ShouldTune, "d": st.DataShards, "p": st.ParityShards})
				}
			}
		})
		return
	}
	for r := 0; r < runs; r++ {
		dp := ratios[r%len(ratios)]
		n := uint32(dp[0] + dp[1])
		k := 1 + rng.Intn(3)
		start := realPaws(int(n)) - uint32(k)*n
		seed := rng.Int63()
		// in half of the runs the parity of exactly the last group before the wrap value is skipped
		skipAt := -1
		if r%2 == 0 {
			skipAt = k - 1
		}
		a, pa := runOne(dp[0], dp[1], 0, seed, skipAt)
		b, pb := runOne(dp[0], dp[1], start, seed, skipAt)
		for _, pm := range append(pa, pb...) {
			sum.Panics = append(sum.Panics, fmt.Sprintf("pairs%d %d/%d: %s", r, dp[0], dp[1], pm))
		}
		tr := &vh.Trace{}
		m := len(a)
		if len(b) > m {
			m = len(b)
		}
		for i := 0; i < m; i++ {
			var x, y any = obs{"op": "missing"}, obs{"op": "missing"}
			if i < len(a) {
				x = a[i]
			}
			if i < len(b) {
				y = b[i]
			}
			tr.Add(map[string]any{"ev": "pair", "a": x, "b": y, "panic": false})
			sum.Steps++
		}
		if skipAt >= 0 {
			sum.Kinds["skip-at-last-group-before-wrap"]++
		}
		sum.Kinds["crossed-wrap"]++
		tf.WriteTrace(map[string]any{"ed": dp[0], "ep": dp[1], "dd": dp[0], "dp": dp[1], "src": fmt.Sprintf("pairs%d k=%d", r, k), "start": 0, "calm": 0, "nearwrap": true}, tr)
		sum.Behaviours++
		sum.Nontrivial++
	}
	vh.Must(tf.Close())
	sum.Traces, sum.Lines = tf.N, tf.L
	vh.WriteJSON(filepath.Join(out, "fec_pairs.json"), sum)
}
