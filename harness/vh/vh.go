// Package vh holds what every driver shares: the synctest bubble set-up
// (virtual clock, private timed scheduler, in-memory network), the ndjson
// trace writer and small helpers.
package vh

import (
	"bufio"
	"encoding/json"
	"fmt"
	"os"
	"path/filepath"
	"runtime"
	"strconv"
	"strings"
	"sync"
	"testing"
	"testing/synctest"
	"time"

	kcp "github.com/xtaci/kcp-go/v5"

	"verifharness/simnet"
)

// Env is the per-bubble environment.
type Env struct {
	T     *testing.T
	Hub   *simnet.Hub
	Sched *kcp.TimedSched
	Start time.Time
}

// NowMs returns virtual milliseconds since the bubble started.
func (e *Env) NowMs() int64 { return int64(time.Since(e.Start) / time.Millisecond) }

// Bubble runs fn inside a synctest bubble with a fresh scheduler, the KCP
// millisecond clock positioned at clockMs, and a fresh hub. After fn returns
// the scheduler is closed; fn must have closed its sessions/listeners/conns.
func Bubble(t *testing.T, clockMs uint32, workers int, fn func(e *Env)) {
	synctest.Test(t, func(t *testing.T) {
		if workers <= 0 {
			workers = 2
		}
		sched := kcp.NewTimedSched(workers)
		kcp.SystemTimedSched = sched
		kcp.VerifSetClockMs(clockMs)
		e := &Env{T: t, Hub: simnet.NewHub(), Sched: sched, Start: time.Now()}
		fn(e)
		// let pending callbacks observe closed sessions, then stop the scheduler
		time.Sleep(11 * time.Second)
		synctest.Wait()
		sched.Close()
		synctest.Wait()
	})
}

// KcpGoroutines returns the stacks of goroutines (other than the caller) that have a kcp-go frame
// and belong to the current synctest bubble.
func KcpGoroutines() []string {
	buf := make([]byte, 1<<22)
	n := runtime.Stack(buf, true)
	var out []string
	blocks := strings.Split(string(buf[:n]), "\n\n")
	for i, g := range blocks {
		if i == 0 { // the calling goroutine comes first
			continue
		}
		if !strings.Contains(g, "github.com/xtaci/kcp-go/v5.") {
			continue
		}
		if !strings.Contains(strings.SplitN(g, "\n", 2)[0], "synctest") {
			continue
		}
		out = append(out, g)
	}
	return out
}

// ---------------------------------------------------------------------------
// traces
// ---------------------------------------------------------------------------

// Trace collects ndjson events (thread-safe).
type Trace struct {
	mu   sync.Mutex
	Evts []map[string]any
}

func (tr *Trace) Add(ev map[string]any) {
	tr.mu.Lock()
	tr.Evts = append(tr.Evts, ev)
	tr.mu.Unlock()
}

func (tr *Trace) Len() int {
	tr.mu.Lock()
	defer tr.mu.Unlock()
	return len(tr.Evts)
}

// TraceFile appends traces to one ndjson file.
type TraceFile struct {
	mu sync.Mutex
	f  *os.File
	w  *bufio.Writer
	N  int // traces written
	L  int // lines written
}

func OpenTraceFile(path string) (*TraceFile, error) {
	if err := os.MkdirAll(filepath.Dir(path), 0o755); err != nil {
		return nil, err
	}
	f, err := os.Create(path)
	if err != nil {
		return nil, err
	}
	return &TraceFile{f: f, w: bufio.NewWriterSize(f, 1<<20)}, nil
}

// WriteTrace writes one trace: a reset line carrying meta, followed by the events.
func (tf *TraceFile) WriteTrace(meta map[string]any, tr *Trace) {
	tf.mu.Lock()
	defer tf.mu.Unlock()
	m := map[string]any{"ev": "reset"}
	for k, v := range meta {
		m[k] = v
	}
	tf.line(m)
	for _, e := range tr.Evts {
		tf.line(e)
	}
	tf.w.Flush() // a later run may kill the process (library panic, deadlock): what was observed so far stays usable
	tf.N++
}

func (tf *TraceFile) line(m map[string]any) {
	b, err := json.Marshal(m)
	if err != nil {
		panic(err)
	}
	tf.w.Write(b)
	tf.w.WriteByte('\n')
	tf.L++
}

func (tf *TraceFile) Close() error {
	tf.w.Flush()
	return tf.f.Close()
}

// ---------------------------------------------------------------------------
// env helpers
// ---------------------------------------------------------------------------

func EnvInt(name string, def int) int {
	if v := os.Getenv(name); v != "" {
		if n, err := strconv.Atoi(v); err == nil {
			return n
		}
	}
	return def
}

func EnvStr(name, def string) string {
	if v := os.Getenv(name); v != "" {
		return v
	}
	return def
}

// Seed returns VERIF_SEED (default 1).
func Seed() int64 { return int64(EnvInt("VERIF_SEED", 1)) }

// Thorough reports whether VERIF_TIER=thorough.
func Thorough() bool { return os.Getenv("VERIF_TIER") == "thorough" }

// OutDir is where drivers write their traces / summaries (VERIF_OUT).
func OutDir(t *testing.T) string {
	d := os.Getenv("VERIF_OUT")
	if d == "" {
		d = t.TempDir()
	}
	os.MkdirAll(d, 0o755)
	return d
}

// WriteJSON writes v as JSON to path.
func WriteJSON(path string, v any) {
	b, err := json.MarshalIndent(v, "", " ")
	if err != nil {
		panic(err)
	}
	if err := os.WriteFile(path, b, 0o644); err != nil {
		panic(err)
	}
}

// ReadJSON reads path into v.
func ReadJSON(path string, v any) error {
	b, err := os.ReadFile(path)
	if err != nil {
		return err
	}
	return json.Unmarshal(b, v)
}

// Pattern returns the deterministic content byte of stream `id` at offset `off`.
func Pattern(id int, off int64) byte {
	x := uint64(off)*0x9E3779B97F4A7C15 + uint64(id)*0xBF58476D1CE4E5B9
	x ^= x >> 29
	x *= 0x94D049BB133111EB
	x ^= x >> 32
	return byte(x)
}

// Fill fills b with the pattern of stream id starting at off.
func Fill(b []byte, id int, off int64) {
	for i := range b {
		b[i] = Pattern(id, off+int64(i))
	}
}

// Check reports whether b equals the pattern of stream id starting at off.
func Check(b []byte, id int, off int64) bool {
	for i := range b {
		if b[i] != Pattern(id, off+int64(i)) {
			return false
		}
	}
	return true
}

func Must(err error) {
	if err != nil {
		panic(fmt.Sprintf("harness: %v", err))
	}
}
