SPECIFICATION Spec
INVARIANTS C08_NoPanic C08_EncryptMatchesReference C08_DecryptRoundTrips C08_InputsUntouched C08_AeadInPlace C08_AeadRefusesWithoutRoom C08_ConcurrentCallers
CHECK_DEADLOCK FALSE
