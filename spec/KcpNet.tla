------------------------------- MODULE KcpNet -------------------------------
(***************************************************************************)
(* Two KCP endpoints (KcpCore.tla) joined by an unreliable datagram network *)
(* with a millisecond clock: the closed system in which C01/C02/C03/C04/    *)
(* C12/C18 are stated.  One action per API call of the code (Send, Recv,    *)
(* flush, Update, Input of one datagram) and per environment event (drop,   *)
(* duplicate, time passing, a forged datagram).                             *)
(***************************************************************************)
EXTENDS KcpCore

CONSTANTS
  Cfg,        \* [mtu, sndwnd, rcvwnd, nodelay, interval, resend, nc, stream, acknodelay] applied to both ends
  WriteSizes, \* sizes offered to Send
  ReadSizes,  \* buffer sizes offered to Recv
  Ticks,      \* amounts of time that may pass in one step (ms)
  MaxBytes,   \* bound on bytes written per endpoint
  MaxDrop, MaxDup, MaxNet, MaxTime, MaxForge,
  Writers,    \* endpoints whose application writes (subset of {1, 2})
  SnOff,      \* <<initial sequence number of endpoint 1, of endpoint 2>>
  ClkOff,     \* initial value of the millisecond clock
  HealEnabled, \* TRUE: the Heal action exists (C02/C03 instances); FALSE: the run stays in the faulty phase
  Drive,      \* "free": Flush and Tick are independent actions (raw-core use, any timing);
              \* "tick": session-style drive -- time advances in rounds, each round flushes endpoint 1 then 2,
              \*         and an accepted Send is followed by a flush of the writer (Write without write-delay)
  ReaderPaused, \* endpoints whose application does not read until the network has healed (C03)
  Forged      \* set of forged wire segments that may be injected (empty for genuine-peer properties)

VARIABLES k,      \* k[e]: endpoint state
          net,    \* sequence of in-flight datagrams [dst, dg, size]
          now,    \* millisecond clock (wrapped)
          elapsed,\* ms since the start (history; bounds the model)
          faults, \* [drop, dup] used so far
          rd,     \* rd[e]: reader history at e: [off: bytes returned so far, bad: a returned range was not the next one, msgs: lengths returned]
          wr,     \* wr[e]: writer history at e: lengths accepted by Send, in order
          healed, \* [on, at, bound]: once on, faults are over, the reader reads and the drive is the deterministic round (C02/C03)
          phase,  \* 0: any action; e in {1,2}: only Flush(e) next, then Flush(e+1) (a round); 10+e: only Flush(e) next, then free
          reinfl, \* reinfl[e]: while latched, a later flush of e made a fast/early retransmission (which re-inflates cwnd)
          latch,  \* latch[e]: snd_una at the last flush of e that declared a timeout loss (-1: none since una moved)
          obs,    \* observation of the last step (return value, datagrams emitted) -- compared with the code, hidden by VIEW
          act     \* the last action (name and arguments)

vars == <<k, net, now, elapsed, faults, rd, wr, healed, phase, latch, reinfl, obs, act>>
Ends == {1, 2}
Peer(e) == 3 - e

Configure(e) ==
  LET k0 == NewKCP(7)
      k1 == IF SetMtuOp(k0, Cfg.mtu).ret = 0 THEN SetMtuOp(k0, Cfg.mtu).k ELSE k0
      k2 == WndSizeOp(k1, Cfg.sndwnd, Cfg.rcvwnd)
      k3 == NoDelayOp(k2, Cfg.nodelay, Cfg.interval, Cfg.resend, Cfg.nc)
  IN [k3 EXCEPT !.stream = Cfg.stream,
                !.snd_una = U(SnOff[e]), !.snd_nxt = U(SnOff[e]), !.rcv_nxt = U(SnOff[Peer(e)])]

NoObs == [ret |-> 0, out |-> <<>>, data |-> <<>>, adm |-> NoAdm, e |-> 0, latched |-> FALSE, reinfl |-> FALSE]

Init ==
  /\ k = [e \in Ends |-> Configure(e)]
  /\ net = <<>> /\ now = U(ClkOff) /\ elapsed = 0
  /\ faults = [drop |-> 0, dup |-> 0, forge |-> 0]
  /\ rd = [e \in Ends |-> [off |-> 0, bad |-> FALSE, msgs |-> <<>>]]
  /\ wr = [e \in Ends |-> <<>>]
  /\ latch = [e \in Ends |-> -1] /\ reinfl = [e \in Ends |-> FALSE]
  /\ phase = 0
  /\ healed = [on |-> FALSE, at |-> 0, bound |-> 0]
  /\ obs = NoObs
  /\ act = [name |-> "Init", e |-> 0, a |-> 0, b |-> 0]

(* after a step of endpoint e whose flush reported `adm`: remember a timeout loss until snd_una moves *)
LatchAfter(e, kNew, adm) ==
  LET cur == IF latch[e] # -1 /\ kNew.snd_una # latch[e] THEN -1 ELSE latch[e]
  IN [latch EXCEPT ![e] = IF adm.lost > 0 /\ adm.nocwnd = 0 THEN kNew.snd_una ELSE cur]
Latched(e, kOld) == latch[e] # -1 /\ kOld.snd_una = latch[e]
ReinflAfter(e, kOld, kNew, adm) ==
  LET stillLatched == Latched(e, kOld) /\ kNew.snd_una = kOld.snd_una
  IN [reinfl EXCEPT ![e] = IF adm.lost > 0 /\ adm.nocwnd = 0 THEN FALSE          \* a new loss (re)starts the latch
                           ELSE IF ~stillLatched THEN FALSE
                           ELSE @ \/ adm.change > 0]

ToNet(e, out) == [i \in 1..Len(out) |-> [dst |-> Peer(e), dg |-> [segs |-> out[i].segs, short |-> FALSE], size |-> out[i].size]]

Send(e, n) ==
  /\ e \in Writers /\ k[e].woff + n <= MaxBytes
  /\ LET r == SendOp(k[e], n) IN
       /\ k' = [k EXCEPT ![e] = r.k]
       /\ wr' = IF r.ret = 0 THEN [wr EXCEPT ![e] = Append(@, n)] ELSE wr
       /\ obs' = [NoObs EXCEPT !.ret = r.ret]
       /\ phase' = IF Drive = "tick" /\ r.ret = 0 THEN 10 + e ELSE 0
  /\ phase = 0
  /\ act' = [name |-> "Send", e |-> e, a |-> n, b |-> 0]
  /\ UNCHANGED <<net, now, elapsed, faults, rd, latch, reinfl, healed>>

(* the ranges returned must continue exactly where the previous Recv stopped *)
RECURSIVE Contig(_, _)
Contig(data, off) == IF data = <<>> THEN TRUE ELSE Head(data).off = off /\ Contig(Tail(data), off + Head(data).len)

Recv(e, buflen) ==
  /\ healed.on \/ e \notin ReaderPaused
  /\ LET r == RecvOp(k[e], buflen) IN
       /\ k' = [k EXCEPT ![e] = r.k]
       /\ rd' = IF r.ret >= 0
                  THEN [rd EXCEPT ![e] = [off |-> @.off + r.ret, bad |-> @.bad \/ ~Contig(r.data, @.off), msgs |-> Append(@.msgs, r.ret)]]
                  ELSE rd
       /\ obs' = [NoObs EXCEPT !.ret = r.ret, !.data = r.data]
  /\ phase = 0
  /\ act' = [name |-> "Recv", e |-> e, a |-> buflen, b |-> 0]
  /\ UNCHANGED <<net, now, elapsed, faults, wr, latch, reinfl, phase, healed>>

Flush(e) ==
  /\ \/ phase = 0 /\ Drive = "free" /\ phase' = 0
     \/ phase = e /\ phase' = IF e = 1 THEN 2 ELSE 0
     \/ phase = 10 + e /\ phase' = 0
  /\ LET r == FlushOp(k[e], now, TRUE) IN
       /\ k' = [k EXCEPT ![e] = r.k]
       /\ net' = net \o ToNet(e, r.out)
       /\ obs' = [NoObs EXCEPT !.ret = r.ret, !.out = r.out, !.adm = r.adm, !.e = e, !.latched = Latched(e, k[e]), !.reinfl = reinfl[e]]
       /\ latch' = LatchAfter(e, r.k, r.adm) /\ reinfl' = ReinflAfter(e, k[e], r.k, r.adm)
  /\ act' = [name |-> "Flush", e |-> e, a |-> 0, b |-> 0]
  /\ UNCHANGED <<now, elapsed, faults, rd, wr, healed>>

Update(e) ==
  /\ LET r == UpdateOp(k[e], now) IN
       /\ k' = [k EXCEPT ![e] = r.k]
       /\ net' = net \o ToNet(e, r.out)
       /\ obs' = [NoObs EXCEPT !.ret = CheckOp(r.k, now), !.out = r.out, !.adm = r.adm, !.e = e, !.latched = Latched(e, k[e]), !.reinfl = reinfl[e]]
       /\ latch' = LatchAfter(e, r.k, r.adm) /\ reinfl' = ReinflAfter(e, k[e], r.k, r.adm)
  /\ phase = 0 /\ Drive = "free"
  /\ act' = [name |-> "Update", e |-> e, a |-> 0, b |-> 0]
  /\ UNCHANGED <<now, elapsed, faults, rd, wr, phase, healed>>

RemoveAt(s, i) == SubSeq(s, 1, i - 1) \o SubSeq(s, i + 1, Len(s))

(* deliver datagram i (keep = 1: the network also keeps a copy, i.e. duplicates it) *)
Deliver(i, keep) ==
  /\ i \in 1..Len(net)
  /\ keep = 1 => faults.dup < MaxDup
  /\ LET d == net[i]
         r == InputOp(k[d.dst], d.dg, TRUE, Cfg.acknodelay = 1, now)
         rest == IF keep = 1 THEN net ELSE RemoveAt(net, i)
     IN /\ k' = [k EXCEPT ![d.dst] = r.k]
        /\ net' = rest \o ToNet(d.dst, r.out)
        /\ obs' = [NoObs EXCEPT !.ret = r.ret, !.out = r.out, !.adm = r.adm, !.e = d.dst,
                                 !.latched = Latched(d.dst, k[d.dst]) /\ r.k.snd_una = k[d.dst].snd_una, !.reinfl = reinfl[d.dst]]
        /\ latch' = LatchAfter(d.dst, r.k, r.adm) /\ reinfl' = ReinflAfter(d.dst, k[d.dst], r.k, r.adm)
  /\ faults' = IF keep = 1 THEN [faults EXCEPT !.dup = @ + 1] ELSE faults
  /\ phase = 0
  /\ act' = [name |-> "Deliver", e |-> net[i].dst, a |-> i, b |-> keep]
  /\ UNCHANGED <<now, elapsed, rd, wr, phase, healed>>

Drop(i) ==
  /\ i \in 1..Len(net) /\ faults.drop < MaxDrop
  /\ net' = RemoveAt(net, i)
  /\ faults' = [faults EXCEPT !.drop = @ + 1]
  /\ obs' = NoObs
  /\ phase = 0
  /\ act' = [name |-> "Drop", e |-> net[i].dst, a |-> i, b |-> 0]
  /\ UNCHANGED <<k, now, elapsed, rd, wr, latch, reinfl, phase, healed>>

Tick(d) ==
  /\ healed.on \/ elapsed + d <= MaxTime
  /\ now' = U(now + d) /\ elapsed' = elapsed + d
  /\ obs' = NoObs
  /\ phase = 0 /\ phase' = IF Drive = "tick" THEN 1 ELSE 0
  /\ act' = [name |-> "Tick", e |-> 0, a |-> d, b |-> 0]
  /\ UNCHANGED <<k, net, faults, rd, wr, latch, reinfl, healed>>

(* a forged datagram (one segment) fed straight to e: fields are relative to e's current state *)
Forge(e, f) ==
  /\ faults.forge < MaxForge
  /\ faults' = [faults EXCEPT !.forge = @ + 1]
  /\ LET seg == [cmd |-> f.cmd, frg |-> f.frg, wnd |-> f.wnd, ts |-> U(now + f.dts),
                 sn  |-> IF f.cmd = CMD_ACK THEN U(k[e].snd_una + f.dsn) ELSE U(k[e].rcv_nxt + f.dsn),
                 una |-> U(k[e].snd_una + f.duna), len |-> f.len, off |-> -1, bad |-> f.bad]
         r == InputOp(k[e], [segs |-> <<seg>>, short |-> FALSE], TRUE, Cfg.acknodelay = 1, now)
     IN /\ k' = [k EXCEPT ![e] = r.k]
        /\ net' = net \o ToNet(e, r.out)
        /\ obs' = [NoObs EXCEPT !.ret = r.ret, !.out = r.out, !.adm = r.adm, !.e = e,
                                 !.latched = Latched(e, k[e]) /\ r.k.snd_una = k[e].snd_una, !.reinfl = reinfl[e]]
        /\ latch' = LatchAfter(e, r.k, r.adm) /\ reinfl' = ReinflAfter(e, k[e], r.k, r.adm)
  /\ phase = 0
  /\ act' = [name |-> "Forge", e |-> e, a |-> 0, b |-> 0, f |-> f]
  /\ UNCHANGED <<now, elapsed, rd, wr, phase, healed>>

Drained == \A e \in Ends : WaitSnd(k[e]) = 0 /\ rd[Peer(e)].off = k[e].woff

(* the network heals: from now on nothing is lost or duplicated, the readers read, both ends are flushed every interval *)
Heal ==
  /\ ~healed.on /\ phase = 0
  /\ healed' = [on |-> TRUE, at |-> elapsed, bound |-> HealBound(k[1], now) + HealBound(k[2], now)]
  /\ obs' = NoObs
  /\ act' = [name |-> "Heal", e |-> 0, a |-> 0, b |-> 0]
  /\ UNCHANGED <<k, net, now, elapsed, faults, rd, wr, phase, latch, reinfl>>

FaultyNext ==
  \/ \E e \in Ends, n \in WriteSizes : Send(e, n)
  \/ \E e \in Ends, b \in ReadSizes : Recv(e, b)
  \/ \E e \in Ends : Flush(e)
  \/ \E e \in Ends : Update(e)
  \/ \E i \in 1..Len(net), keep \in {0, 1} : Deliver(i, keep)
  \/ \E i \in 1..Len(net) : Drop(i)
  \/ \E d \in Ticks : Tick(d)
  \/ \E e \in Ends, f \in Forged : Forge(e, f)

(* deterministic healed schedule: pending flushes of the round, then deliveries in order, then reads, then time *)
HealedNext ==
  IF phase # 0 THEN \E e \in Ends : Flush(e)
  ELSE IF net # <<>> THEN Deliver(1, 0)
  ELSE IF \E e \in Ends : PeekSize(k[e]) >= 0 THEN LET e == CHOOSE x \in Ends : PeekSize(k[x]) >= 0 IN Recv(e, 1000000)
  ELSE IF Drained THEN UNCHANGED vars
  ELSE Tick(k[1].interval)

Next == IF healed.on THEN HealedNext ELSE (FaultyNext \/ (HealEnabled /\ Heal))

Spec == Init /\ [][Next]_vars

(***************************** properties **********************************)
(* C01: what a reader has been given is a prefix of what the peer's writer had accepted *)
Prefix == \A e \in Ends : ~rd[e].bad /\ rd[e].off <= k[Peer(e)].woff
(* C01, message mode: the messages returned are a prefix of the messages sent, with their boundaries *)
MsgPrefix == Cfg.stream = 0 =>
               \A e \in Ends : /\ Len(rd[e].msgs) <= Len(wr[Peer(e)])
                               /\ \A i \in 1..Len(rd[e].msgs) : rd[e].msgs[i] = wr[Peer(e)][i]
(* C04 *)
WindowDiscipline == \A e \in Ends : EndpointOK(k[e])
(* C04: an emitted segment never advertises more than the delivery queue has free *)
TruthfulWnd == \A i \in 1..Len(net) : \A j \in 1..Len(net[i].dg.segs) :
                  net[i].dg.segs[j].wnd <= Cfg.rcvwnd
(* C10 (core part): never more than the MTU, never empty *)
OutSizeOK == \A i \in 1..Len(obs.out) : obs.out[i].size > 0 /\ obs.out[i].size <= k[1].mtu
(* C18 (first half) is stated on clean configurations: see KcpNet_clean.cfg *)
NoRetrans == \A e \in Ends : k[e].retrans = 0 /\ \A i \in 1..Len(k[e].snd_buf) : k[e].snd_buf[i].xmit <= 1
(* C04: a flush admits segments only up to min(snd_wnd, rmt_wnd[, cwnd]) outstanding *)
AdmitBelowWindow ==
  obs.adm.n > 0 => obs.adm.after <= Min(obs.adm.swnd, Min(obs.adm.rwnd, IF obs.adm.nocwnd = 0 THEN obs.adm.cwnd ELSE obs.adm.swnd))
(* C04: with congestion control on, nothing new is admitted after a timeout loss until snd_una has moved *)
(* The pinned code violates the clause in one corner (known finding C04/NoAdmitAfterLoss_Reinflated): a fast or early *)
(* retransmission in a later flush sets cwnd = ssthresh + resend, which can exceed the number outstanding.          *)
NoAdmitAfterLoss       == obs.latched /\ ~obs.reinfl => obs.adm.n = 0
NoAdmitAfterLossStrict == obs.latched => obs.adm.n = 0
UnaMonotone == [][\A e \in Ends : SDiff(k'[e].snd_una, k[e].snd_una) >= 0 /\ SDiff(k'[e].rcv_nxt, k[e].rcv_nxt) >= 0]_vars

(* C02 / C03: after healing everything written is delivered and both backlogs return to zero within the bound *)
(* known finding C02/Drained_AckedHeadLingers (see KcpObs): everything delivered, nothing queued, only segments that carry the *)
(* acked mark are left in a send buffer and no packet that would carry the covering una is left to be sent. The class is      *)
(* excluded so that TLC goes on exploring; DrainsWithinBoundStrict is the clause as stated.                                  *)
OnlyAckedLeft == /\ \A e \in Ends : /\ rd[Peer(e)].off = k[e].woff /\ k[e].snd_queue = <<>>
                                      /\ \A i \in 1..Len(k[e].snd_buf) : k[e].snd_buf[i].acked = 1
DrainsWithinBound == healed.on => (Drained \/ OnlyAckedLeft \/ elapsed - healed.at <= healed.bound)
DrainsWithinBoundStrict == healed.on => (Drained \/ elapsed - healed.at <= healed.bound)
(* C03: while the reader is paused nothing is lost and buffering stays within the C04 bounds (WindowDiscipline, Prefix) *)

(* projection compared with the implementation after every step *)
Proj == [k |-> k, net |-> net, now |-> elapsed, obs |-> obs]
View == <<k, net, now, faults, rd, wr, latch, reinfl, phase, healed>>
NetBound == Len(net) <= MaxNet
=============================================================================
