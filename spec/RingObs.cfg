SPECIFICATION Spec
CONSTANT Mut = 1000000
INVARIANTS NoPanic RetMatches LenMatches DeadZero FlagsMatch
CHECK_DEADLOCK FALSE
