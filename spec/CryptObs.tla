------------------------------- MODULE CryptObs -------------------------------
(* C08 monitors: one line per (cipher, key, packet length) with the comparisons the harness made between the real      *)
(* Encrypt/Decrypt and the reference evaluation of Cfb.tla's textbook recurrence; AEAD and concurrency lines.          *)
EXTENDS Integers, Sequences, TLC, Json
Trace == ndJsonDeserialize("trace.ndjson")
VARIABLES l
Init == l = 1
Next == l <= Len(Trace) /\ l' = l + 1
Spec == Init /\ [][Next]_l
Obs == Trace[l - 1]
IsLen == l > 1 /\ Obs.ev = "len"
C08_NoPanic == IsLen => ~Obs.panic
(* the ciphertext is exactly standard full-block CFB with the package's IV (block ciphers), the reference stream otherwise *)
C08_EncryptMatchesReference == IsLen => Obs.enc_sep /\ Obs.enc_inplace
(* decrypting an encrypted packet gives back the original bytes, in place and into a separate buffer *)
C08_DecryptRoundTrips == IsLen => Obs.dec_sep /\ Obs.dec_inplace
C08_InputsUntouched == IsLen => Obs.src_intact
C08_AeadInPlace == l > 1 /\ Obs.ev = "aead" => Obs.same_backing /\ Obs.interop /\ Obs.roundtrip
C08_AeadRefusesWithoutRoom == l > 1 /\ Obs.ev = "aead-noroom" => Obs.refused
C08_ConcurrentCallers == l > 1 /\ Obs.ev = "conc" => Obs.mismatches = 0
=============================================================================
