--------------------------- MODULE RingBuffer ---------------------------
(***************************************************************************)
(* ringbuffer.go transcribed operation by operation (C20).                 *)
(*                                                                         *)
(* Concrete state: the slot array `elems` (0 = Go zero value), `head`,      *)
(* `tail` (0-based as in the code; slot i is elems[i+1]).                    *)
(* Abstract state: `q`, the unbounded FIFO queue the ring must refine.      *)
(* Every action computes the concrete return value `ret` from the slot      *)
(* array and the abstract one `aret` from `q`; the properties say they are  *)
(* equal, that the live region of the array is exactly `q`, and that dead   *)
(* slots hold the zero value.                                               *)
(***************************************************************************)
EXTENDS Integers, Sequences, FiniteSets, TLC, Fifo

CONSTANTS MinCap,      \* RINGBUFFER_MIN  (8 in the code)
          ExpCap,      \* RINGBUFFER_EXP  (1024 in the code)
          MaxSlots,    \* model bound: Push that would grow beyond this is disabled
          MaxPush,     \* model bound: number of pushes
          InitLayouts, \* set of <<slots, head>>: initial (empty) layouts
          Mut          \* value added by a mutating iterator (> MaxPush)

VARIABLES elems, head, tail, q, ret, aret, nxt, act

vars == <<elems, head, tail, q, ret, aret, nxt, act>>

Cap     == Len(elems)
At(i)   == elems[i + 1]
RLen    == IF head <= tail THEN tail - head ELSE Cap - head + tail
IsFull  == (tail + 1) % Cap = head
Slot(k) == (head + k - 1) % Cap                   \* slot index of the k-th live element, k in 1..RLen
Abs     == [k \in 1..RLen |-> At(Slot(k))]         \* logical content
Live(i) == IF head <= tail THEN head <= i /\ i < tail ELSE i >= head \/ i < tail
Min(a, b) == IF a < b THEN a ELSE b

GrowSize(c) == IF c < MinCap THEN MinCap
               ELSE IF c < ExpCap THEN 2 * c
               ELSE c + (c + 9) \div 10

Init ==
  /\ \E lay \in InitLayouts :
        /\ elems = [i \in 1..lay[1] |-> 0]
        /\ head = lay[2] /\ tail = lay[2]
  /\ q = <<>> /\ ret = NoRet /\ aret = NoRet /\ nxt = 1
  /\ act = [op |-> "Init", a |-> 0, b |-> 0]

(* Push: grow() when full (order-preserving copy, head=0, tail=len), then store. *)
Push ==
  /\ nxt <= MaxPush
  /\ IsFull => GrowSize(Cap) <= MaxSlots
  /\ LET v  == nxt
         e1 == IF IsFull THEN [k \in 1..GrowSize(Cap) |-> IF k <= RLen THEN Abs[k] ELSE 0] ELSE elems
         h1 == IF IsFull THEN 0 ELSE head
         t1 == IF IsFull THEN RLen ELSE tail
     IN /\ elems' = [e1 EXCEPT ![t1 + 1] = v]
        /\ head' = h1
        /\ tail' = (t1 + 1) % Len(e1)
        /\ q' = QPush(q, v).q /\ aret' = QPush(q, v).r
        /\ nxt' = nxt + 1
        /\ ret' = NoRet
        /\ act' = [op |-> "Push", a |-> v, b |-> 0]

Pop ==
  /\ IF RLen = 0
       THEN /\ ret' = NoRet
            /\ UNCHANGED <<elems, head>>
       ELSE /\ ret' = [v |-> At(head), ok |-> TRUE, vis |-> <<>>]
            /\ elems' = [elems EXCEPT ![head + 1] = 0]
            /\ head' = (head + 1) % Cap
  /\ q' = QPop(q).q /\ aret' = QPop(q).r
  /\ UNCHANGED <<tail, nxt>>
  /\ act' = [op |-> "Pop", a |-> 0, b |-> 0]

Peek ==
  /\ ret'  = IF RLen = 0 THEN NoRet ELSE [v |-> At(head), ok |-> TRUE, vis |-> <<>>]
  /\ aret' = QPeek(q).r
  /\ UNCHANGED <<elems, head, tail, q, nxt>>
  /\ act' = [op |-> "Peek", a |-> 0, b |-> 0]

ClearedElems == [i \in 1..Cap |-> IF Live(i - 1) THEN 0 ELSE elems[i]]

Clear ==
  /\ elems' = ClearedElems /\ head' = 0 /\ tail' = 0
  /\ q' = QClear(q).q /\ aret' = QClear(q).r
  /\ ret' = NoRet
  /\ UNCHANGED nxt
  /\ act' = [op |-> "Clear", a |-> 0, b |-> 0]

(* Discard(n): three cases of the code: everything (-> Clear), contiguous, wrapping. *)
Discard(n) ==
  /\ LET m   == Min(n, RLen)
         end == head + m
     IN /\ ret' = [v |-> m, ok |-> TRUE, vis |-> <<>>]
        /\ IF m = RLen
             THEN elems' = ClearedElems /\ head' = 0 /\ tail' = 0
             ELSE IF end < Cap
                    THEN /\ elems' = [i \in 1..Cap |-> IF head <= i - 1 /\ i - 1 < end THEN 0 ELSE elems[i]]
                         /\ head' = end /\ tail' = tail
                    ELSE /\ elems' = [i \in 1..Cap |-> IF i - 1 >= head \/ i - 1 < end - Cap THEN 0 ELSE elems[i]]
                         /\ head' = end - Cap /\ tail' = tail
  /\ q' = QDiscard(q, n).q /\ aret' = QDiscard(q, n).r
  /\ UNCHANGED nxt
  /\ act' = [op |-> "Discard", a |-> n, b |-> 0]

(* ForEach(stop, mut): the callback returns false on its stop-th invocation      *)
(* (stop > length: never); with mut = 1 it adds Mut to every element it visits.   *)
ForEach(stop, mut) ==
  /\ LET nv == Min(stop, RLen)
         vs == [k \in 1..nv |-> At(Slot(k))]
     IN /\ mut = 1 => \A k \in 1..nv : vs[k] < Mut
        /\ ret' = [v |-> nv, ok |-> TRUE, vis |-> vs]
        /\ elems' = IF mut = 1
                      THEN [i \in 1..Cap |-> IF \E k \in 1..nv : Slot(k) = i - 1 THEN elems[i] + Mut ELSE elems[i]]
                      ELSE elems
  /\ q' = QForEach(q, stop, mut, Mut).q /\ aret' = QForEach(q, stop, mut, Mut).r
  /\ UNCHANGED <<head, tail, nxt>>
  /\ act' = [op |-> "ForEach", a |-> stop, b |-> mut]

ForEachReverse(stop, mut) ==
  /\ LET nv == Min(stop, RLen)
         vs == [k \in 1..nv |-> At(Slot(RLen - k + 1))]
     IN /\ mut = 1 => \A k \in 1..nv : vs[k] < Mut
        /\ ret' = [v |-> nv, ok |-> TRUE, vis |-> vs]
        /\ elems' = IF mut = 1
                      THEN [i \in 1..Cap |-> IF \E k \in 1..nv : Slot(RLen - k + 1) = i - 1 THEN elems[i] + Mut ELSE elems[i]]
                      ELSE elems
  /\ q' = QForEachReverse(q, stop, mut, Mut).q /\ aret' = QForEachReverse(q, stop, mut, Mut).r
  /\ UNCHANGED <<head, tail, nxt>>
  /\ act' = [op |-> "ForEachReverse", a |-> stop, b |-> mut]

DiscardArgs == {0, 1, 2} \cup {RLen - 1, RLen, RLen + 1} \cup {Cap - head, Cap - head - 1}
IterStops   == {1, 2, RLen, RLen + 1}

Next ==
  \/ Push \/ Pop \/ Peek \/ Clear
  \/ \E n \in DiscardArgs : n >= 0 /\ Discard(n)
  \/ \E s \in IterStops, m \in {0, 1} : s >= 1 /\ (ForEach(s, m) \/ ForEachReverse(s, m))

Spec == Init /\ [][Next]_vars

(***************************** properties **********************************)
TypeOK        == /\ head \in 0..(Cap - 1) /\ tail \in 0..(Cap - 1)
Refines       == Abs = q                       \* live region = FIFO model, in order
LenRefines    == RLen = Len(q)
RetRefines    == ret = aret                    \* returned element / count / iteration order / early stop
DeadSlotsZero == \A i \in 0..(Cap - 1) : ~Live(i) => At(i) = 0
ObserversOK   == /\ (head = tail) <=> (q = <<>>)                  \* IsEmpty
                 /\ IsFull <=> (Len(q) = Cap - 1)                 \* IsFull  <=> Len = MaxLen

(* projection compared with the implementation *)
Proj == [head |-> head, tail |-> tail, slots |-> elems, len |-> RLen, ret |-> ret, nxt |-> nxt]
=============================================================================
