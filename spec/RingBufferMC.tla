--------------------------- MODULE RingBufferMC ---------------------------
(* Model-checking / behaviour-generation wrapper for RingBuffer.tla.        *)
EXTENDS RingBuffer, Json

(* ACTION_CONSTRAINT that prints every explored transition as JSON; the     *)
(* edge list is turned into edge-covering paths and replayed into the code. *)
EdgeOut ==
  PrintT(<<"EDGE", ToJson([from |-> [s |-> Proj, a |-> act],
                           to   |-> [s |-> Proj', a |-> act']])>>)

(* A small family of initial layouts: every head offset of a 3-slot and a   *)
(* MinCap-slot ring.                                                         *)
Layouts(sizes) == UNION { { <<c, h>> : h \in 0..(c - 1) } : c \in sizes }
LayoutsSmall == Layouts({2, 3})
LayoutsMid   == Layouts({2, 4})
LayoutsReal  == Layouts({8})
Layouts8     == {<<8, 0>>, <<8, 6>>}
=============================================================================
