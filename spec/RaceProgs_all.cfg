\* every unordered pair of methods under every cipher/FEC class on both targets
SPECIFICATION Spec
CONSTANT AllCombos = TRUE
INVARIANT Emit
CONSTRAINT PairsOnly
CHECK_DEADLOCK FALSE
