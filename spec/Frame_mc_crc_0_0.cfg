\* Frame.tla instance: cipher kind crc, FEC 0/0, session MTU 100 (so that every overhead combination meets the bound)
SPECIFICATION FSpec
CONSTANTS
  W = 0
  RingN = 258
  MaxSets = 3
  CK = "crc"
  FD = 0
  FP = 0
  MTU = 100
  MTUs = {40, 72, 2000}
  ParityGuard = TRUE
  CoreSizes <- CoreSizesB
  OOBLens <- OOBLensB
  MaxOut = 6
INVARIANTS LenBound MtuAccepted SizeFieldRule TypeMatchesPosition IdsDistinct ParityCoversGroup IntegrityGuards OOBNeverEntersFecOrKcp OOBOnlyOwnConversation SessionOnlyForNewConversation ForeignConvNeverMerged
PROPERTIES OOBConsumesNoSeqid
CHECK_DEADLOCK FALSE
