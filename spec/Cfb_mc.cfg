SPECIFICATION CSpec
CONSTANT MaxBlocks = 17
INVARIANT Correct
CHECK_DEADLOCK FALSE
