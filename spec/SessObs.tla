------------------------------- MODULE SessObs -------------------------------
(***************************************************************************)
(* Session-level property monitors over traces recorded from real sessions  *)
(* and listeners running over the in-memory network in virtual time.        *)
(* Datagram lines ("dg") carry what the independent decoder (README frame    *)
(* layout + reference ciphers + reference Reed-Solomon) found at the WriteTo *)
(* boundary; application lines carry calls, results and virtual times.       *)
(* Invariant names start with the property they decide.                      *)
(***************************************************************************)
EXTENDS Integers, Sequences, FiniteSets, TLC, Json
Trace == ndJsonDeserialize("trace.ndjson")

VARIABLES l, cf,
          exp,    \* exp[c]: message mode: lengths of the messages written at connection c and not yet read by the peer
          rdoff,  \* rdoff[c]: bytes read so far at connection c
          fec,    \* fec[flow]: last FEC sequence id seen on the flow (relative to its first)
          pf,     \* for the datagram line just consumed: the flow's previous FEC id (-1: none yet, -2: not applicable)
          en      \* for the read line just consumed: the length of the message that was next (-1: not applicable)
ovars == <<l, cf, exp, rdoff, fec, pf, en>>
Conns == {"cli", "srv"}
OtherEnd(c) == IF c = "cli" THEN "srv" ELSE "cli"

Min(a, b) == IF a < b THEN a ELSE b
(* exp[c] is a sequence of [left, mss]: a Write of n bytes is cut into messages of at most mss bytes *)
NextMsg(q) == Min(q[1].left, q[1].mss)
PopMsg(q) == IF q[1].left <= q[1].mss THEN Tail(q) ELSE <<[q[1] EXCEPT !.left = @ - q[1].mss]>> \o Tail(q)

Init == /\ l = 1
        /\ cf = [cipher |-> "nil", d |-> 0, p |-> 0, stream |-> TRUE, closemid |-> FALSE, faulty |-> FALSE]
        /\ exp = [c \in Conns |-> <<>>] /\ rdoff = [c \in Conns |-> 0]
        /\ fec = [f \in {} |-> 0] /\ pf = -2 /\ en = -1

Next ==
  /\ l <= Len(Trace) /\ l' = l + 1
  /\ LET t == Trace[l] IN
     IF t.ev = "reset"
       THEN /\ cf' = [cipher |-> t.cfg.cipher, d |-> t.cfg.d, p |-> t.cfg.p, stream |-> t.cfg.stream, closemid |-> t.closemid,
                      faulty |-> t.faulty]
            /\ exp' = [c \in Conns |-> <<>>] /\ rdoff' = [c \in Conns |-> 0] /\ fec' = [f \in {} |-> 0] /\ pf' = -2 /\ en' = -1
       ELSE
       LET isfec == t.ev = "dg" /\ ~t.injected /\ t.fecon /\ t.cryptok /\ t.fectype \in {241, 242}
           flow  == <<t.src, t.dst>>
           msgrd == t.ev = "read" /\ ~cf.stream /\ exp[OtherEnd(t.conn)] # <<>>
       IN
       /\ pf' = IF isfec THEN (IF flow \in DOMAIN fec THEN fec[flow] ELSE -1) ELSE -2
       /\ en' = IF msgrd THEN NextMsg(exp[OtherEnd(t.conn)]) ELSE -1
       /\ cf' = cf
       /\ exp' = IF t.ev = "write" /\ t.n > 0 THEN [exp EXCEPT ![t.conn] = Append(@, [left |-> t.n, mss |-> t.mss])]
                 ELSE IF msgrd THEN [exp EXCEPT ![OtherEnd(t.conn)] = PopMsg(@)]
                 ELSE exp
       /\ rdoff' = IF t.ev = "read" THEN [rdoff EXCEPT ![t.conn] = @ + t.n] ELSE rdoff
       /\ fec' = IF isfec THEN [x \in DOMAIN fec \cup {flow} |-> IF x = flow THEN t.fecseq ELSE fec[x]] ELSE fec
Spec == Init /\ [][Next]_ovars

Obs == Trace[l - 1]
Is(e) == l > 1 /\ Obs.ev = e
Genuine == Is("dg") /\ ~Obs.injected        \* a datagram emitted by a session the monitor knows

(* ---- C01 (session level) ---- *)
C01_ReadIsNextBytes == Is("read") => Obs.ok /\ Obs.off = rdoff[Obs.conn] - Obs.n
(* message mode: one Read (with a buffer that fits) returns exactly one message as written (Write cuts a buffer into *)
(* messages of at most one MSS)                                                                                      *)
C01_MessageBoundaries == Is("read") /\ en >= 0 /\ Obs.buf >= 65536 /\ ~cf.closemid => Obs.n = en

(* ---- C02 / C03 (session level): a transfer that is not cut short by Close completes ---- *)
C02_TransferCompletes == Is("end") /\ ~cf.closemid => Obs.complete

(* ---- C09: frame layout, FEC numbering, nonce freshness ---- *)
C09_Layout == Genuine => /\ Obs.cryptok                                  \* integrity field verifies under the reference cipher
                         /\ Obs.cryptok => Obs.tiles /\ Obs.sizeok /\ Obs.convok
C09_ParityIsReedSolomon == Genuine /\ Obs.cryptok /\ Obs.fectype = 242 => Obs.parityok
C09_FecTypeMatchesPosition ==
  Genuine /\ Obs.cryptok /\ Obs.fecon /\ Obs.fectype \in {241, 242} =>
     LET n == Obs.fd + Obs.fp IN IF Obs.fecseq % n < Obs.fd THEN Obs.fectype = 241 ELSE Obs.fectype = 242
(* ids strictly increase on a flow (no repeats within a wrap period) and advance by one, or over a skipped parity block *)
(* (runs that close sessions in mid-transfer are exempt: the listener then creates a fresh session, with a fresh   *)
(* encoder, for the peer that is still retransmitting)                                                            *)
C09_FecSequence ==
  Genuine /\ pf >= -1 /\ ~cf.closemid =>
     LET n == Obs.fd + Obs.fp IN
     /\ Obs.fecseq > pf
     /\ \/ Obs.fecseq - pf = 1
        \/ pf >= 0 /\ pf % n = Obs.fd - 1 /\ Obs.fecseq - pf = Obs.fp + 1
C09_NonceFresh == Genuine /\ cf.cipher # "nil" => Obs.noncenew /\ Obs.bytesnew
C09_WireReassembles == Is("end") => /\ Obs.wire_consistent /\ Obs.wire_content_ok
                                    /\ (Obs.complete => Obs.wire_prefix = Obs.written)

(* ---- C10: no datagram above the configured MTU ---- *)
(* ("openparity" marks a parity packet above the MTU in force whose group contains a data packet sent under a larger, earlier  *)
(* MTU: SetMtu accepted a smaller value while the FEC group was open -- repaired in the library, so it is judged like any other) *)
C10_LenWithinMtu == Genuine /\ Obs.mtu > 0 => Obs.len <= Obs.mtu /\ Obs.len > 0

(* ---- C19: out-of-band messages ---- *)
C19_IntactOrAbsent == Is("oobrecv") => Obs.known
C19_RefusalRule == Is("oobsend") => (Obs.refused <=> (Obs.len > Obs.max \/ cf.d = 0))
C19_OOBFrame == Genuine /\ Obs.cryptok /\ Obs.fectype = 243 => Obs.sizeok /\ Obs.convok /\ Obs.ooblen >= 0

(* ---- C15: teardown ---- *)
C15_NoLeak == Is("teardown") => Obs.leaks = <<>>
C15_NoLeak_BacklogSession == Is("teardown") => Obs.backlog_leaks = 0
C15_PoolOwnership == Is("teardown") => Obs.pool_anomalies = <<>>
C13_AfterClose == Is("afterclose") => Obs.close2_err /\ Obs.write_err

(* ---- C06: integrity failures have no effect ---- *)
C06_NoEffect == Is("corrupt") => Obs.same
C06_CounterOnly == Is("corrupt") => IF Obs.short THEN Obs.csum = 0 ELSE Obs.csum = 1

(* ---- C05: bounded state under garbage ---- *)
C05_Bounds == Is("bounds") => Obs.rcvq <= Obs.rcvwnd /\ Obs.rcvb <= Obs.rcvwnd /\ Obs.sets <= 5
=============================================================================
