------------------------------- MODULE SessObs -------------------------------
(***************************************************************************)
(* Session-level property monitors over traces recorded from real sessions  *)
(* and listeners running over the in-memory network in virtual time.        *)
(* Datagram lines ("dg") carry what the independent decoder (README frame    *)
(* layout + reference ciphers + reference Reed-Solomon) found at the WriteTo *)
(* boundary; application lines carry calls, results and virtual times.       *)
(* Invariant names start with the property they decide.                      *)
(***************************************************************************)
EXTENDS Integers, Sequences, FiniteSets, TLC, Json
Trace == ndJsonDeserialize("trace.ndjson")

VARIABLES l, cf,
          exp,    \* exp[c]: message mode: lengths of the messages written at connection c and not yet read by the peer
          rdoff,  \* rdoff[c]: bytes read so far at connection c
          fec,    \* fec[flow]: last FEC sequence id seen on the flow (relative to its first)
          pf,     \* for the datagram line just consumed: the flow's previous FEC id (-1: none yet, -2: not applicable)
          en,     \* for the read line just consumed: the number of bytes that Read had to return (-1: not applicable)
          rem     \* rem[c]: message mode: bytes of the message that reader c is in the middle of (0: at a message boundary)
ovars == <<l, cf, exp, rdoff, fec, pf, en, rem>>
Conns == {"cli", "srv"}
OtherEnd(c) == IF c = "cli" THEN "srv" ELSE "cli"

Min(a, b) == IF a < b THEN a ELSE b
(* exp[c] is a sequence of [left, mss]: a Write of n bytes is cut into messages of at most mss bytes *)
NextMsg(q) == Min(q[1].left, q[1].mss)
PopMsg(q) == IF q[1].left <= q[1].mss THEN Tail(q) ELSE <<[q[1] EXCEPT !.left = @ - q[1].mss]>> \o Tail(q)

Init == /\ l = 1
        /\ cf = [cipher |-> "nil", d |-> 0, p |-> 0, stream |-> TRUE, closemid |-> FALSE, faulty |-> FALSE, clean |-> FALSE, nodelay |-> 0]
        /\ exp = [c \in Conns |-> <<>>] /\ rdoff = [c \in Conns |-> 0]
        /\ fec = [f \in {} |-> 0] /\ pf = -2 /\ en = -1 /\ rem = [c \in Conns |-> 0]

Next ==
  /\ l <= Len(Trace) /\ l' = l + 1
  /\ LET t == Trace[l] IN
     IF t.ev = "reset"
       THEN /\ cf' = [cipher |-> t.cfg.cipher, d |-> t.cfg.d, p |-> t.cfg.p, stream |-> t.cfg.stream, closemid |-> t.closemid,
                      faulty |-> t.faulty, clean |-> t.clean, nodelay |-> t.cfg.nodelay]
            /\ exp' = [c \in Conns |-> <<>>] /\ rdoff' = [c \in Conns |-> 0] /\ fec' = [f \in {} |-> 0] /\ pf' = -2 /\ en' = -1
            /\ rem' = [c \in Conns |-> 0]
       ELSE
       LET isfec == t.ev = "dg" /\ ~t.injected /\ t.fecon /\ t.cryptok /\ t.fectype \in {241, 242}
           flow  == <<t.src, t.dst>>
           (* the sequential meaning of Read in message mode: inside a message it returns min(buffer, rest of the message); at a *)
           (* boundary it takes the next message (a Write is cut into messages of at most one MSS) and returns min(buffer, its   *)
           (* length), the rest stays for the following Reads -- a Read never spans two messages                                *)
           inmsg == t.ev = "read" /\ ~cf.stream /\ rem[t.conn] > 0
           msgrd == t.ev = "read" /\ ~cf.stream /\ rem[t.conn] = 0 /\ exp[OtherEnd(t.conn)] # <<>>
           want  == IF inmsg THEN Min(t.buf, rem[t.conn]) ELSE IF msgrd THEN Min(t.buf, NextMsg(exp[OtherEnd(t.conn)])) ELSE -1
       IN
       /\ pf' = IF isfec THEN (IF flow \in DOMAIN fec THEN fec[flow] ELSE -1) ELSE -2
       /\ en' = want
       /\ rem' = IF inmsg THEN [rem EXCEPT ![t.conn] = @ - want]
                 ELSE IF msgrd THEN [rem EXCEPT ![t.conn] = NextMsg(exp[OtherEnd(t.conn)]) - want]
                 ELSE rem
       /\ cf' = cf
       /\ exp' = IF t.ev = "write" /\ t.n > 0 THEN [exp EXCEPT ![t.conn] = Append(@, [left |-> t.n, mss |-> t.mss])]
                 ELSE IF msgrd THEN [exp EXCEPT ![OtherEnd(t.conn)] = PopMsg(@)]
                 ELSE exp
       /\ rdoff' = IF t.ev = "read" THEN [rdoff EXCEPT ![t.conn] = @ + t.n] ELSE rdoff
       /\ fec' = IF isfec THEN [x \in DOMAIN fec \cup {flow} |-> IF x = flow THEN t.fecseq ELSE fec[x]] ELSE fec
Spec == Init /\ [][Next]_ovars

Obs == Trace[l - 1]
Is(e) == l > 1 /\ Obs.ev = e
Genuine == Is("dg") /\ ~Obs.injected        \* a datagram emitted by a session the monitor knows

(* ---- C01 (session level) ---- *)
C01_ReadIsNextBytes == Is("read") => Obs.ok /\ Obs.off = rdoff[Obs.conn] - Obs.n
(* message mode: Read returns exactly min(buffer, rest of the current message); a message is a chunk of at most one MSS  *)
(* of a Write; see `want` above                                                                                          *)
C01_MessageBoundaries == Is("read") /\ en >= 0 /\ ~cf.closemid => Obs.n = en

(* ---- C02 / C03 (session level): a transfer that is not cut short by Close completes ---- *)
C02_TransferCompletes == Is("end") /\ ~cf.closemid => Obs.complete

(* ---- C04 (session level): a Write is admitted only while fewer than a send window of segments are pending ---- *)
(* ("wadmit" is emitted under the session mutex in the branch of WriteBuffers that queues the data; waitsnd is computed *)
(* by the hook from the two send rings, not taken from the code's own variable)                                        *)
C04_WriteAdmission == Is("wadmit") => Obs.waitsnd < Obs.sndwnd

(* ---- C18 (session level) ---- *)
(* clean path (nothing lost / duplicated / reordered, RTT incl. the peer's acknowledgement delay below the minimum RTO, reader keeps *)
(* up, receive window >= min(send window, 32)): no data segment is on the wire twice, the retransmission counter does not move      *)
C18_SessNoRetransOnCleanPath == Is("end") /\ cf.clean => Obs.retrans = 0 /\ Obs.wire_resent = 0
(* the RTO a session reports, sampled throughout every run *)
(* (the minimum is the configured one: 30 ms in no-delay mode, 100 ms otherwise) *)
C18_SessRtoBounds == Is("bounds") => Obs.minrto <= Obs.rto /\ Obs.rto <= 60000 /\ (IF cf.nodelay # 0 THEN 30 ELSE 100) <= Obs.rto

(* ---- C09: frame layout, FEC numbering, nonce freshness ---- *)
C09_Layout == Genuine => /\ Obs.cryptok                                  \* integrity field verifies under the reference cipher
                         /\ Obs.cryptok => Obs.tiles /\ Obs.sizeok /\ Obs.convok
C09_ParityIsReedSolomon == Genuine /\ Obs.cryptok /\ Obs.fectype = 242 => Obs.parityok
(* fecpos: the absolute id modulo (d+p); fecinrange: the absolute id is below the wrap value (ids are 32-bit: both are computed *)
(* by the decoder in the harness, TLC's integers do not reach 2^32); fecseq: the id relative to the first group seen on the flow, *)
(* counted modulo the wrap value                                                                                                *)
C09_FecTypeMatchesPosition ==
  Genuine /\ Obs.cryptok /\ Obs.fecon /\ Obs.fectype \in {241, 242} =>
     IF Obs.fecpos < Obs.fd THEN Obs.fectype = 241 ELSE Obs.fectype = 242
C09_FecIdInRange == Genuine /\ Obs.cryptok /\ Obs.fecon /\ Obs.fectype \in {241, 242} => Obs.fecinrange
(* ids strictly increase on a flow (no repeats within a wrap period) and advance by one, or over a skipped parity block *)
(* (runs that close sessions in mid-transfer are exempt: the listener then creates a fresh session, with a fresh   *)
(* encoder, for the peer that is still retransmitting)                                                            *)
C09_FecSequence ==
  Genuine /\ pf >= -1 /\ ~cf.closemid =>
     LET n == Obs.fd + Obs.fp IN
     /\ Obs.fecseq > pf
     /\ \/ Obs.fecseq - pf = 1
        \/ pf >= 0 /\ pf % n = Obs.fd - 1 /\ Obs.fecseq - pf = Obs.fp + 1
C09_NonceFresh == Genuine /\ cf.cipher # "nil" => Obs.noncenew /\ Obs.bytesnew
C09_WireReassembles == Is("end") => /\ Obs.wire_consistent /\ Obs.wire_content_ok
                                    /\ (Obs.complete => Obs.wire_prefix = Obs.written)

(* ---- C10: no datagram above the configured MTU ---- *)
(* ("openparity" marks a parity packet above the MTU in force whose group contains a data packet sent under a larger, earlier  *)
(* MTU: SetMtu accepted a smaller value while the FEC group was open -- repaired in the library, so it is judged like any other) *)
C10_LenWithinMtu == Genuine /\ Obs.mtu > 0 => Obs.len <= Obs.mtu /\ Obs.len > 0

(* ---- C19: out-of-band messages ---- *)
C19_IntactOrAbsent == Is("oobrecv") => Obs.known
C19_RefusalRule == Is("oobsend") => (Obs.refused <=> (Obs.len > Obs.max \/ cf.d = 0))
C19_OOBFrame == Genuine /\ Obs.cryptok /\ Obs.fectype = 243 => Obs.sizeok /\ Obs.convok /\ Obs.ooblen >= 0

(* ---- C15: teardown ---- *)
C15_NoLeak == Is("teardown") => Obs.leaks = <<>>
C15_NoLeak_BacklogSession == Is("teardown") => Obs.backlog_leaks = 0
C15_PoolOwnership == Is("teardown") => Obs.pool_anomalies = <<>>
C13_AfterClose == Is("afterclose") => Obs.close2_err /\ Obs.write_err

(* ---- C06: integrity failures have no effect ---- *)
C06_NoEffect == Is("corrupt") => Obs.same
C06_CounterOnly == Is("corrupt") => IF Obs.short THEN Obs.csum = 0 ELSE Obs.csum = 1

(* ---- C05: bounded state under garbage ---- *)
C05_Bounds == Is("bounds") => Obs.rcvq <= Obs.rcvwnd /\ Obs.rcvb <= Obs.rcvwnd /\ Obs.sets <= 5
(* C04 at session level: the same samples, plus the sender's outstanding segments *)
C04_SessBounds == Is("bounds") => Obs.rcvq <= Obs.rcvwnd /\ Obs.rcvb <= Obs.rcvwnd /\ Obs.sndb <= Obs.sndwnd
=============================================================================
