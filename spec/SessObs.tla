------------------------------- MODULE SessObs -------------------------------
(***************************************************************************)
(* Session-level property monitors over traces recorded from real sessions  *)
(* and listeners running over the in-memory network in virtual time.        *)
(* Datagram lines ("dg") carry what the independent decoder (README frame    *)
(* layout + reference ciphers + reference Reed-Solomon) found at the WriteTo *)
(* boundary; application lines carry calls, results and virtual times.       *)
(* Invariant names start with the property they decide.                      *)
(***************************************************************************)
EXTENDS Integers, Sequences, FiniteSets, TLC, Json
Trace == ndJsonDeserialize("trace.ndjson")

VARIABLES l, cf,
          exp,    \* exp[c]: message mode: lengths of the messages written at connection c and not yet read by the peer
          rdoff,  \* rdoff[c]: bytes read so far at connection c
          fec,    \* fec[flow]: last FEC sequence id seen on the flow (relative to its first)
          pf,     \* for the datagram line just consumed: the flow's previous FEC id (-1: none yet, -2: not applicable)
          en,     \* for the read line just consumed: the number of bytes that Read had to return (-1: not applicable)
          rem,    \* rem[c]: message mode: bytes of the message that reader c is in the middle of (0: at a message boundary)
          ld,     \* ld[flow]: virtual time of the flow's latest FEC data packet (the encoder's continuity clock)
          due,    \* due[flow]: parity packets the flow's encoder still owes for the group it has just completed
          pd      \* for the datagram line just consumed: what the flow owed before it (0: nothing / not applicable)
ovars == <<l, cf, exp, rdoff, fec, pf, en, rem, ld, due, pd>>
Conns == {"cli", "srv"}
OtherEnd(c) == IF c = "cli" THEN "srv" ELSE "cli"

Min(a, b) == IF a < b THEN a ELSE b
ContinuityMs == 500     \* sess.go maxFECEncodeLatency: the gap between two data packets above which a group gets no parity
(* exp[c] is a sequence of [left, mss]: a Write of n bytes is cut into messages of at most mss bytes *)
NextMsg(q) == Min(q[1].left, q[1].mss)
PopMsg(q) == IF q[1].left <= q[1].mss THEN Tail(q) ELSE <<[q[1] EXCEPT !.left = @ - q[1].mss]>> \o Tail(q)

Init == /\ l = 1
        /\ cf = [cipher |-> "nil", d |-> 0, p |-> 0, stream |-> TRUE, closemid |-> FALSE, faulty |-> FALSE, clean |-> FALSE, nodelay |-> 0,
                 paced |-> FALSE]
        /\ exp = [c \in Conns |-> <<>>] /\ rdoff = [c \in Conns |-> 0]
        /\ fec = [f \in {} |-> 0] /\ pf = -2 /\ en = -1 /\ rem = [c \in Conns |-> 0]
        /\ ld = [f \in {} |-> 0] /\ due = [f \in {} |-> 0] /\ pd = 0

Next ==
  /\ l <= Len(Trace) /\ l' = l + 1
  /\ LET t == Trace[l] IN
     IF t.ev = "reset"
       THEN /\ cf' = [cipher |-> t.cfg.cipher, d |-> t.cfg.d, p |-> t.cfg.p, stream |-> t.cfg.stream, closemid |-> t.closemid,
                      faulty |-> t.faulty, clean |-> t.clean, nodelay |-> t.cfg.nodelay, paced |-> t.paced]
            /\ exp' = [c \in Conns |-> <<>>] /\ rdoff' = [c \in Conns |-> 0] /\ fec' = [f \in {} |-> 0] /\ pf' = -2 /\ en' = -1
            /\ rem' = [c \in Conns |-> 0]
            /\ ld' = [f \in {} |-> 0] /\ due' = [f \in {} |-> 0] /\ pd' = 0
       ELSE
       LET isfec == t.ev = "dg" /\ ~t.injected /\ t.fecon /\ t.cryptok /\ t.fectype \in {241, 242}
           flow  == <<t.src, t.dst>>
           (* the encoder's continuity rule (fec.go, encode): the data packet that completes a group is followed by the group's  *)
           (* parity packets iff it comes less than 500 ms after the encoder's previous DATA packet; nothing else moves that     *)
           (* clock, and data + parity of one group are handed to the transport together. "steady": the harness knows that no    *)
           (* SetMtu touched the flow since the group began (a parity packet above a smaller new MTU is rightly withheld).       *)
           fecdg == t.ev = "dg" /\ ~t.injected /\ t.fecon /\ t.cryptok /\ t.fectype \in {241, 242, 243}
           owed  == IF fecdg /\ flow \in DOMAIN due THEN due[flow] ELSE 0
           closes == /\ fecdg /\ t.fectype = 241 /\ t.fecpos = t.fd - 1 /\ t.fp > 0 /\ t.steady
                     /\ ~cf.paced /\ ~cf.closemid
                     /\ flow \in DOMAIN ld /\ t.t - ld[flow] < ContinuityMs - 2
           (* the sequential meaning of Read in message mode: inside a message it returns min(buffer, rest of the message); at a *)
           (* boundary it takes the next message (a Write is cut into messages of at most one MSS) and returns min(buffer, its   *)
           (* length), the rest stays for the following Reads -- a Read never spans two messages                                *)
           inmsg == t.ev = "read" /\ ~cf.stream /\ rem[t.conn] > 0
           msgrd == t.ev = "read" /\ ~cf.stream /\ rem[t.conn] = 0 /\ exp[OtherEnd(t.conn)] # <<>>
           want  == IF inmsg THEN Min(t.buf, rem[t.conn]) ELSE IF msgrd THEN Min(t.buf, NextMsg(exp[OtherEnd(t.conn)])) ELSE -1
       IN
       /\ pf' = IF isfec THEN (IF flow \in DOMAIN fec THEN fec[flow] ELSE -1) ELSE -2
       /\ en' = want
       /\ rem' = IF inmsg THEN [rem EXCEPT ![t.conn] = @ - want]
                 ELSE IF msgrd THEN [rem EXCEPT ![t.conn] = NextMsg(exp[OtherEnd(t.conn)]) - want]
                 ELSE rem
       /\ cf' = cf
       /\ exp' = IF t.ev = "write" /\ t.n > 0 THEN [exp EXCEPT ![t.conn] = Append(@, [left |-> t.n, mss |-> t.mss])]
                 ELSE IF msgrd THEN [exp EXCEPT ![OtherEnd(t.conn)] = PopMsg(@)]
                 ELSE exp
       /\ rdoff' = IF t.ev = "read" THEN [rdoff EXCEPT ![t.conn] = @ + t.n] ELSE rdoff
       /\ fec' = IF isfec THEN [x \in DOMAIN fec \cup {flow} |-> IF x = flow THEN t.fecseq ELSE fec[x]] ELSE fec
       /\ pd' = owed
       /\ ld' = IF fecdg /\ t.fectype = 241 THEN [x \in DOMAIN ld \cup {flow} |-> IF x = flow THEN t.t ELSE ld[x]] ELSE ld
       /\ due' = IF ~fecdg THEN due
                 ELSE [x \in DOMAIN due \cup {flow} |->
                         IF x # flow THEN due[x]
                         ELSE IF closes THEN t.fp
                         ELSE IF t.fectype = 242 /\ owed > 0 THEN owed - 1
                         ELSE 0]
Spec == Init /\ [][Next]_ovars

Obs == Trace[l - 1]
Is(e) == l > 1 /\ Obs.ev = e
Genuine == Is("dg") /\ ~Obs.injected        \* a datagram emitted by a session the monitor knows

(* ---- C01 (session level) ---- *)
C01_ReadIsNextBytes == Is("read") => Obs.ok /\ Obs.off = rdoff[Obs.conn] - Obs.n
(* message mode: Read returns exactly min(buffer, rest of the current message); a message is a chunk of at most one MSS  *)
(* of a Write; see `want` above                                                                                          *)
C01_MessageBoundaries == Is("read") /\ en >= 0 /\ ~cf.closemid => Obs.n = en

(* ---- C02 / C03 (session level): a transfer that is not cut short by Close completes ---- *)
C02_TransferCompletes == Is("end") /\ ~cf.closemid => Obs.complete

(* ---- C04 (session level): a Write is admitted only while fewer than a send window of segments are pending ---- *)
(* ("wadmit" is emitted under the session mutex in the branch of WriteBuffers that queues the data; waitsnd is computed *)
(* by the hook from the two send rings, not taken from the code's own variable)                                        *)
C04_WriteAdmission == Is("wadmit") => Obs.waitsnd < Obs.sndwnd

(* ---- C18 (session level) ---- *)
(* clean path (nothing lost / duplicated / reordered, RTT incl. the peer's acknowledgement delay below the minimum RTO, reader keeps *)
(* up, receive window >= min(send window, 32)): no data segment is on the wire twice, the retransmission counter does not move      *)
C18_SessNoRetransOnCleanPath == Is("end") /\ cf.clean => Obs.retrans = 0 /\ Obs.wire_resent = 0
(* the RTO a session reports, sampled throughout every run *)
(* (the minimum is the configured one: 30 ms in no-delay mode, 100 ms otherwise) *)
C18_SessRtoBounds == Is("bounds") => Obs.minrto <= Obs.rto /\ Obs.rto <= 60000 /\ (IF cf.nodelay # 0 THEN 30 ELSE 100) <= Obs.rto

(* ---- C09: frame layout, FEC numbering, nonce freshness ---- *)
C09_Layout == Genuine => /\ Obs.cryptok                                  \* integrity field verifies under the reference cipher
                         /\ Obs.cryptok => Obs.tiles /\ Obs.sizeok /\ Obs.convok
C09_ParityIsReedSolomon == Genuine /\ Obs.cryptok /\ Obs.fectype = 242 => Obs.parityok
(* fecpos: the absolute id modulo (d+p); fecinrange: the absolute id is below the wrap value (ids are 32-bit: both are computed *)
(* by the decoder in the harness, TLC's integers do not reach 2^32); fecseq: the id relative to the first group seen on the flow, *)
(* counted modulo the wrap value                                                                                                *)
C09_FecTypeMatchesPosition ==
  Genuine /\ Obs.cryptok /\ Obs.fecon /\ Obs.fectype \in {241, 242} =>
     IF Obs.fecpos < Obs.fd THEN Obs.fectype = 241 ELSE Obs.fectype = 242
C09_FecIdInRange == Genuine /\ Obs.cryptok /\ Obs.fecon /\ Obs.fectype \in {241, 242} => Obs.fecinrange
(* ids strictly increase on a flow (no repeats within a wrap period) and advance by one, or over a skipped parity block *)
(* (runs that close sessions in mid-transfer are exempt: the listener then creates a fresh session, with a fresh   *)
(* encoder, for the peer that is still retransmitting)                                                            *)
C09_FecSequence ==
  Genuine /\ pf >= -1 /\ ~cf.closemid =>
     LET n == Obs.fd + Obs.fp IN
     /\ Obs.fecseq > pf
     /\ \/ Obs.fecseq - pf = 1
        \/ pf >= 0 /\ pf % n = Obs.fd - 1 /\ Obs.fecseq - pf = Obs.fp + 1
C09_NonceFresh == Genuine /\ cf.cipher # "nil" => Obs.noncenew /\ Obs.bytesnew
C09_WireReassembles == Is("end") => /\ Obs.wire_consistent /\ Obs.wire_content_ok
                                    /\ (Obs.complete => Obs.wire_prefix = Obs.written)

(* ---- C10: no datagram above the configured MTU ---- *)
(* ("openparity" marks a parity packet above the MTU in force whose group contains a data packet sent under a larger, earlier  *)
(* MTU: SetMtu accepted a smaller value while the FEC group was open -- repaired in the library, so it is judged like any other) *)
C10_LenWithinMtu == Genuine /\ Obs.mtu > 0 => Obs.len <= Obs.mtu /\ Obs.len > 0

(* ---- C19: out-of-band messages ---- *)
C19_IntactOrAbsent == Is("oobrecv") => Obs.known
C19_RefusalRule == Is("oobsend") => (Obs.refused <=> (Obs.len > Obs.max \/ cf.d = 0))
(* "never weakens its FEC protection": a group whose data packets follow each other within the continuity window gets all its *)
(* parity packets, right behind its last data packet -- whatever out-of-band traffic is interleaved with the data           *)
C19_FecProtectionKept == Genuine /\ Obs.cryptok /\ Obs.fecon /\ pd > 0 => Obs.fectype = 242 /\ Obs.fecpos = Obs.fd + Obs.fp - pd
C19_OOBFrame == Genuine /\ Obs.cryptok /\ Obs.fectype = 243 => Obs.sizeok /\ Obs.convok /\ Obs.ooblen >= 0

(* ---- C15: teardown ---- *)
C15_NoLeak == Is("teardown") => Obs.leaks = <<>>
C15_NoLeak_BacklogSession == Is("teardown") => Obs.backlog_leaks = 0
C15_PoolOwnership == Is("teardown") => Obs.pool_anomalies = <<>>
C13_AfterClose == Is("afterclose") => Obs.close2_err /\ Obs.write_err

(* ---- C06: integrity failures have no effect ---- *)
C06_NoEffect == Is("corrupt") => Obs.same
C06_CounterOnly == Is("corrupt") => IF Obs.short THEN Obs.csum = 0 ELSE Obs.csum = 1

(* ---- C05: bounded state under garbage ---- *)
C05_Bounds == Is("bounds") => Obs.rcvq <= Obs.rcvwnd /\ Obs.rcvb <= Obs.rcvwnd /\ Obs.sets <= 5
(* C04 at session level: the same samples, plus the sender's outstanding segments *)
C04_SessBounds == Is("bounds") => Obs.rcvq <= Obs.rcvwnd /\ Obs.rcvb <= Obs.rcvwnd /\ Obs.sndb <= Obs.sndwnd
=============================================================================
