------------------------------ MODULE KcpGoals ------------------------------
(***************************************************************************)
(* Coverage goals for KcpNet: each Goal_X is the NEGATION of a situation    *)
(* worth executing on the real code (a rarely taken branch of kcp.go, a     *)
(* coincidence of two mechanisms in one call).  Checked as an invariant,    *)
(* TLC's breadth-first search returns a shortest behaviour that reaches the *)
(* situation; that witness is replayed into the real KCP objects with the   *)
(* projection compared after every step, then continued by the settling     *)
(* phase.  This is how branches that random simulation rarely reaches are   *)
(* bound to the code (one test per interesting transition).                 *)
(***************************************************************************)
EXTENDS KcpNetMC

A == obs.adm
SomeSeg(P(_)) == \E i \in 1..Len(obs.out) : \E j \in 1..Len(obs.out[i].segs) : P(obs.out[i].segs[j])
CountSegs(c) == LET RECURSIVE cnt(_, _)
                    cnt(o, i) == IF i > Len(o) THEN 0
                                 ELSE Cardinality({j \in 1..Len(o[i].segs) : o[i].segs[j].cmd = c}) + cnt(o, i + 1)
                IN cnt(obs.out, 1)

(* retransmission machinery *)
Goal_RtoRetransmit      == ~(A.lost > 0)
Goal_FastOrEarly        == ~(A.change > 0)
Goal_LossAndFastTogether == ~(A.lost > 0 /\ A.change > 0)
Goal_LossAndFastWithBacklog == ~(A.lost > 0 /\ A.change > 0 /\ \E e \in Ends : k[e].snd_queue # <<>> /\ k[e].nocwnd = 0 /\ k[e].cwnd = 1)
Goal_LossThenAdmitLater == ~(obs.latched /\ obs.reinfl)
Goal_TwoLossesInOneFlush == ~(A.lost >= 2)
Goal_RetransmitTwice    == ~(\E e \in Ends : \E i \in 1..Len(k[e].snd_buf) : k[e].snd_buf[i].xmit >= 3)
Goal_FastackMarker      == ~(\E e \in Ends : \E i \in 1..Len(k[e].snd_buf) : k[e].snd_buf[i].fastack = FaMax /\ k[e].snd_buf[i].acked = 0)
(* receiver *)
Goal_HoleInRcvBuf       == ~(\E e \in Ends : Len(k[e].rcv_buf) >= 2)
Goal_HoleFilledRunMoves == ~(act.name = "Deliver" /\ \E e \in Ends : Len(k[e].rcv_queue) >= 2 /\ k[e].rcv_buf = <<>> /\ k[e].repeat = 0
                              /\ act.a > 1)
Goal_DuplicateInWindow  == ~(\E e \in Ends : k[e].repeat > 0 /\ Len(k[e].rcv_buf) > 0)
Goal_StaleDuplicateAcked == ~(act.name = "Deliver" /\ \E e \in Ends : k[e].repeat > 0 /\ Len(k[e].acklist) > 0
                               /\ \E i \in 1..Len(k[e].acklist) : SDiff(k[e].acklist[i].sn, k[e].rcv_nxt) < 0)
Goal_RcvQueueFull       == ~(\E e \in Ends : Len(k[e].rcv_queue) = k[e].rcv_wnd /\ Len(k[e].rcv_buf) > 0)
Goal_FastRecoverWins    == ~(act.name = "Recv" /\ \E e \in Ends : HasBit(k[e].probe, ASK_TELL))
(* window probing *)
Goal_ZeroWindowLearned  == ~(\E e \in Ends : k[e].rmt_wnd = 0 /\ k[e].probe_wait > 0)
Goal_WaskSent           == ~(CountSegs(CMD_WASK) > 0)
Goal_WinsSent           == ~(CountSegs(CMD_WINS) > 0)
Goal_WaskAndWinsTogether == ~(CountSegs(CMD_WASK) > 0 /\ CountSegs(CMD_WINS) > 0)
Goal_AckWaskWinsOneFlush == ~(CountSegs(CMD_ACK) >= 1 /\ CountSegs(CMD_WASK) > 0 /\ CountSegs(CMD_WINS) > 0)   \* three reservations in one buffer
Goal_OddAcksAndProbe    == ~(CountSegs(CMD_ACK) % 2 = 1 /\ CountSegs(CMD_WASK) + CountSegs(CMD_WINS) > 0)
Goal_ProbeBackoff       == ~(\E e \in Ends : k[e].probe_wait > PROBE_INIT + PROBE_INIT \div 2)
(* packing *)
Goal_AckJitterFiltered  == ~(act.name \in {"Flush", "Deliver"} /\ CountSegs(CMD_ACK) >= 1 /\ obs.out # <<>>
                              /\ \E e \in Ends : k[e].repeat >= 2)
Goal_TwoDatagramsOneFlush == ~(Len(obs.out) >= 2)
Goal_AckAndPushPacked   == ~(\E i \in 1..Len(obs.out) : Len(obs.out[i].segs) >= 2 /\ obs.out[i].segs[1].cmd = CMD_ACK
                                                       /\ obs.out[i].segs[Len(obs.out[i].segs)].cmd = CMD_PUSH)
Goal_ImmediateFlushOnInput == ~(act.name = "Deliver" /\ A.n > 0)
Goal_AckOnlyFlushAdmits == ~(act.name = "Deliver" /\ A.n > 0 /\ CountSegs(CMD_PUSH) = 0)
Goal_DeadLink           == ~(\E e \in Ends : k[e].state = DeadState)
(* congestion control *)
Goal_CwndGrowsLinear    == ~(\E e \in Ends : k[e].cwnd >= 3 /\ k[e].cwnd >= k[e].ssthresh /\ k[e].nocwnd = 0)
Goal_CwndClampedToRmt   == ~(\E e \in Ends : k[e].cwnd = k[e].rmt_wnd /\ k[e].cwnd > 1 /\ k[e].nocwnd = 0)
(* stream / message *)
Goal_StreamAppend       == ~(act.name = "Send" /\ \E e \in Ends : Len(k[e].snd_queue) = 1 /\ k[e].snd_queue[1].len > 20
                              /\ k[e].snd_queue[1].len < k[e].mss /\ Len(wr[e]) >= 2)
Goal_FragmentedMessage  == ~(\E e \in Ends : \E i \in 1..Len(k[e].rcv_queue) : k[e].rcv_queue[i].frg > 0)
Goal_RecvBufferTooSmall == ~(act.name = "Recv" /\ obs.ret = -2)
Goal_AllDelivered       == ~(\E e \in Ends : k[e].woff >= 60 /\ rd[Peer(e)].off = k[e].woff /\ k[e].snd_buf = <<>>)
=============================================================================
