------------------------------ MODULE Listener ------------------------------
(***************************************************************************)
(* The listener's demultiplexer (C11): the session table keyed by remote    *)
(* address, the accept backlog, session creation / replacement / removal.   *)
(* The routing decision is FrameRouting!ListenerEffect (sess.go                    *)
(* Listener.packetInput transcribed); this module adds the state it acts on  *)
(* and ghost bookkeeping of which (address, conversation) pairs ever fed     *)
(* data into which session.                                                 *)
(***************************************************************************)
EXTENDS FrameRouting, Sequences

CONSTANTS Addrs, Convs, Backlog, MaxSess, Classes   \* Classes: the packet classes exercised (subset of Frame!PktClasses shapes)

VARIABLES table,    \* table[a]: id of the session registered for address a, 0 if none
          sess,     \* sess[id]: [addr, conv, open, sources, accepted]
          accq,     \* accept backlog (sequence of ids)
          made,     \* number of sessions created so far
          lastfx    \* [addr, effect, closed]: what the last Packet step did
lvars2 == <<table, sess, accq, made, lastfx>>

NoSess == [addr |-> "", conv |-> 0, open |-> FALSE, sources |-> {}, accepted |-> FALSE]
LInit2 == /\ table = [a \in Addrs |-> 0] /\ sess = [i \in 1..MaxSess |-> NoSess] /\ accq = <<>> /\ made = 0
          /\ lastfx = [addr |-> "", effect |-> "none", closed |-> 0]

(* a datagram from address a: flag/len/integrity/sn0 from the class, conversation id cv (0: the frame carries none) *)
Packet(a, cl, cv) ==
  LET exists == table[a] # 0
      cur    == table[a]
      p      == [len |-> cl.len, integrity |-> cl.integrity, flag |-> cl.flag, sn0 |-> cl.sn0,
                 conv |-> IF exists /\ cv = sess[cur].conv THEN "match" ELSE "other"]
      fx     == ListenerEffect(p, exists, Len(accq) >= Backlog)
      src    == <<a, IF p.flag = "parity" \/ cl.len # "ok" THEN 0 ELSE cv>>
      newid  == made + 1
      newS   == [addr |-> a, conv |-> cv, open |-> TRUE, sources |-> {<<a, cv>>}, accepted |-> FALSE]
  IN /\ cv \in Convs
     /\ CASE fx = "to-session" ->
               /\ sess' = [sess EXCEPT ![cur].sources = @ \cup {src}]
               /\ UNCHANGED <<table, accq, made>> /\ lastfx' = [addr |-> a, effect |-> fx, closed |-> 0]
          [] fx \in {"new-session", "reset-and-new-session"} ->
               /\ made < MaxSess
               /\ sess' = [i \in 1..MaxSess |-> IF i = newid THEN newS
                                                 ELSE IF fx = "reset-and-new-session" /\ i = cur THEN [sess[i] EXCEPT !.open = FALSE]
                                                 ELSE sess[i]]
               /\ table' = [table EXCEPT ![a] = newid] /\ accq' = Append(accq, newid) /\ made' = newid
               /\ lastfx' = [addr |-> a, effect |-> fx, closed |-> IF fx = "reset-and-new-session" THEN cur ELSE 0]
          [] fx = "reset-then-backlog-drop" ->                    \* the old session is closed although no successor can be queued
               /\ sess' = [sess EXCEPT ![cur].open = FALSE] /\ table' = [table EXCEPT ![a] = 0]
               /\ UNCHANGED <<accq, made>> /\ lastfx' = [addr |-> a, effect |-> fx, closed |-> cur]
          [] OTHER -> UNCHANGED <<table, sess, accq, made>> /\ lastfx' = [addr |-> a, effect |-> fx, closed |-> 0]

Accept == /\ accq # <<>> /\ accq' = Tail(accq)
          /\ sess' = [sess EXCEPT ![Head(accq)].accepted = TRUE]
          /\ UNCHANGED <<table, made>> /\ lastfx' = [addr |-> "", effect |-> "accept", closed |-> 0]

(* the application closes a session it accepted: the table entry of its address is removed *)
AppClose(i) == /\ i \in 1..made /\ sess[i].accepted /\ sess[i].open
               /\ sess' = [sess EXCEPT ![i].open = FALSE]
               /\ table' = [table EXCEPT ![sess[i].addr] = 0]
               /\ UNCHANGED <<accq, made>> /\ lastfx' = [addr |-> "", effect |-> "appclose", closed |-> i]

LNext2 == \/ \E a \in Addrs, cl \in Classes, cv \in Convs : Packet(a, cl, cv)
          \/ Accept \/ \E i \in 1..MaxSess : AppClose(i)
LSpec2 == LInit2 /\ [][LNext2]_lvars2

(* ------------------------------ properties ------------------------------ *)
(* each session only ever takes in frames of its own address and conversation (or frames that carry no conversation id, *)
(* which its core then rejects by conv)                                                                                  *)
Isolation == \A i \in 1..made : sess[i].sources \subseteq {<<sess[i].addr, sess[i].conv>>, <<sess[i].addr, 0>>}
(* the open session of an address is the one in the table: a table entry never points to a closed or foreign session *)
TableConsistent == \A a \in Addrs : table[a] # 0 => sess[table[a]].open /\ sess[table[a]].addr = a
(* every session that was created is handed to Accept exactly once *)
OneAcceptPerSession == /\ \A i \in 1..made : sess[i].accepted \/ Cardinality({k \in 1..Len(accq) : accq[k] = i}) = 1
                       /\ \A i \in 1..made : sess[i].accepted => ~\E k \in 1..Len(accq) : accq[k] = i
BacklogBounded == Len(accq) <= Backlog
(* traffic from one address never closes or changes a session of another address *)
ForeignNeverCloses == lastfx.closed # 0 /\ lastfx.effect # "appclose" => sess[lastfx.closed].addr = lastfx.addr
=============================================================================
