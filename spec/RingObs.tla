------------------------------ MODULE RingObs ------------------------------
(***************************************************************************)
(* C20 property monitor over traces recorded from the real RingBuffer.      *)
(* It knows nothing about the ring's layout: it drives the FIFO model with   *)
(* the logged operations and requires every logged observation (returned     *)
(* element / count / visiting order, Len, IsEmpty, IsFull, number of         *)
(* non-zero dead slots) to be what the queue model says.                     *)
(***************************************************************************)
EXTENDS Integers, Sequences, TLC, Json, Fifo
CONSTANT Mut
Trace == ndJsonDeserialize("trace.ndjson")
VARIABLES q, aret, l
vars == <<q, aret, l>>

Apply(e) ==
  IF e.ev = "reset" THEN [q |-> <<>>, r |-> NoRet]
  ELSE CASE e.op = "Push"           -> QPush(q, e.a)
         [] e.op = "Pop"            -> QPop(q)
         [] e.op = "Peek"           -> QPeek(q)
         [] e.op = "Clear"          -> QClear(q)
         [] e.op = "Discard"        -> QDiscard(q, e.a)
         [] e.op = "ForEach"        -> QForEach(q, e.a, e.b, Mut)
         [] e.op = "ForEachReverse" -> QForEachReverse(q, e.a, e.b, Mut)

Init == q = <<>> /\ aret = NoRet /\ l = 1
Next == /\ l <= Len(Trace)
        /\ LET res == Apply(Trace[l]) IN q' = res.q /\ aret' = res.r
        /\ l' = l + 1
Spec == Init /\ [][Next]_vars

Obs == Trace[l - 1]
IsOp == l > 1 /\ Obs.ev = "op"
NoPanic      == IsOp => ~Obs.panic
RetMatches   == IsOp => Obs.ret = aret
LenMatches   == IsOp => Obs.len = Len(q)
DeadZero     == IsOp => Obs.dead = 0
FlagsMatch   == IsOp => /\ Obs.empty = (q = <<>>)
                        /\ Obs.full = (Len(q) = Obs.maxlen)
=============================================================================
