------------------------------- MODULE WaitObs -------------------------------
(***************************************************************************)
(* C13 monitors over what was observed at the API of real sessions and      *)
(* listeners in virtual time: what each blocked call returned and when.      *)
(* "overlap" marks scripts in which two calls were in flight on the same     *)
(* side at the same time (deadline handling then is a listed known finding). *)
(***************************************************************************)
EXTENDS Integers, Sequences, TLC, Json
Trace == ndJsonDeserialize("trace.ndjson")
VARIABLES l
Init == l = 1
Next == l <= Len(Trace) /\ l' = l + 1
Spec == Init /\ [][Next]_l
Obs == Trace[l - 1]
Is(e) == l > 1 /\ Obs.ev = e
(* ret lines carry: res, t (virtual time of return), dl (deadline in force then, 0 none), dlat (time it was last changed), *)
(* overlap; blocked lines (end of script): now, dl, avail, closed, serr, overlap                                           *)
Timeout == Is("ret") /\ Obs.res = "timeout"
C13_NoEarlyTimeout == Timeout /\ ~Obs.overlap /\ Obs.dlat < Obs.t => Obs.dl # 0 /\ Obs.t >= Obs.dl
(* (a call that starts after its deadline has passed returns at once) *)
C13_TimeoutAtDeadline == Timeout /\ ~Obs.overlap /\ Obs.dlat < Obs.t => Obs.t = (IF Obs.dl > Obs.st THEN Obs.dl ELSE Obs.st)
C13_NoEarlyTimeout_ConcurrentCallers == Timeout /\ Obs.overlap /\ Obs.dlat < Obs.t => Obs.dl # 0 /\ Obs.t >= Obs.dl
C13_NotBlockedPastDeadline == Is("blocked") /\ ~Obs.overlap /\ Obs.dl # 0 => Obs.now < Obs.dl
C13_NotBlockedPastDeadline_ConcurrentCallers == Is("blocked") /\ Obs.overlap /\ Obs.dl # 0 => Obs.now < Obs.dl
C13_NothingStranded == Is("blocked") => Obs.avail = 0
C13_CloseWakesAll == Is("blocked") => ~Obs.closed
C13_ErrorWakesAll == Is("blocked") => ~Obs.serr
(* the same four clauses at every tick: half a time unit after the events of an instant (everything that reacts to them has   *)
(* reacted by then) nobody may still be blocked although the session is closed, its socket has failed, what the callers wait  *)
(* for is there, or the deadline in force has been reached                                                                    *)
IsTick == Is("tick") /\ Obs.blocked > 0
C13_CloseWakesAll_Tick == IsTick => ~Obs.closed
C13_ErrorWakesAll_Tick == IsTick => ~Obs.serr
C13_NothingStranded_Tick == IsTick => Obs.avail = 0
C13_NotBlockedPastDeadline_Tick == IsTick /\ ~Obs.overlap /\ Obs.dl # 0 => Obs.now < Obs.dl
C13_NotBlockedPastDeadline_Tick_ConcurrentCallers == IsTick /\ Obs.overlap /\ Obs.dl # 0 => Obs.now < Obs.dl
(* a call that found / was woken by what it waits for returns it at that time *)
C13_OkIsPrompt == Is("ret") /\ Obs.res = "ok" => Obs.t = Obs.since
(* Accept: a deadline changed while Accept is already blocked has no effect (listed known finding) *)
C13_AcceptDeadline == Is("accept") /\ ~Obs.changed_while_blocked => Obs.res = Obs.expect /\ Obs.t = Obs.expect_t
C13_AcceptDeadline_ChangedWhileBlocked == Is("accept") /\ Obs.changed_while_blocked => Obs.res = Obs.expect /\ Obs.t = Obs.expect_t
C13_AfterClose == Is("afterclose") => Obs.write_err /\ Obs.drained_then_err /\ Obs.close2_err
=============================================================================
