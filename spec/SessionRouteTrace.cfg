SPECIFICATION Spec
INVARIANTS Drift_SessionExit C19_HandlerOnlyOwnConversation C06_IntegrityGuard C19_OOBLeavesStateAlone
CHECK_DEADLOCK FALSE
