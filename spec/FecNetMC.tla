------------------------------ MODULE FecNetMC ------------------------------
EXTENDS FecNet, Json
EdgeOut == PrintT(<<"EDGE", ToJson([from |-> [s |-> Proj, a |-> act, h |-> <<faults, seen, newestG, calm, enc>>],
                                    to   |-> [s |-> Proj', a |-> act', h |-> <<faults', seen', newestG', calm', enc'>>]])>>)
=============================================================================
