------------------------------- MODULE SchedObs -------------------------------
(* C17 monitors over what was observed at the API of the real TimedSched: for every submitted task how often it ran  *)
(* and when (virtual nanoseconds in a synctest bubble: exact; real time: with a grace period stated in the line).   *)
EXTENDS Integers, Sequences, TLC, Json
Trace == ndJsonDeserialize("trace.ndjson")
VARIABLES l
Init == l = 1
Next == l <= Len(Trace) /\ l' = l + 1
Spec == Init /\ [][Next]_l
Obs == Trace[l - 1]
IsTask == l > 1 /\ Obs.ev = "task"
Max(a, b) == IF a > b THEN a ELSE b
C17_ExactlyOnce == IsTask => Obs.n = 1
C17_NeverEarly  == IsTask /\ Obs.n >= 1 => Obs.at >= Obs.dl
(* promptly: at max(deadline, submission) exactly under the virtual clock, within `grace` otherwise; tasks of runs in which *)
(* task bodies block their worker ("busy") are only required to run (exactly once, not early)                           *)
C17_Prompt == IsTask /\ Obs.n >= 1 /\ ~Obs.busy => Obs.at - Max(Obs.dl, Obs.put) <= Obs.grace
C17_NoPanic == l > 1 /\ Obs.ev = "run" => ~Obs.panic
=============================================================================
