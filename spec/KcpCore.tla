------------------------------ MODULE KcpCore ------------------------------
(***************************************************************************)
(* kcp.go transcribed as pure operators over an endpoint record `k` whose   *)
(* fields carry the names of `type KCP`.  Every public entry point of the   *)
(* core (Send, Recv, Input, flush, Update, Check, SetMtu, WndSize, NoDelay) *)
(* is one operator  Op(k, args, now) = [k |-> k', ret |-> ..., out |-> ...]; *)
(* `out` is the sequence of datagrams handed to the output callback, each a  *)
(* record [segs |-> <<segment headers>>, size |-> bytes].                    *)
(*                                                                         *)
(* The arithmetic is the code's integer arithmetic (>>k is \div 2^k, which  *)
(* TLC evaluates as floor like Go's arithmetic shift).  Sequence numbers    *)
(* and milliseconds go through U/SDiff: Mod = 0 means unbounded integers    *)
(* (traces are normalised to the start of the run), Mod > 0 is a scaled     *)
(* 32-bit space in which wrap-around happens inside small models (C12).     *)
(*                                                                         *)
(* Payload bytes are abstracted to (off, len): offset in the writer's       *)
(* stream and length.  `off` exists only in the model (history); the code's *)
(* payload content is checked by the harness against the same offsets.      *)
(***************************************************************************)
EXTENDS Integers, Sequences, FiniteSets, TLC

CONSTANT Mod

(* ------------------------------ constants ------------------------------ *)
RTO_NDL == 30      RTO_MIN == 100     RTO_DEF == 200     RTO_MAX == 60000
CMD_PUSH == 81     CMD_ACK == 82      CMD_WASK == 83     CMD_WINS == 84
ASK_SEND == 1      ASK_TELL == 2
WND_SND == 32      WND_RCV == 32      MTU_DEF == 1400
INTERVAL == 100    OVERHEAD == 24     DEADLINK == 20
THRESH_INIT == 2   THRESH_MIN == 2
PROBE_INIT == 500  PROBE_LIMIT == 120000
FaMax == -1        \* the 0xFFFFFFFF "wait for RTO" marker of segment.fastack
DeadState == -1    \* state = 0xFFFFFFFF

Min(a, b) == IF a < b THEN a ELSE b
Max(a, b) == IF a > b THEN a ELSE b

(* uint32 wrap and the signed difference _itimediff(a, b) = int32(a - b) *)
U(x) == IF Mod = 0 THEN x ELSE x % Mod
SDiff(a, b) == IF Mod = 0 THEN a - b
               ELSE LET d == (a - b) % Mod IN IF d >= Mod \div 2 THEN d - Mod ELSE d

HasBit(x, b) == (x \div b) % 2 = 1
OrBit(x, b)  == IF HasBit(x, b) THEN x ELSE x + b

(* ------------------------------ NewKCP --------------------------------- *)
NewKCP(conv) ==
  [conv |-> conv, mtu |-> MTU_DEF, mss |-> MTU_DEF - OVERHEAD, state |-> 0,
   snd_una |-> 0, snd_nxt |-> 0, rcv_nxt |-> 0,
   ssthresh |-> THRESH_INIT, rx_rttvar |-> 0, rx_srtt |-> 0, rx_rto |-> RTO_DEF, rx_minrto |-> RTO_MIN,
   snd_wnd |-> WND_SND, rcv_wnd |-> WND_RCV, rmt_wnd |-> WND_RCV, cwnd |-> 0, incr |-> 0,
   probe |-> 0, ts_probe |-> 0, probe_wait |-> 0,
   interval |-> INTERVAL, ts_flush |-> INTERVAL, nodelay |-> 0, updated |-> 0,
   dead_link |-> DEADLINK, fastresend |-> 0, nocwnd |-> 0, stream |-> 0,
   snd_queue |-> <<>>, snd_buf |-> <<>>, rcv_buf |-> <<>>, rcv_queue |-> <<>>, acklist |-> <<>>,
   \* history (not in the code): next stream offset handed to Send, SNMP-style counters
   woff |-> 0, retrans |-> 0, lost |-> 0, repeat |-> 0]

(* ------------------------------ helpers -------------------------------- *)
RECURSIVE SumLen(_)
SumLen(s) == IF s = <<>> THEN 0 ELSE Head(s).len + SumLen(Tail(s))

(* number of segments of the first message in rcv_queue: up to and including the first frg = 0 *)
RECURSIVE MsgCount(_)
MsgCount(s) == IF s = <<>> THEN 0 ELSE IF Head(s).frg = 0 THEN 1 ELSE 1 + MsgCount(Tail(s))

PeekSize(k) ==
  IF k.rcv_queue = <<>> THEN -1
  ELSE LET s == Head(k.rcv_queue) IN
       IF s.frg = 0 THEN s.len
       ELSE IF Len(k.rcv_queue) < (s.frg + 1) % 256 THEN -1      \* uint8 arithmetic in the code: frg = 255 wraps to 0
       ELSE SumLen(SubSeq(k.rcv_queue, 1, MsgCount(k.rcv_queue)))

WndUnused(k) == IF Len(k.rcv_queue) < k.rcv_wnd THEN k.rcv_wnd - Len(k.rcv_queue) ELSE 0

WaitSnd(k) == Len(k.snd_buf) + Len(k.snd_queue)

(* move in-order segments rcv_buf -> rcv_queue (the heap's top is the smallest sn by signed difference; *)
(* rcv_buf is kept sorted by SDiff(sn, rcv_nxt))                                                       *)
RECURSIVE MoveRcv(_)
MoveRcv(k) ==
  IF k.rcv_buf # <<>> /\ Head(k.rcv_buf).sn = k.rcv_nxt /\ Len(k.rcv_queue) < k.rcv_wnd
    THEN MoveRcv([k EXCEPT !.rcv_queue = Append(@, Head(k.rcv_buf)),
                           !.rcv_buf = Tail(@),
                           !.rcv_nxt = U(@ + 1)])
    ELSE k

(* ------------------------------- Recv ---------------------------------- *)
(* ret: n >= 0 bytes of one message/segment, -1 nothing readable, -2 buffer too small.        *)
(* data: the (off, len) ranges returned, in order.                                            *)
RecvOp(k, buflen) ==
  LET peek == PeekSize(k) IN
  IF peek < 0 THEN [k |-> k, ret |-> -1, data |-> <<>>]
  ELSE IF peek > buflen THEN [k |-> k, ret |-> -2, data |-> <<>>]
  ELSE LET fast == Len(k.rcv_queue) >= k.rcv_wnd
           cnt  == MsgCount(k.rcv_queue)
           msg  == SubSeq(k.rcv_queue, 1, cnt)
           k1   == MoveRcv([k EXCEPT !.rcv_queue = SubSeq(@, cnt + 1, Len(@))])
           k2   == IF Len(k1.rcv_queue) < k1.rcv_wnd /\ fast
                     THEN [k1 EXCEPT !.probe = OrBit(@, ASK_TELL)] ELSE k1
       IN [k |-> k2, ret |-> SumLen(msg), data |-> [i \in 1..cnt |-> [off |-> msg[i].off, len |-> msg[i].len]]]

(* ------------------------------- Send ---------------------------------- *)
(* ret 0 ok, -1 empty buffer, -2 more than 255 fragments.  In stream mode the tail of the last  *)
(* queued segment is filled first; a call that will fail with -2 is refused before anything is  *)
(* taken (fix 'Send in stream mode keeps part of a buffer it refuses').                         *)
RECURSIVE Fragments(_, _, _, _, _)
Fragments(n, mss, count, i, off) ==
  IF i = count THEN <<>>
  ELSE LET size == Min(n, mss) IN
       <<[size |-> size, idx |-> i, off |-> off]>> \o Fragments(n - size, mss, count, i + 1, off + size)

SendOp(k, n) ==
  IF n = 0 THEN [k |-> k, ret |-> -1]
  ELSE
  LET q    == k.snd_queue
      last == IF q = <<>> THEN [len |-> k.mss] ELSE q[Len(q)]
      ext  == IF k.stream # 0 /\ q # <<>> /\ last.len < k.mss THEN Min(n, k.mss - last.len) ELSE 0
      k1   == IF ext > 0 THEN [k EXCEPT !.snd_queue[Len(q)].len = @ + ext, !.woff = @ + ext] ELSE k
      n1   == n - ext
  IN IF ext > 0 /\ (n1 + k.mss - 1) \div k.mss > 255 THEN [k |-> k, ret |-> -2]
     ELSE IF k.stream # 0 /\ n1 = 0 THEN [k |-> k1, ret |-> 0]
     ELSE LET count == IF n1 <= k.mss THEN 1 ELSE (n1 + k.mss - 1) \div k.mss IN
          IF count > 255 THEN [k |-> k1, ret |-> -2]
          ELSE LET fr   == Fragments(n1, k.mss, count, 0, k1.woff)
                   segs == [i \in 1..count |->
                              [frg |-> IF k.stream = 0 THEN count - fr[i].idx - 1 ELSE 0,
                               len |-> fr[i].size, off |-> fr[i].off]]
               IN [k |-> [k1 EXCEPT !.snd_queue = @ \o segs, !.woff = @ + n1], ret |-> 0]

(* ------------------------ RTT estimator (RFC 6298) ---------------------- *)
UpdateAck(k, rtt) ==
  LET k1 == IF k.rx_srtt = 0
              THEN [k EXCEPT !.rx_srtt = rtt, !.rx_rttvar = rtt \div 2]
              ELSE LET delta == rtt - k.rx_srtt
                       srtt  == k.rx_srtt + (delta \div 8)
                       ad    == IF delta < 0 THEN -delta ELSE delta
                       var   == IF rtt < srtt - k.rx_rttvar
                                  THEN k.rx_rttvar + ((ad - k.rx_rttvar) \div 32)
                                  ELSE k.rx_rttvar + ((ad - k.rx_rttvar) \div 4)
                   IN [k EXCEPT !.rx_srtt = srtt, !.rx_rttvar = var]
      rto == k1.rx_srtt + Max(k1.interval, 4 * k1.rx_rttvar)
  IN [k1 EXCEPT !.rx_rto = Min(Max(k1.rx_minrto, rto), RTO_MAX)]

(* ----------------------------- Input helpers ---------------------------- *)
RECURSIVE DropAcked(_, _)
DropAcked(buf, una) ==       \* parse_una: drop the leading segments with sn < una
  IF buf # <<>> /\ SDiff(una, Head(buf).sn) > 0 THEN DropAcked(Tail(buf), una) ELSE buf

ShrinkBuf(k) == [k EXCEPT !.snd_una = IF k.snd_buf # <<>> THEN Head(k.snd_buf).sn ELSE k.snd_nxt]

InSndRange(k, sn) == ~(SDiff(sn, k.snd_una) < 0 \/ SDiff(sn, k.snd_nxt) >= 0)

(* parse_ack: mark the segment (its buffer is recycled: len becomes 0); stop at the first larger sn *)
RECURSIVE MarkAck(_, _)
MarkAck(buf, sn) ==
  IF buf = <<>> THEN <<>>
  ELSE IF Head(buf).sn = sn THEN <<[Head(buf) EXCEPT !.acked = 1, !.len = 0]>> \o Tail(buf)
  ELSE IF SDiff(sn, Head(buf).sn) < 0 THEN buf
  ELSE <<Head(buf)>> \o MarkAck(Tail(buf), sn)

ParseAck(k, sn) == IF InSndRange(k, sn) THEN [k EXCEPT !.snd_buf = MarkAck(@, sn)] ELSE k

FastResendU(k) == IF k.fastresend < 0 THEN 2147483647 ELSE k.fastresend   \* uint32(kcp.fastresend)

(* parse_fastack: returns [buf, hit] *)
RECURSIVE BumpFast(_, _, _, _)
BumpFast(buf, sn, ts, fr) ==
  IF buf = <<>> THEN [buf |-> <<>>, hit |-> 0]
  ELSE LET s == Head(buf) IN
       IF SDiff(sn, s.sn) < 0 THEN [buf |-> buf, hit |-> 0]
       ELSE LET bump == sn # s.sn /\ SDiff(s.ts, ts) <= 0 /\ s.fastack # FaMax
                s1   == IF bump THEN [s EXCEPT !.fastack = @ + 1] ELSE s
                rest == BumpFast(Tail(buf), sn, ts, fr)
            IN [buf |-> <<s1>> \o rest.buf,
                hit |-> IF (bump /\ s1.fastack >= fr) \/ rest.hit = 1 THEN 1 ELSE 0]

ParseFastack(k, sn, ts) ==
  IF InSndRange(k, sn)
    THEN LET r == BumpFast(k.snd_buf, sn, ts, FastResendU(k)) IN [k |-> [k EXCEPT !.snd_buf = r.buf], hit |-> r.hit]
    ELSE [k |-> k, hit |-> 0]

InRcvBuf(k, sn) == \E i \in 1..Len(k.rcv_buf) : k.rcv_buf[i].sn = sn

RECURSIVE InsertSorted(_, _, _)
InsertSorted(buf, seg, base) ==
  IF buf = <<>> THEN <<seg>>
  ELSE IF SDiff(seg.sn, base) < SDiff(Head(buf).sn, base) THEN <<seg>> \o buf
  ELSE <<Head(buf)>> \o InsertSorted(Tail(buf), seg, base)

(* parse_data: returns [k, repeat] *)
ParseData(k, seg) ==
  IF SDiff(seg.sn, U(k.rcv_nxt + k.rcv_wnd)) >= 0 \/ SDiff(seg.sn, k.rcv_nxt) < 0
    THEN [k |-> k, repeat |-> TRUE]
    ELSE IF InRcvBuf(k, seg.sn)
           THEN [k |-> MoveRcv(k), repeat |-> TRUE]
           ELSE [k |-> MoveRcv([k EXCEPT !.rcv_buf = InsertSorted(@, [sn |-> seg.sn, frg |-> seg.frg, len |-> seg.len, off |-> seg.off], k.rcv_nxt)]),
                 repeat |-> FALSE]

(* one segment of the Input loop; `a` accumulates [k, latest, rtt, flush, err] *)
InputSeg(a, seg, regular) ==
  LET k == a.k IN
  IF seg.bad # 0 THEN [a EXCEPT !.err = -seg.bad]            \* conv (-1), length (-2), cmd (-3): return at once
  ELSE
  LET k1    == IF regular THEN [k EXCEPT !.rmt_wnd = seg.wnd] ELSE k
      nb    == DropAcked(k1.snd_buf, seg.una)
      moved == Len(nb) < Len(k1.snd_buf)
      k2    == ShrinkBuf([k1 EXCEPT !.snd_buf = nb])
      fl    == IF moved THEN 1 ELSE a.flush
  IN CASE seg.cmd = CMD_ACK ->
            LET f == ParseFastack(ParseAck(k2, seg.sn), seg.sn, seg.ts)
            IN [a EXCEPT !.k = f.k, !.flush = IF f.hit = 1 THEN 1 ELSE fl, !.rtt = 1, !.latest = seg.ts]
       [] seg.cmd = CMD_PUSH ->
            IF SDiff(seg.sn, U(k2.rcv_nxt + k2.rcv_wnd)) < 0
              THEN LET k3 == [k2 EXCEPT !.acklist = Append(@, [sn |-> seg.sn, ts |-> seg.ts])]
                       p  == IF SDiff(seg.sn, k3.rcv_nxt) >= 0 THEN ParseData(k3, seg) ELSE [k |-> k3, repeat |-> TRUE]
                       k4 == IF regular /\ p.repeat THEN [p.k EXCEPT !.repeat = @ + 1] ELSE p.k
                   IN [a EXCEPT !.k = k4, !.flush = fl]
              ELSE [a EXCEPT !.k = IF regular THEN [k2 EXCEPT !.repeat = @ + 1] ELSE k2, !.flush = fl]
       [] seg.cmd = CMD_WASK -> [a EXCEPT !.k = [k2 EXCEPT !.probe = OrBit(@, ASK_TELL)], !.flush = fl]
       [] seg.cmd = CMD_WINS -> [a EXCEPT !.k = k2, !.flush = fl]

RECURSIVE InputLoop(_, _, _)
InputLoop(a, segs, regular) ==
  IF segs = <<>> \/ a.err # 0 THEN a
  ELSE InputLoop(InputSeg(a, Head(segs), regular), Tail(segs), regular)

(* Reno-style congestion window growth when snd_una advanced *)
CwndOnAck(k, old_una) ==
  IF k.nocwnd = 0 /\ SDiff(k.snd_una, old_una) > 0 /\ k.cwnd < k.rmt_wnd
    THEN LET mss == k.mss
             k1  == IF k.cwnd < k.ssthresh
                      THEN [k EXCEPT !.cwnd = @ + 1, !.incr = @ + mss]
                      ELSE LET i0 == IF k.incr < mss THEN mss ELSE k.incr
                               i1 == i0 + ((mss * mss) \div i0) + (mss \div 16)
                           IN IF (k.cwnd + 1) * mss <= i1
                                THEN [k EXCEPT !.incr = i1, !.cwnd = IF mss > 0 THEN (i1 + mss - 1) \div mss ELSE i1 + mss - 1]
                                ELSE [k EXCEPT !.incr = i1]
         IN IF k1.cwnd > k1.rmt_wnd THEN [k1 EXCEPT !.cwnd = k1.rmt_wnd, !.incr = k1.rmt_wnd * mss] ELSE k1
    ELSE k

(* ------------------------------- flush --------------------------------- *)
(* lsn/lts: flush() reuses one `seg` variable, so WASK/WINS carry the sn/ts of the last ACK written.   *)
(* Receivers ignore those two fields of a probe; the projection (spec and harness) reports them as 0.  *)
NewBuf == [done |-> <<>>, cur |-> <<>>, size |-> 0, lsn |-> 0, lts |-> 0]
MakeSpace(b, space, mtu) ==      \* note: emits even an empty buffer when a single item exceeds the MTU
  IF b.size + space > mtu
    THEN [b EXCEPT !.done = Append(b.done, [segs |-> b.cur, size |-> b.size]), !.cur = <<>>, !.size = 0] ELSE b
Emit(b, seg, bytes) == [b EXCEPT !.cur = Append(@, seg), !.size = @ + bytes]
FlushBuffer(b) == IF b.size > 0 THEN Append(b.done, [segs |-> b.cur, size |-> b.size]) ELSE b.done

WireSeg(cmd, frg, wnd, ts, sn, una, len, off) ==
  [cmd |-> cmd, frg |-> frg, wnd |-> wnd, ts |-> ts, sn |-> sn, una |-> una, len |-> len, off |-> off, bad |-> 0]

(* phase 1: acks (the jitter filter skips acks below rcv_nxt except the last one) *)
RECURSIVE FlushAcks(_, _, _, _, _)
FlushAcks(b, acks, i, k, wnd) ==
  IF i > Len(acks) THEN b
  ELSE LET b1 == MakeSpace(b, OVERHEAD, k.mtu)
           b2 == IF SDiff(acks[i].sn, k.rcv_nxt) >= 0 \/ i = Len(acks)
                   THEN [Emit(b1, WireSeg(CMD_ACK, 0, wnd, acks[i].ts, acks[i].sn, k.rcv_nxt, 0, 0), OVERHEAD)
                           EXCEPT !.lsn = acks[i].sn, !.lts = acks[i].ts]
                   ELSE b1
       IN FlushAcks(b2, acks, i + 1, k, wnd)

(* phase 2: zero-window probing *)
ProbeStep(k, now) ==
  IF k.rmt_wnd = 0
    THEN IF k.probe_wait = 0
           THEN [k EXCEPT !.probe_wait = PROBE_INIT, !.ts_probe = U(now + PROBE_INIT)]
           ELSE IF SDiff(now, k.ts_probe) >= 0
                  THEN LET w0 == IF k.probe_wait < PROBE_INIT THEN PROBE_INIT ELSE k.probe_wait
                           w1 == Min(w0 + (w0 \div 2), PROBE_LIMIT)
                       IN [k EXCEPT !.probe_wait = w1, !.ts_probe = U(now + w1), !.probe = OrBit(@, ASK_SEND)]
                  ELSE k
    ELSE [k EXCEPT !.ts_probe = 0, !.probe_wait = 0]

(* phase 4: admit segments while snd_nxt < snd_una + cwnd *)
RECURSIVE Admit(_, _, _)
Admit(k, cw, n) ==
  IF SDiff(k.snd_nxt, U(k.snd_una + cw)) >= 0 \/ k.snd_queue = <<>> THEN [k |-> k, n |-> n]
  ELSE LET s == Head(k.snd_queue)
           ns == [sn |-> k.snd_nxt, frg |-> s.frg, len |-> s.len, off |-> s.off, acked |-> 0, xmit |-> 0,
                  rto |-> 0, resendts |-> 0, fastack |-> 0, ts |-> 0]
       IN Admit([k EXCEPT !.snd_queue = Tail(@), !.snd_buf = Append(@, ns), !.snd_nxt = U(@ + 1)], cw, n + 1)

(* phase 5: (re)transmission; `a` = [b, buf, change, lost, nxt, dead, sent] *)
XmitSeg(a, s, k, now, resent, newSegs, wnd) ==
  IF s.acked = 1 THEN [a EXCEPT !.buf = Append(@, s)]
  ELSE
  LET kind == IF s.xmit = 0 THEN "init"
              ELSE IF s.fastack # FaMax /\ s.fastack >= resent THEN "fast"
              ELSE IF s.fastack > 0 /\ s.fastack # FaMax /\ newSegs = 0 THEN "early"
              ELSE IF SDiff(now, s.resendts) >= 0 THEN "rto"
              ELSE "none"
      s1 == CASE kind = "init"  -> [s EXCEPT !.rto = k.rx_rto, !.resendts = U(now + k.rx_rto)]
              [] kind = "fast"  -> [s EXCEPT !.fastack = FaMax, !.rto = k.rx_rto, !.resendts = U(now + k.rx_rto)]
              [] kind = "early" -> [s EXCEPT !.fastack = FaMax, !.rto = k.rx_rto, !.resendts = U(now + k.rx_rto)]
              [] kind = "rto"   -> LET r == s.rto + (IF k.nodelay = 0 THEN k.rx_rto ELSE k.rx_rto \div 2)
                                   IN [s EXCEPT !.rto = r, !.fastack = 0, !.resendts = U(now + r)]
              [] OTHER -> s
      send == kind # "none"
      s2 == IF send THEN [s1 EXCEPT !.xmit = @ + 1, !.ts = now] ELSE s1
      b1 == IF send
              THEN Emit(MakeSpace(a.b, OVERHEAD + s2.len, k.mtu),
                        WireSeg(CMD_PUSH, s2.frg, wnd, now, s2.sn, k.rcv_nxt, s2.len, s2.off), OVERHEAD + s2.len)
              ELSE a.b
      d  == SDiff(s2.resendts, now)
  IN [b |-> b1, buf |-> Append(a.buf, s2),
      change |-> a.change + (IF kind \in {"fast", "early"} THEN 1 ELSE 0),
      lost |-> a.lost + (IF kind = "rto" THEN 1 ELSE 0),
      nxt |-> IF d > 0 /\ d < a.nxt THEN d ELSE a.nxt,
      dead |-> a.dead \/ (send /\ s2.xmit >= k.dead_link),
      sent |-> a.sent + (IF send THEN 1 ELSE 0)]

RECURSIVE XmitAll(_, _, _, _, _, _, _)
XmitAll(a, segs, k, now, resent, newSegs, wnd) ==
  IF segs = <<>> THEN a
  ELSE XmitAll(XmitSeg(a, Head(segs), k, now, resent, newSegs, wnd), Tail(segs), k, now, resent, newSegs, wnd)

(* flush(flushType): full = TRUE for IKCP_FLUSH_FULL, FALSE for IKCP_FLUSH_ACKONLY *)
FlushOp(k, now, full) ==
  LET wnd == WndUnused(k)
      b1  == FlushAcks(NewBuf, k.acklist, 1, k, wnd)
      k1  == ProbeStep([k EXCEPT !.acklist = <<>>], now)
      b2  == IF HasBit(k1.probe, ASK_SEND)
               THEN Emit(MakeSpace(b1, OVERHEAD, k.mtu), WireSeg(CMD_WASK, 0, wnd, 0, 0, k.rcv_nxt, 0, 0), OVERHEAD) ELSE b1
      b3  == IF HasBit(k1.probe, ASK_TELL)
               THEN Emit(MakeSpace(b2, OVERHEAD, k.mtu), WireSeg(CMD_WINS, 0, wnd, 0, 0, k.rcv_nxt, 0, 0), OVERHEAD) ELSE b2
      k2  == [k1 EXCEPT !.probe = 0]
      cw0 == Min(k2.snd_wnd, k2.rmt_wnd)
      cw  == IF k2.nocwnd = 0 THEN Min(k2.cwnd, cw0) ELSE cw0
      ad  == Admit(k2, cw, 0)
      k3  == ad.k
      resent == IF k3.fastresend <= 0 THEN 2147483647 ELSE k3.fastresend
      x   == IF full
               THEN XmitAll([b |-> b3, buf |-> <<>>, change |-> 0, lost |-> 0, nxt |-> k3.interval, dead |-> FALSE, sent |-> 0],
                            k3.snd_buf, k3, now, resent, ad.n, wnd)
               ELSE [b |-> b3, buf |-> k3.snd_buf, change |-> 0, lost |-> 0, nxt |-> k3.interval, dead |-> FALSE, sent |-> 0]
      k4  == [k3 EXCEPT !.snd_buf = x.buf,
                        !.state = IF x.dead THEN DeadState ELSE @,
                        !.retrans = @ + x.change + x.lost,
                        !.lost = @ + x.lost]
      (* phase 6: congestion window *)
      k5  == IF k4.nocwnd = 0 /\ x.change > 0
               THEN LET inflight == SDiff(k4.snd_nxt, k4.snd_una)
                        ss == Max(inflight \div 2, THRESH_MIN)
                        c  == IF k4.fastresend <= 0 THEN ss - 1 ELSE ss + k4.fastresend
                    IN [k4 EXCEPT !.ssthresh = ss, !.cwnd = c, !.incr = c * k4.mss]
               ELSE k4
      k6  == IF k5.nocwnd = 0 /\ x.lost > 0
               THEN [k5 EXCEPT !.ssthresh = Max(cw \div 2, THRESH_MIN), !.cwnd = 1, !.incr = k5.mss]
               ELSE k5
      k7  == IF k6.nocwnd = 0 /\ k6.cwnd < 1 THEN [k6 EXCEPT !.cwnd = 1, !.incr = k6.mss] ELSE k6
  IN [k |-> k7, out |-> FlushBuffer(x.b), ret |-> x.nxt,
      \* what the admission loop did, for the C04 admission properties: n segments admitted, `after` outstanding
      \* afterwards, under the windows in force at that moment; lost = segments this flush declared lost (RTO)
      adm |-> [n |-> ad.n, after |-> SDiff(k3.snd_nxt, k3.snd_una), swnd |-> k2.snd_wnd, rwnd |-> k2.rmt_wnd,
               cwnd |-> k2.cwnd, nocwnd |-> k2.nocwnd, lost |-> x.lost, change |-> x.change]]

NoAdm == [n |-> 0, after |-> 0, swnd |-> 0, rwnd |-> 0, cwnd |-> 0, nocwnd |-> 1, lost |-> 0, change |-> 0]

(* ------------------------------- Input --------------------------------- *)
(* dgram: [segs |-> <<wire segments>>, short |-> TRUE when the datagram is shorter than one header] *)
InputOp(k, dgram, regular, ackNoDelay, now) ==
  IF dgram.short THEN [k |-> k, ret |-> -1, out |-> <<>>, adm |-> NoAdm]
  ELSE
  LET a  == InputLoop([k |-> k, latest |-> 0, rtt |-> 0, flush |-> 0, err |-> 0], dgram.segs, regular)
  IN IF a.err # 0 THEN [k |-> a.k, ret |-> a.err, out |-> <<>>, adm |-> NoAdm]
     ELSE
     LET k1 == IF a.rtt # 0 /\ regular /\ SDiff(now, a.latest) >= 0 THEN UpdateAck(a.k, SDiff(now, a.latest)) ELSE a.k
         k2 == CwndOnAck(k1, k.snd_una)
         f  == IF a.flush # 0 THEN FlushOp(k2, now, TRUE)
               ELSE IF Len(k2.acklist) >= k2.mtu \div OVERHEAD THEN FlushOp(k2, now, FALSE)
               ELSE IF ackNoDelay /\ Len(k2.acklist) > 0 THEN FlushOp(k2, now, FALSE)
               ELSE [k |-> k2, out |-> <<>>, adm |-> NoAdm]
     IN [k |-> f.k, ret |-> 0, out |-> f.out, adm |-> f.adm]

(* --------------------------- Update / Check ----------------------------- *)
UpdateOp(k, now) ==
  LET k1   == IF k.updated = 0 THEN [k EXCEPT !.updated = 1, !.ts_flush = now] ELSE k
      s0   == SDiff(now, k1.ts_flush)
      k2   == IF s0 >= 10000 \/ s0 < -10000 THEN [k1 EXCEPT !.ts_flush = now] ELSE k1
      slap == IF s0 >= 10000 \/ s0 < -10000 THEN 0 ELSE s0
  IN IF slap >= 0
       THEN LET t1 == U(k2.ts_flush + k2.interval)
                t2 == IF SDiff(now, t1) >= 0 THEN U(now + k2.interval) ELSE t1
                f  == FlushOp([k2 EXCEPT !.ts_flush = t2], now, TRUE)
            IN [k |-> f.k, out |-> f.out, flushed |-> TRUE, adm |-> f.adm]
       ELSE [k |-> k2, out |-> <<>>, flushed |-> FALSE, adm |-> NoAdm]

RECURSIVE MinResend(_, _, _)
MinResend(buf, now, acc) ==       \* Check's scan over snd_buf: -1 = "some segment is due"
  IF buf = <<>> THEN acc
  ELSE LET d == SDiff(Head(buf).resendts, now) IN
       IF d <= 0 THEN -1 ELSE MinResend(Tail(buf), now, IF d < acc THEN d ELSE acc)

(* A segment admitted by an ACK-only flush sits in snd_buf with xmit = 0 and resendts = 0 (absolute zero, not a   *)
(* time): Check compares that zero with the clock, so its answer then depends on the absolute clock value. It only *)
(* decides how early the caller polls Update again (Update itself flushes at ts_flush regardless), so the model   *)
(* leaves the answer unspecified (-1) in that situation; the harness reports -1 in the same situation.             *)
CheckUnspecified(k) == \E i \in 1..Len(k.snd_buf) : k.snd_buf[i].xmit = 0

CheckOp(k, now) ==
  IF CheckUnspecified(k) THEN -1 ELSE
  IF k.updated = 0 THEN now
  ELSE LET d0 == SDiff(now, k.ts_flush)
           tf == IF d0 >= 10000 \/ d0 < -10000 THEN now ELSE k.ts_flush
       IN IF SDiff(now, tf) >= 0 THEN now
          ELSE LET tm_flush  == SDiff(tf, now)
                   tm_packet == MinResend(k.snd_buf, now, 2147483647)
               IN IF tm_packet = -1 THEN now
                  ELSE U(now + Min(Min(tm_packet, tm_flush), k.interval))

(* ------------------------------ settings -------------------------------- *)
(* refused: at or below the header size; an MSS above the pooled segment buffers (MtuLimit); an MSS below the size of a *)
(* segment that is already queued or in flight (it could not be carried any more) -- fix 'SetMtu accepts MTUs it cannot  *)
(* honour'                                                                                                              *)
MtuLimit == 1500
SetMtuOp(k, mtu) ==
  IF mtu <= OVERHEAD \/ mtu - OVERHEAD > MtuLimit
     \/ (\E i \in 1..Len(k.snd_queue) : k.snd_queue[i].len > mtu - OVERHEAD)
     \/ (\E i \in 1..Len(k.snd_buf) : k.snd_buf[i].len > mtu - OVERHEAD)
    THEN [k |-> k, ret |-> -1]
    ELSE [k |-> [k EXCEPT !.mtu = mtu, !.mss = mtu - OVERHEAD], ret |-> 0]

WndSizeOp(k, snd, rcv) ==
  [k EXCEPT !.snd_wnd = IF snd > 0 THEN snd ELSE @, !.rcv_wnd = IF rcv > 0 THEN rcv ELSE @]

NoDelayOp(k, nodelay, interval, resend, nc) ==
  [k EXCEPT !.nodelay   = IF nodelay >= 0 THEN nodelay ELSE @,
            !.rx_minrto = IF nodelay >= 0 THEN (IF nodelay # 0 THEN RTO_NDL ELSE RTO_MIN) ELSE @,
            !.interval  = IF interval >= 0 THEN (IF interval > 5000 THEN 5000 ELSE IF interval < 10 THEN 10 ELSE interval) ELSE @,
            !.fastresend = IF resend >= 0 THEN resend ELSE @,
            !.nocwnd    = IF nc >= 0 THEN nc ELSE @]

(* -------------------- progress bound after healing (C02/C03) ------------- *)
(* Once the network delivers again and the reader reads, everything outstanding at that instant is delivered    *)
(* within: the longest wait for a retransmission timer already armed, plus the window-probe back-off when the   *)
(* peer's window is believed closed, plus a per-segment allowance of a few RTOs and flush intervals.  The bound *)
(* is deliberately generous: the failure modes it is meant to expose are wedges (no progress at all).           *)
RECURSIVE MaxWait(_, _, _)
MaxWait(buf, t, acc) == IF buf = <<>> THEN acc
                        ELSE MaxWait(Tail(buf), t, Max(acc, Max(SDiff(Head(buf).resendts, t), Head(buf).rto)))
HealBound(h, t) ==
  LET n    == Len(h.snd_buf) + Len(h.snd_queue) + 4
      wait == MaxWait(h.snd_buf, t, h.rx_rto)
      prb  == IF h.rmt_wnd = 0 \/ h.probe_wait > 0 THEN 2 * PROBE_LIMIT ELSE 0
  IN wait + prb + n * (3 * Max(h.rx_rto, RTO_DEF) + 4 * h.interval)

(* ----------------------- per-endpoint invariants ------------------------ *)
(* C04, receiver side *)
RcvQueueBounded(k) == Len(k.rcv_queue) <= k.rcv_wnd
RcvBufBounded(k)   == Len(k.rcv_buf) <= k.rcv_wnd
RcvBufInWindow(k)  == \A i \in 1..Len(k.rcv_buf) :
                         SDiff(k.rcv_buf[i].sn, k.rcv_nxt) >= 0 /\ SDiff(k.rcv_buf[i].sn, U(k.rcv_nxt + k.rcv_wnd)) < 0
RcvBufNoDup(k)     == \A i, j \in 1..Len(k.rcv_buf) : i # j => k.rcv_buf[i].sn # k.rcv_buf[j].sn
(* C04, sender side *)
SndWindowBounded(k) == SDiff(k.snd_nxt, k.snd_una) <= k.snd_wnd /\ SDiff(k.snd_nxt, k.snd_una) >= 0
SndBufConsistent(k) == /\ Len(k.snd_buf) = SDiff(k.snd_nxt, k.snd_una)
                       /\ \A i \in 1..Len(k.snd_buf) : k.snd_buf[i].sn = U(k.snd_una + i - 1)
(* C18 *)
RtoBounds(k) == k.rx_minrto <= k.rx_rto /\ k.rx_rto <= RTO_MAX

EndpointOK(k) == /\ RcvQueueBounded(k) /\ RcvBufBounded(k) /\ RcvBufInWindow(k) /\ RcvBufNoDup(k)
                 /\ SndWindowBounded(k) /\ SndBufConsistent(k) /\ RtoBounds(k)
=============================================================================
