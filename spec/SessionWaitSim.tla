--------------------------- MODULE SessionWaitSim ---------------------------
(* Script generation for the C13 driver: behaviours of SessionWait projected to the environment's actions        *)
(* (calls started, units arriving, deadline changes, Close, socket error, time passing).  Internal caller steps are *)
(* not part of a script: the real code takes them by itself.                                                       *)
EXTENDS SessionWait, Sequences, Json
CONSTANT SimDepth
VARIABLE hist
svars == <<vars, hist>>
Ended == hist # <<>> /\ hist[Len(hist)].ev = "end"
Lbl(e, x, v) == hist' = Append(hist, [ev |-> e, x |-> x, v |-> v])
SimInit == Init /\ hist = <<>>
SimNext ==
  \/ /\ ~Ended /\ Len(hist) < SimDepth
     /\ \/ \E x \in Callers : Start(x) /\ Lbl("start", x, 0)
        \/ \E x \in Callers : CallerStep(x) /\ hist' = hist
        \/ ~die /\ ~serr /\ Arrive /\ Lbl("arrive", "", 0)      \* (a closed / failed session no longer takes datagrams in)
        \/ \E v \in Deadlines : SetDeadline(v) /\ Lbl("setdl", "", v)
        \/ Close /\ Lbl("close", "", 0)
        \/ SockErr /\ Lbl("sockerr", "", 0)
        \/ Tick /\ Lbl("tick", "", 0)
  \/ /\ ~Ended /\ (Len(hist) = SimDepth \/ now = MaxTime) /\ Quiescent
     /\ hist' = Append(hist, [ev |-> "end", x |-> "", v |-> 0]) /\ UNCHANGED vars
SimSpec == SimInit /\ [][SimNext]_svars
EmitBeh == Ended => PrintT(<<"BEH", ToJson([callers |-> Cardinality(Callers), steps |-> SubSeq(hist, 1, Len(hist) - 1)])>>)
=============================================================================
