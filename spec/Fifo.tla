------------------------------ MODULE Fifo ------------------------------
(***************************************************************************)
(* The unbounded FIFO queue that C20 uses as the meaning of the ring        *)
(* buffer: each operator maps a queue to [q |-> new queue, r |-> result].   *)
(* Results have the shape [v, ok, vis] (value/count, success flag, visited  *)
(* elements of an iteration in visiting order).                             *)
(***************************************************************************)
EXTENDS Integers, Sequences

LOCAL Min(a, b) == IF a < b THEN a ELSE b
NoRet == [v |-> 0, ok |-> FALSE, vis |-> <<>>]

QPush(q, v) == [q |-> Append(q, v), r |-> NoRet]
QPop(q)     == IF q = <<>> THEN [q |-> q, r |-> NoRet]
               ELSE [q |-> Tail(q), r |-> [v |-> Head(q), ok |-> TRUE, vis |-> <<>>]]
QPeek(q)    == IF q = <<>> THEN [q |-> q, r |-> NoRet]
               ELSE [q |-> q, r |-> [v |-> Head(q), ok |-> TRUE, vis |-> <<>>]]
QClear(q)   == [q |-> <<>>, r |-> NoRet]
QDiscard(q, n) == LET m == Min(n, Len(q))
                  IN [q |-> SubSeq(q, m + 1, Len(q)), r |-> [v |-> m, ok |-> TRUE, vis |-> <<>>]]
(* the callback returns false on its stop-th call; mut = 1 adds d to every visited element *)
QForEach(q, stop, mut, d) ==
  LET nv == Min(stop, Len(q))
  IN [q |-> IF mut = 1 THEN [k \in 1..Len(q) |-> IF k <= nv THEN q[k] + d ELSE q[k]] ELSE q,
      r |-> [v |-> nv, ok |-> TRUE, vis |-> SubSeq(q, 1, nv)]]
QForEachReverse(q, stop, mut, d) ==
  LET n  == Len(q)
      nv == Min(stop, n)
  IN [q |-> IF mut = 1 THEN [k \in 1..n |-> IF k > n - nv THEN q[k] + d ELSE q[k]] ELSE q,
      r |-> [v |-> nv, ok |-> TRUE, vis |-> [k \in 1..nv |-> q[n - k + 1]]]]
=============================================================================
