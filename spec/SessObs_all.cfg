SPECIFICATION Spec
INVARIANTS C18_SessNoRetransOnCleanPath C18_SessRtoBounds C04_WriteAdmission C04_SessBounds C01_ReadIsNextBytes C01_MessageBoundaries C02_TransferCompletes C09_Layout C09_ParityIsReedSolomon C09_FecTypeMatchesPosition C09_FecIdInRange C09_FecSequence C09_NonceFresh C09_WireReassembles C10_LenWithinMtu C19_IntactOrAbsent C19_RefusalRule C19_OOBFrame C19_FecProtectionKept C15_NoLeak C15_NoLeak_BacklogSession C15_PoolOwnership C13_AfterClose C06_NoEffect C06_CounterOnly C05_Bounds
CHECK_DEADLOCK FALSE
