\* the code's MinCap = 8 with every head offset of an 8-slot ring, growth 8 -> 16 -> 32
SPECIFICATION Spec
CONSTANTS
  MinCap = 8
  ExpCap = 1024
  MaxSlots = 16
  MaxPush = 10
  Mut = 100
  InitLayouts <- LayoutsReal
INVARIANTS TypeOK Refines LenRefines RetRefines DeadSlotsZero ObserversOK
CHECK_DEADLOCK FALSE
