\* scaled constants: all three growth regimes (<Min -> Min, <Exp -> x2, else +10%) within 9 slots
SPECIFICATION Spec
CONSTANTS
  MinCap = 3
  ExpCap = 6
  MaxSlots = 8
  MaxPush = 5
  Mut = 100
  InitLayouts <- LayoutsSmall
INVARIANTS TypeOK Refines LenRefines RetRefines DeadSlotsZero ObserversOK
CHECK_DEADLOCK FALSE
