------------------------------- MODULE ListObs -------------------------------
(***************************************************************************)
(* C11 monitors over what applications observe on a real listener with      *)
(* several real clients (distinct addresses, conversation ids and contents   *)
(* in both directions), reconnects from the same address, a small accept      *)
(* backlog and an adversary injecting forged / stale / foreign datagrams:     *)
(*   accept      one line per session returned by Accept                      *)
(*   stream      one line per accepted / dialled session when its stream ends  *)
(*   peerdone    one line per client conversation at the end of the run        *)
(*   stalemerge  the deterministic reconnect-with-FEC witness                  *)
(***************************************************************************)
EXTENDS Integers, Sequences, TLC, Json
Trace == ndJsonDeserialize("trace.ndjson")
VARIABLES l
Init == l = 1
Next == l <= Len(Trace) /\ l' = l + 1
Spec == Init /\ [][Next]_l
Obs == Trace[l - 1]
Is(e) == l > 1 /\ Obs.ev = e

(* Known finding: the FEC layer has no notion of a conversation. After a reconnect from the same address the shards of  *)
(* the previous conversation that are still arriving (the old listener session keeps retransmitting until it is          *)
(* replaced; parity shards pass the listener's conversation filter) share the sequence-id space of the new conversation's *)
(* decoder; Reed-Solomon recovery over such a mixture can produce a segment with the NEW conversation id (3 data shards:  *)
(* the first parity row is a plain XOR) that the core accepts. Streams of a conversation that had a predecessor between   *)
(* the same two addresses, with FEC on, are judged by the _FecStaleShardsOfPreviousConversation monitors.                 *)
Exposed == Obs.fec /\ Obs.gen > 0

(* every byte read is the byte the peer of that address and conversation wrote at that offset -- nothing foreign, forged or stale *)
C11_OnlyOwnStream == Is("stream") /\ ~Exposed => Obs.match
(* foreign traffic never stalls or closes a session: every stream is read to its end, unless the peer itself replaced it *)
C11_NeverStalledOrClosed == Is("stream") /\ ~Exposed => Obs.end = "complete" \/ (Obs.end = "closed" /\ Obs.replaced)
C11_OnlyOwnStream_FecStaleShardsOfPreviousConversation ==
  /\ (Is("stream") /\ Exposed => Obs.match /\ (Obs.end = "complete" \/ (Obs.end = "closed" /\ Obs.replaced)))
  /\ (Is("stalemerge") => Obs.same)
(* every new peer / conversation is accepted exactly once; nothing else is ever returned by Accept *)
C11_ExactlyOneAccept ==
  /\ (Is("accept") => Obs.class # "unknown" /\ (Obs.class = "client" => Obs.nth = 1))
  /\ (Is("peerdone") => Obs.accepted = 1 \/ (Obs.aborted /\ Obs.accepted = 0))
=============================================================================
