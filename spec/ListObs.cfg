SPECIFICATION Spec
INVARIANTS C11_OnlyOwnStream C11_NeverStalledOrClosed C11_OnlyOwnStream_FecStaleShardsOfPreviousConversation C11_ExactlyOneAccept
CHECK_DEADLOCK FALSE
