SPECIFICATION LSpec
CONSTANTS
  Sessions = {"cli", "acc", "bkl"}
  MaxTraffic = 3
  OwnC = FALSE
  OwnL = FALSE
PROPERTIES ReleasedHeld
CHECK_DEADLOCK FALSE
