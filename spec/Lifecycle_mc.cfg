SPECIFICATION LSpec
CONSTANTS
  Sessions = {"cli", "acc", "bkl"}
  MaxTraffic = 3
PROPERTIES ReleasedHeld
CHECK_DEADLOCK FALSE
