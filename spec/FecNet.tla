------------------------------- MODULE FecNet -------------------------------
(***************************************************************************)
(* One FEC encoder feeding one decoder through a network that drops,        *)
(* duplicates and reorders (C07, C16).  Ghost state records which packets   *)
(* of which encoder group the decoder has been given, so that "exactly the  *)
(* missing packets are reconstructed" is statable.                          *)
(***************************************************************************)
EXTENDS Fec

CONSTANTS Ed, Ep,        \* encoder's ratio
          Dd, Dp,        \* decoder's configured ratio
          Start,         \* encoder's first sequence id (a multiple of Ed+Ep below Paws)
          Sizes,         \* payload size classes
          MaxGroups,     \* groups the encoder may produce
          MaxDrop, MaxDup, MaxAir,
          AllowSkip,     \* TRUE: the sender may skip a group's parity (non-contiguous data)
          CalmNeeded     \* length of the uninterrupted run after which convergence is required (C16)

VARIABLES enc, dec, air, faults,
          seen,     \* seen[g]: set of idx of group g handed to the decoder so far (ghost)
          newestG,  \* newest group handed to the decoder so far (ghost)
          last,     \* what the last Deliver did: [pkt, out, why, reached, live]
          calm,     \* 0: faulty phase; > 0: number of packets delivered in order, without loss, since the network calmed down
          act
vars == <<enc, dec, air, faults, seen, newestG, last, calm, act>>

N == Ed + Ep
NoLast == [pkt |-> [gid |-> -1], out |-> <<>>, why |-> "none", reached |-> FALSE, live |-> FALSE]

Init == /\ enc = NewEncoder(Ed, Ep, Start) /\ dec = NewDecoder(Dd, Dp, Start \div (Dd + Dp))   \* a decoder that has followed the stream up to Start
        /\ air = <<>> /\ faults = [drop |-> 0, dup |-> 0]
        /\ seen = [g \in 0..MaxGroups |-> {}] /\ newestG = 0 /\ last = NoLast /\ calm = 0
        /\ act = [name |-> "Init", a |-> 0, b |-> 0]

Encode(size, contiguous) ==
  /\ enc.gid < MaxGroups /\ Len(air) + N <= MaxAir
  /\ contiguous \/ (AllowSkip /\ calm = 0)
  /\ LET r == EncodeOp(enc, size, contiguous) IN enc' = r.e /\ air' = air \o r.out
  /\ last' = NoLast
  /\ act' = [name |-> "Encode", a |-> size, b |-> IF contiguous THEN 1 ELSE 0]
  /\ UNCHANGED <<dec, faults, seen, newestG, calm>>

DelAt(s, i) == SubSeq(s, 1, i - 1) \o SubSeq(s, i + 1, Len(s))

Deliver(i, keep) ==
  /\ i \in 1..Len(air)
  /\ calm = 0 \/ (i = 1 /\ keep = 0)            \* calm phase: in order, once
  /\ keep = 1 => faults.dup < MaxDup
  /\ LET p == air[i]
         r == DecodeOp(dec, p)
         s1 == [seen EXCEPT ![p.gid] = @ \cup {p.idx}]
     IN /\ dec' = r.dec
        /\ seen' = s1
        /\ newestG' = IF p.gid > newestG THEN p.gid ELSE newestG
        /\ last' = [pkt |-> p, out |-> r.out, why |-> r.why,
                    reached |-> Cardinality(seen[p.gid]) < Ed /\ Cardinality(s1[p.gid]) >= Ed,
                    live |-> newestG - p.gid <= MaxSets - 1]
  /\ air' = IF keep = 1 THEN air ELSE DelAt(air, i)
  /\ faults' = IF keep = 1 THEN [faults EXCEPT !.dup = @ + 1] ELSE faults
  /\ calm' = IF calm > 0 THEN calm + 1 ELSE 0
  /\ act' = [name |-> "Deliver", a |-> i, b |-> keep]
  /\ UNCHANGED enc

Drop(i) ==
  /\ i \in 1..Len(air) /\ calm = 0 /\ faults.drop < MaxDrop
  /\ air' = DelAt(air, i) /\ faults' = [faults EXCEPT !.drop = @ + 1]
  /\ last' = NoLast
  /\ act' = [name |-> "Drop", a |-> i, b |-> 0]
  /\ UNCHANGED <<enc, dec, seen, newestG, calm>>

(* the network calms down: whatever is in flight is lost, from now on delivery is in order and complete *)
Calm ==
  /\ calm = 0 /\ CalmNeeded > 0
  /\ air' = <<>> /\ calm' = 1 /\ last' = NoLast
  /\ act' = [name |-> "Calm", a |-> 0, b |-> 0]
  /\ UNCHANGED <<enc, dec, faults, seen, newestG>>

Next == \/ \E s \in Sizes, c \in BOOLEAN : Encode(s, c)
        \/ \E i \in 1..Len(air), kp \in {0, 1} : Deliver(i, kp)
        \/ \E i \in 1..Len(air) : Drop(i)
        \/ Calm
Spec == Init /\ [][Next]_vars

Matching == Ed = Dd /\ Ep = Dp
(* C07 *)
OnlyOriginals == Matching => \A i \in 1..Len(last.out) :
                   /\ last.out[i].ok /\ last.out[i].gid = last.pkt.gid /\ last.out[i].idx < Ed
                   /\ last.out[i].idx \notin seen[last.pkt.gid] \/ last.why = "recovered"
Recoverable == Matching /\ last.reached /\ last.live =>
                 \A kk \in 0..(Ed - 1) : kk \in seen[last.pkt.gid] \/ \E i \in 1..Len(last.out) : last.out[i].idx = kk /\ last.out[i].ok
(* C16, stability half *)
Stable == Matching => ~dec.tune /\ dec.d = Ed /\ dec.p = Ep
(* C16, convergence half: calm counts the packets of the uninterrupted run (calm - 1 delivered so far) *)
Converges == calm - 1 >= CalmNeeded => dec.d = Ed /\ dec.p = Ep /\ ~dec.tune
(* C05: bounded decoder state *)
Bounded == /\ Len(dec.sets) <= MaxSets + 2
           /\ \A i \in 1..Len(dec.sets) : Cardinality(dec.sets[i].pkts) <= dec.d + dec.p
           /\ Len(dec.ring) <= RingN

Proj == [dec |-> ProjDec(dec), air |-> [i \in 1..Len(air) |-> [seq |-> air[i].seq, flag |-> air[i].flag, gid |-> air[i].gid, idx |-> air[i].idx, size |-> air[i].size]],
         out |-> last.out, why |-> last.why, next |-> enc.next]
View == <<enc, dec, air, faults, seen, newestG, calm>>
=============================================================================
