------------------------------ MODULE FrameMC ------------------------------
EXTENDS Frame
CoreSizesB == {24, 25, CoreMtu - 1, CoreMtu}
OOBLensB == {0, 1, OOBMax - 1, OOBMax, OOBMax + 1}
InputProps == IntegrityGuards /\ OOBNeverEntersFecOrKcp /\ SessionOnlyForNewConversation /\ ForeignConvNeverMerged
=============================================================================
