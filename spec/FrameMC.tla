------------------------------ MODULE FrameMC ------------------------------
EXTENDS Frame
CoreSizesB(m) == {24, 25, m - 1, m}
OOBLensB(m) == {0, 1, m - 1, m, m + 1}
InputProps == IntegrityGuards /\ OOBNeverEntersFecOrKcp /\ OOBOnlyOwnConversation /\ SessionOnlyForNewConversation /\ ForeignConvNeverMerged
=============================================================================
