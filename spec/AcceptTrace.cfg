SPECIFICATION TraceSpec
CONSTANTS
  Acceptors = {"a1", "a2"}
  MaxTime = 1000000
  Deadlines = {}
  MaxPeers = 1000000
  MaxSets = 1000000
  Backlog = 128
POSTCONDITION Accepted
CHECK_DEADLOCK FALSE
