------------------------------ MODULE AcceptTrace ------------------------------
(* Trace validation (code -> model) for Accept: a recorded script (environment events in order, with the results and virtual   *)
(* return times of the calls as observed on a real Listener) is accepted iff some behaviour of AcceptWait.tla takes exactly     *)
(* those environment steps and makes every call return what and when it was observed to; which blocked acceptor takes a session *)
(* is left to TLC.                                                                                                              *)
EXTENDS AcceptWait, Sequences, Json
Trace == ndJsonDeserialize("trace.ndjson")
VARIABLE l
tvars == <<avars, l>>
TraceInit == AInit /\ l = 1 /\ TLCSet(1, 1)
Reset == /\ now' = 0 /\ rd' = 0 /\ backlog' = 0 /\ ldie' = FALSE /\ lerr' = FALSE
         /\ pc' = [x \in Acceptors |-> "idle"] /\ dle' = [x \in Acceptors |-> 0] /\ res' = [x \in Acceptors |-> "none"]
         /\ rat' = [x \in Acceptors |-> -1] /\ peers' = 0 /\ sets' = 0 /\ changed' = [x \in Acceptors |-> FALSE]
Consume ==
  /\ l <= Len(Trace) /\ l' = l + 1
  /\ LET t == Trace[l] IN
     CASE t.ev = "reset"   -> Reset
       [] t.ev = "start"   -> Start(t.x)
       [] t.ev = "connect" -> Connect
       [] t.ev = "setdl"   -> SetDeadline(t.v)
       [] t.ev = "close"   -> Close
       [] t.ev = "sockerr" -> SockErr
       [] t.ev = "tick"    -> Tick
       [] t.ev = "ret"     -> pc[t.x] = "done" /\ res[t.x] = t.res /\ rat[t.x] = t.t /\ UNCHANGED avars
       [] t.ev = "blocked" -> pc[t.x] = "wait" /\ Quiescent /\ UNCHANGED avars
       [] OTHER            -> UNCHANGED avars
  /\ TLCSet(1, IF TLCGet(1) > l + 1 THEN TLCGet(1) ELSE l + 1)
Silent == \E x \in Acceptors : AcceptorStep(x) /\ l' = l
TraceNext == Consume \/ Silent
TraceSpec == TraceInit /\ [][TraceNext]_tvars
Accepted == TLCGet(1) = Len(Trace) + 1 \/ ~PrintT(<<"REJECTED-AT", TLCGet(1)>>)
=============================================================================
