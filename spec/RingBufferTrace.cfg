SPECIFICATION TraceSpec
CONSTANTS
  MinCap = 8
  ExpCap = 1024
  MaxSlots = 100000000
  MaxPush = 1000000000
  Mut = 1000000
  InitLayouts = {}
INVARIANTS LayoutConforms SlotsConform RetConforms Refines DeadSlotsZero RetRefines
POSTCONDITION AllConsumed
CHECK_DEADLOCK FALSE
