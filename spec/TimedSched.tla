----------------------------- MODULE TimedSched -----------------------------
(***************************************************************************)
(* timedsched.go (C17): Put appends a task to a mutex-protected slice and   *)
(* posts a one-slot notification; the `prepend` goroutine swaps the slice    *)
(* out and hands the tasks one by one over an unbuffered channel to W `sched` *)
(* workers; each worker keeps a private min-heap and ONE time.Timer:          *)
(*   task received:  overdue (now.After(ts)) -> run it at once; otherwise     *)
(*                   push, stopped := timer.Stop(), drain the channel if      *)
(*                   !stopped && !drained, Reset(top - now), drained = false  *)
(*   timer fired:    drained = true; run every task with !now.Before(ts);     *)
(*                   re-arm for the new top, drained = false                  *)
(* The timer is modelled under both Go timer-channel semantics:               *)
(*   AsyncChan = FALSE  (Go >= 1.23): unbuffered; Stop reports true and       *)
(*                      discards a fired-but-unreceived value                 *)
(*   AsyncChan = TRUE   (Go <= 1.22 / asynctimerchan=1): one-slot buffer; an   *)
(*                      expired timer has already sent, Stop reports false     *)
(*                      and the value stays in the buffer                     *)
(* Time advances only when nothing can take a step (prompt goroutines), so     *)
(* "promptly" is an invariant of quiescent states.                            *)
(***************************************************************************)
EXTENDS Integers, Sequences, FiniteSets, TLC

CONSTANTS W,           \* number of workers
          MaxTasks,    \* tasks that may be submitted
          Rel,         \* deadlines relative to the time of Put
          MaxTime,
          AsyncChan

Workers == 1..W
Tasks == 1..MaxTasks
None == -1000

VARIABLES now,
          dl,        \* dl[t]: deadline of task t (None: not submitted yet)
          putAt,     \* putAt[t]: when it was submitted
          pq,        \* tasks appended by Put, not yet swapped out
          token,     \* chPrependNotify (0/1)
          batch,     \* tasks swapped out by prepend, being handed over
          ppc,       \* prepend: "wait" / "swap" / "send"
          heap,      \* heap[w]: set of tasks
          wpc,       \* worker: "select", "stop", "drain", "reset"
          wnow,      \* the time.Now() a worker read when it received a task
          stopped, drained,
          tActive, tAt, tBuf,    \* the worker's timer: pending?, its deadline, buffered value (async only; None = empty)
          execAt,    \* execAt[t]: when it ran (None: not yet)
          execN      \* how many times it ran
vars == <<now, dl, putAt, pq, token, batch, ppc, heap, wpc, wnow, stopped, drained, tActive, tAt, tBuf, execAt, execN>>

Init == /\ now = 0 /\ dl = [t \in Tasks |-> None] /\ putAt = [t \in Tasks |-> None]
        /\ pq = <<>> /\ token = 0 /\ batch = <<>> /\ ppc = "wait"
        /\ heap = [w \in Workers |-> {}] /\ wpc = [w \in Workers |-> "select"] /\ wnow = [w \in Workers |-> 0]
        /\ stopped = [w \in Workers |-> FALSE] /\ drained = [w \in Workers |-> FALSE]
        /\ tActive = [w \in Workers |-> TRUE] /\ tAt = [w \in Workers |-> 0] /\ tBuf = [w \in Workers |-> None]   \* time.NewTimer(0)
        /\ execAt = [t \in Tasks |-> None] /\ execN = [t \in Tasks |-> 0]

MinDl(S) == CHOOSE d \in {dl[t] : t \in S} : \A t \in S : d <= dl[t]
Run(S) == /\ execAt' = [t \in Tasks |-> IF t \in S /\ execAt[t] = None THEN now ELSE execAt[t]]
          /\ execN' = [t \in Tasks |-> IF t \in S THEN execN[t] + 1 ELSE execN[t]]

(* ------------------------------- Put ----------------------------------- *)
Put(t, r) == /\ dl[t] = None /\ (IF t = 1 THEN TRUE ELSE dl[t - 1] # None)
             /\ dl' = [dl EXCEPT ![t] = now + r] /\ putAt' = [putAt EXCEPT ![t] = now]
             /\ pq' = Append(pq, t) /\ token' = 1
             /\ UNCHANGED <<now, batch, ppc, heap, wpc, wnow, stopped, drained, tActive, tAt, tBuf, execAt, execN>>

(* ----------------------------- prepend --------------------------------- *)
PTake == /\ ppc = "wait" /\ token = 1 /\ token' = 0 /\ ppc' = "swap"
         /\ UNCHANGED <<now, dl, putAt, pq, batch, heap, wpc, wnow, stopped, drained, tActive, tAt, tBuf, execAt, execN>>
PSwap == /\ ppc = "swap" /\ batch' = pq /\ pq' = <<>> /\ ppc' = IF pq = <<>> THEN "wait" ELSE "send"
         /\ UNCHANGED <<now, dl, putAt, token, heap, wpc, wnow, stopped, drained, tActive, tAt, tBuf, execAt, execN>>

(* ------------------------------ workers -------------------------------- *)
(* rendezvous on chTask: prepend sends batch[1], worker w (at its select) receives it *)
Recv(w) ==
  /\ ppc = "send" /\ wpc[w] = "select"
  /\ LET t == Head(batch) IN
     /\ batch' = Tail(batch) /\ ppc' = IF Tail(batch) = <<>> THEN "wait" ELSE "send"
     /\ IF now > dl[t]                                         \* now.After(task.ts): already delayed, run at once
          THEN Run({t}) /\ UNCHANGED <<heap, wpc, wnow>>
          ELSE /\ heap' = [heap EXCEPT ![w] = @ \cup {t}] /\ wpc' = [wpc EXCEPT ![w] = "stop"] /\ wnow' = [wnow EXCEPT ![w] = now]
               /\ UNCHANGED <<execAt, execN>>
  /\ UNCHANGED <<now, dl, putAt, pq, token, stopped, drained, tActive, tAt, tBuf>>

Stop(w) ==
  /\ wpc[w] = "stop"
  /\ LET st == IF AsyncChan THEN tActive[w] /\ now < tAt[w]    \* an expired async timer has sent already: Stop reports false
                            ELSE tActive[w]                     \* synchronous channel: pending (even if due) -> true, value discarded
     IN /\ stopped' = [stopped EXCEPT ![w] = st]
        /\ tActive' = [tActive EXCEPT ![w] = IF AsyncChan /\ tActive[w] /\ now >= tAt[w] THEN @ ELSE FALSE]
        /\ wpc' = [wpc EXCEPT ![w] = IF ~st /\ ~drained[w] THEN "drain" ELSE "reset"]
  /\ UNCHANGED <<now, dl, putAt, pq, token, batch, ppc, heap, wnow, drained, tAt, tBuf, execAt, execN>>

(* <-timer.C after an unsuccessful Stop: blocks until the channel has a value *)
Drain(w) ==
  /\ wpc[w] = "drain"
  /\ IF AsyncChan THEN tBuf[w] # None /\ tBuf' = [tBuf EXCEPT ![w] = None] /\ UNCHANGED tActive
                  ELSE FALSE                                    \* nothing will ever arrive on a stopped synchronous timer
  /\ wpc' = [wpc EXCEPT ![w] = "reset"]
  /\ UNCHANGED <<now, dl, putAt, pq, token, batch, ppc, heap, wnow, stopped, drained, tAt, execAt, execN>>

Reset(w) ==
  /\ wpc[w] = "reset"
  /\ tActive' = [tActive EXCEPT ![w] = TRUE] /\ tAt' = [tAt EXCEPT ![w] = now + (MinDl(heap[w]) - wnow[w])]
  /\ drained' = [drained EXCEPT ![w] = FALSE] /\ wpc' = [wpc EXCEPT ![w] = "select"]
  /\ UNCHANGED <<now, dl, putAt, pq, token, batch, ppc, heap, wnow, stopped, tBuf, execAt, execN>>

(* async only: the runtime delivers an expired timer into the channel buffer *)
Expire(w) ==
  /\ AsyncChan /\ tActive[w] /\ now >= tAt[w] /\ tBuf[w] = None
  /\ tBuf' = [tBuf EXCEPT ![w] = tAt[w]] /\ tActive' = [tActive EXCEPT ![w] = FALSE]
  /\ UNCHANGED <<now, dl, putAt, pq, token, batch, ppc, heap, wpc, wnow, stopped, drained, tAt, execAt, execN>>

(* case now := <-timer.C *)
Fire(w) ==
  /\ wpc[w] = "select"
  /\ IF AsyncChan THEN tBuf[w] # None ELSE tActive[w] /\ now >= tAt[w]
  /\ LET fnow == IF AsyncChan THEN tBuf[w] ELSE now                        \* the time value carried by the channel
         due  == {t \in heap[w] : ~(fnow < dl[t])}                         \* !now.Before(ts)   (fix a647858; was now.After)
         rest == heap[w] \ due
     IN /\ Run(due) /\ heap' = [heap EXCEPT ![w] = rest]
        /\ tBuf' = [tBuf EXCEPT ![w] = None]
        /\ IF rest = {}
             THEN /\ drained' = [drained EXCEPT ![w] = TRUE]
                  /\ tActive' = [tActive EXCEPT ![w] = IF AsyncChan THEN @ ELSE FALSE] /\ tAt' = tAt
             ELSE /\ drained' = [drained EXCEPT ![w] = FALSE]
                  /\ tActive' = [tActive EXCEPT ![w] = TRUE] /\ tAt' = [tAt EXCEPT ![w] = now + (MinDl(rest) - fnow)]
  /\ UNCHANGED <<now, dl, putAt, pq, token, batch, ppc, wpc, wnow, stopped>>

Step == \/ PTake \/ PSwap \/ \E w \in Workers : Recv(w) \/ Stop(w) \/ Drain(w) \/ Reset(w) \/ Expire(w) \/ Fire(w)
Quiescent == ~ENABLED Step
Tick == /\ Quiescent /\ now < MaxTime /\ now' = now + 1
        /\ UNCHANGED <<dl, putAt, pq, token, batch, ppc, heap, wpc, wnow, stopped, drained, tActive, tAt, tBuf, execAt, execN>>
Next == Step \/ Tick \/ \E t \in Tasks, r \in Rel : Put(t, r)
Spec == Init /\ [][Next]_vars

(* ------------------------------ properties ------------------------------ *)
Submitted(t) == dl[t] # None
ExactlyOnceSoFar == \A t \in Tasks : execN[t] <= 1
NeverEarly == \A t \in Tasks : execAt[t] # None => execAt[t] >= dl[t]
(* promptly: when nothing can move, no submitted task is overdue and unexecuted *)
Prompt == Quiescent => \A t \in Tasks : Submitted(t) /\ execAt[t] = None => dl[t] > now
(* ... and every waiting task is covered by an armed timer no later than its deadline: a far task never delays a near one *)
Covered == Quiescent => \A w \in Workers : heap[w] # {} => tActive[w] /\ tAt[w] <= MinDl(heap[w])
(* the stop/drain/reset dance never blocks for good *)
NoStuckDrain == Quiescent => \A w \in Workers : wpc[w] = "select"
(* exact execution time under a prompt clock *)
ExactTime == \A t \in Tasks : execAt[t] # None => execAt[t] = (IF dl[t] > putAt[t] THEN dl[t] ELSE putAt[t])
=============================================================================
