SPECIFICATION Spec
CONSTANTS
  Mod = 0
  Cfg <- CfgStream
  WriteSizes = {20, 40}
  ReadSizes = {16, 64}
  Ticks = {100, 200}
  MaxBytes = 60
  MaxDrop = 1
  MaxDup = 1
  MaxNet = 3
  MaxTime = 800
  MaxForge = 0
  Writers = {1}
  SnOff <- SnOff00
  ClkOff = 0
  Drive = "tick"
  HealEnabled = FALSE
  ReaderPaused <- NoPause
  Forged <- NoForged
INVARIANTS Prefix MsgPrefix WindowDiscipline TruthfulWnd OutSizeOK AdmitBelowWindow NoAdmitAfterLoss
PROPERTIES UnaMonotone
CONSTRAINT NetBound
VIEW View
CHECK_DEADLOCK FALSE
