--------------------------- MODULE AcceptWaitSim ---------------------------
(* Script generation for the Accept driver: behaviours of AcceptWait projected to the environment's actions. *)
EXTENDS AcceptWait, Sequences, Json
CONSTANT SimDepth
VARIABLE hist
svars == <<avars, hist>>
Ended == hist # <<>> /\ hist[Len(hist)].ev = "end"
Lbl(e, x, v) == hist' = Append(hist, [ev |-> e, x |-> x, v |-> v])
SimInit == AInit /\ hist = <<>>
SimNext ==
  \/ /\ ~Ended /\ Len(hist) < SimDepth
     /\ \/ \E x \in Acceptors : Start(x) /\ Lbl("start", x, 0)
        \/ \E x \in Acceptors : AcceptorStep(x) /\ hist' = hist
        \/ ~ldie /\ Connect /\ Lbl("connect", "", 0)
        \/ \E v \in Deadlines : SetDeadline(v) /\ Lbl("setdl", "", v)
        \/ Close /\ Lbl("close", "", 0)
        \/ SockErr /\ Lbl("sockerr", "", 0)
        \/ Tick /\ Lbl("tick", "", 0)
  \/ /\ ~Ended /\ (Len(hist) = SimDepth \/ now = MaxTime) /\ Quiescent
     /\ hist' = Append(hist, [ev |-> "end", x |-> "", v |-> 0]) /\ UNCHANGED avars
SimSpec == SimInit /\ [][SimNext]_svars
EmitBeh == Ended => PrintT(<<"BEH", ToJson([callers |-> Cardinality(Acceptors), steps |-> SubSeq(hist, 1, Len(hist) - 1)])>>)
=============================================================================
