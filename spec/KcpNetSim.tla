------------------------------ MODULE KcpNetSim ------------------------------
(***************************************************************************)
(* Behaviour generation for the replay into the code: KcpNet's Next with a  *)
(* history variable holding (action, projected post-state) per step.  Run   *)
(* with  tlc -simulate num=N -depth D ; every behaviour that reaches         *)
(* SimDepth steps is printed as one JSON line.  Steps that cannot change     *)
(* anything (a Recv with nothing readable) are filtered inside Next.         *)
(***************************************************************************)
EXTENDS KcpNetMC

CONSTANT SimDepth
VARIABLE hist
svars == <<vars, hist>>

Useful == /\ act'.name = "Recv" => obs'.ret # -1
          /\ act'.name = "Flush" /\ Drive = "free" => (obs'.out # <<>> \/ k' # k)

SimInit == Init /\ hist = <<>>
(* the last step is a unique marker step, so that exactly one state per behaviour triggers the print *)
SimNext == \/ /\ Len(hist) < SimDepth
              /\ Next /\ Useful
              /\ hist' = Append(hist, [a |-> act', s |-> Proj'])
           \/ /\ Len(hist) = SimDepth
              /\ hist' = Append(hist, [a |-> [name |-> "End", e |-> 0, a |-> 0, b |-> 0], s |-> Proj])
              /\ UNCHANGED vars
SimSpec == SimInit /\ [][SimNext]_svars

EmitBeh == Len(hist) = SimDepth + 1 =>
          PrintT(<<"BEH", ToJson([cfg |-> Cfg, snoff |-> SnOff, clk |-> ClkOff, steps |-> SubSeq(hist, 1, SimDepth)])>>)
=============================================================================
