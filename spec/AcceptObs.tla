------------------------------- MODULE AcceptObs -------------------------------
(* C13 monitors for Accept over what was observed at a real Listener in virtual time. ret lines: res, t, st (start), dle (the     *)
(* listener's deadline when the call started), changed (the deadline was changed while this call was blocked); tick / blocked       *)
(* lines: now, blocked (acceptors still blocked), anychanged, dl (the listener's deadline now), backlog, closed, serr.              *)
EXTENDS Integers, Sequences, TLC, Json
Trace == ndJsonDeserialize("trace.ndjson")
VARIABLES l
Init == l = 1
Next == l <= Len(Trace) /\ l' = l + 1
Spec == Init /\ [][Next]_l
Obs == Trace[l - 1]
Is(e) == l > 1 /\ Obs.ev = e
Max(a, b) == IF a > b THEN a ELSE b
Timeout == Is("ret") /\ Obs.res = "timeout"
(* with respect to the deadline in force when the call started *)
C13_AcceptNoEarlyTimeout == Timeout => Obs.dle # 0 /\ Obs.t >= Obs.dle
C13_AcceptTimeoutAtDeadline == Timeout => Obs.t = Max(Obs.dle, Obs.st)
IsTick == Is("tick") /\ Obs.blocked > 0
C13_AcceptNothingStranded == IsTick => Obs.backlog = 0
C13_AcceptCloseWakesAll == IsTick => ~Obs.closed
C13_AcceptErrorWakesAll == IsTick => ~Obs.serr
C13_AcceptNotBlockedPastDeadline == IsTick /\ ~Obs.anychanged /\ Obs.dl # 0 => Obs.now < Obs.dl
(* listed known finding: a deadline changed while Accept is already blocked has no effect on that call *)
C13_AcceptDeadline_ChangedWhileBlocked == IsTick /\ Obs.anychanged /\ Obs.dl # 0 => Obs.now < Obs.dl
=============================================================================
