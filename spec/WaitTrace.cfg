SPECIFICATION TraceSpec
CONSTANTS
  Callers = {"r1", "r2", "r3"}
  MaxTime = 1000000
  Deadlines = {}
  MaxArrivals = 1000000
  MaxSets = 1000000
  Variant = "fixed"
  Side = "read"
POSTCONDITION Accepted
CHECK_DEADLOCK FALSE
