------------------------------ MODULE AcceptWait ------------------------------
(***************************************************************************)
(* Listener.AcceptKCP (sess.go) and what wakes it (C13, Accept clause): the  *)
(* accept backlog, the listener's deadline, Close, a socket read error.      *)
(*   entry   the deadline is read ONCE, when the call starts                 *)
(*           (`if tdeadline, ok := l.rd.Load().(time.Time); ok && !IsZero`)   *)
(*           and turned into a timer; nothing re-reads it while the call is   *)
(*           blocked and SetDeadline posts no wake-up                         *)
(*   wait    select { timeout, <-chAccepts, <-chSocketReadError, <-die }      *)
(* Several goroutines may be blocked in Accept; whichever is chosen by the    *)
(* select takes the session at the head of the backlog.  Time is discrete    *)
(* and advances only when no acceptor can take a step (virtual clock).       *)
(* The model follows the code as it is: a deadline changed while an Accept   *)
(* is blocked has no effect on that call -- the Strict property below fails   *)
(* (listed known finding C13/AcceptDeadline_ChangedWhileBlocked), the         *)
(* property restricted to calls whose deadline was not changed meanwhile      *)
(* holds.                                                                    *)
(***************************************************************************)
EXTENDS Integers, FiniteSets, TLC

CONSTANTS Acceptors, MaxTime, Deadlines, MaxPeers, MaxSets, Backlog

VARIABLES now, rd, backlog, ldie, lerr, pc, dle, res, rat, peers, sets, changed
avars == <<now, rd, backlog, ldie, lerr, pc, dle, res, rat, peers, sets, changed>>

AInit == /\ now = 0 /\ rd = 0 /\ backlog = 0 /\ ldie = FALSE /\ lerr = FALSE
         /\ pc = [x \in Acceptors |-> "idle"] /\ dle = [x \in Acceptors |-> 0] /\ res = [x \in Acceptors |-> "none"]
         /\ rat = [x \in Acceptors |-> -1] /\ peers = 0 /\ sets = 0 /\ changed = [x \in Acceptors |-> FALSE]

(* the call starts: the deadline in force is read once *)
Start(x) == /\ pc[x] = "idle" /\ res[x] = "none"
            /\ pc' = [pc EXCEPT ![x] = "wait"] /\ dle' = [dle EXCEPT ![x] = rd] /\ changed' = [changed EXCEPT ![x] = FALSE]
            /\ UNCHANGED <<now, rd, backlog, ldie, lerr, res, rat, peers, sets>>

Finish(x, r) == /\ res' = [res EXCEPT ![x] = r] /\ rat' = [rat EXCEPT ![x] = now] /\ pc' = [pc EXCEPT ![x] = "done"]
(* the select: every ready case may be chosen *)
Take(x)    == pc[x] = "wait" /\ backlog > 0 /\ backlog' = backlog - 1 /\ Finish(x, "ok")
              /\ UNCHANGED <<now, rd, ldie, lerr, dle, peers, sets, changed>>
Timeout(x) == pc[x] = "wait" /\ dle[x] # 0 /\ now >= dle[x] /\ Finish(x, "timeout")
              /\ UNCHANGED <<now, rd, backlog, ldie, lerr, dle, peers, sets, changed>>
Err(x)     == pc[x] = "wait" /\ lerr /\ Finish(x, "error")
              /\ UNCHANGED <<now, rd, backlog, ldie, lerr, dle, peers, sets, changed>>
Die(x)     == pc[x] = "wait" /\ ldie /\ Finish(x, "closed")
              /\ UNCHANGED <<now, rd, backlog, ldie, lerr, dle, peers, sets, changed>>
AcceptorStep(x) == Take(x) \/ Timeout(x) \/ Err(x) \/ Die(x)

(* environment *)
Connect == /\ peers < MaxPeers /\ ~lerr /\ backlog < Backlog          \* a new peer's first datagram: a session is queued (if the backlog has room)
           /\ peers' = peers + 1 /\ backlog' = backlog + 1
           /\ UNCHANGED <<now, rd, ldie, lerr, pc, dle, res, rat, sets, changed>>
SetDeadline(v) == /\ sets < MaxSets /\ sets' = sets + 1 /\ (v = 0 \/ v >= now - 1) /\ rd' = v
                  /\ changed' = [x \in Acceptors |-> changed[x] \/ pc[x] = "wait"]     \* ghost: calls blocked right now do not see it
                  /\ UNCHANGED <<now, backlog, ldie, lerr, pc, dle, res, rat, peers>>
Close == /\ ~ldie /\ ldie' = TRUE /\ UNCHANGED <<now, rd, backlog, lerr, pc, dle, res, rat, peers, sets, changed>>
SockErr == /\ ~lerr /\ lerr' = TRUE /\ UNCHANGED <<now, rd, backlog, ldie, pc, dle, res, rat, peers, sets, changed>>

Quiescent == \A x \in Acceptors : ~ENABLED AcceptorStep(x)
Tick == /\ Quiescent /\ now < MaxTime /\ now' = now + 1
        /\ UNCHANGED <<rd, backlog, ldie, lerr, pc, dle, res, rat, peers, sets, changed>>

ANext == \/ \E x \in Acceptors : Start(x) \/ AcceptorStep(x)
         \/ Connect \/ (\E v \in Deadlines : SetDeadline(v)) \/ Close \/ SockErr \/ Tick
ASpec == AInit /\ [][ANext]_avars

(* ------------------------------ properties ------------------------------ *)
Waiting(x) == pc[x] = "wait"
NoEarlyTimeout == \A x \in Acceptors : res[x] = "timeout" => dle[x] # 0 /\ rat[x] >= dle[x]
(* a new peer is handed out as soon as somebody is waiting for it *)
NothingStranded == Quiescent => ~(backlog > 0 /\ \E x \in Acceptors : Waiting(x))
CloseWakesAll == Quiescent /\ ldie => \A x \in Acceptors : ~Waiting(x)
ErrorWakesAll == Quiescent /\ lerr => \A x \in Acceptors : ~Waiting(x)
(* nobody stays blocked past the listener's deadline ... *)
DeadlineHonouredStrict == Quiescent => \A x \in Acceptors : Waiting(x) /\ rd # 0 => now < rd
(* ... unless it was changed while that call was blocked (the code as it is; the Strict form is the listed known finding) *)
DeadlineHonoured == Quiescent => \A x \in Acceptors : Waiting(x) /\ rd # 0 /\ ~changed[x] => now < rd
=============================================================================
