-------------------------------- MODULE Fec --------------------------------
(***************************************************************************)
(* fec.go + autotune.go: the Reed-Solomon framing layer (C07, C16, FEC      *)
(* parts of C12/C19).  Encoder and decoder are records whose fields carry   *)
(* the names of the Go structs; EncodeOp / DecodeOp follow fecEncoder.encode *)
(* and fecDecoder.decode branch by branch.                                  *)
(*                                                                         *)
(* Sequence ids live in a word of W values (2^32 in the code).  paws is      *)
(* (W-1) div n * n as in the code, ids wrap at paws while the signed         *)
(* comparison (_itimediff) and the auto-tuner's "seq+1" wrap at W.  W is     *)
(* scaled down in model-checking instances so that the wrap point lies       *)
(* inside small runs; W = 0 means no wrap (trace validation far from paws).  *)
(*                                                                         *)
(* Reed-Solomon arithmetic is abstracted by its MDS property: from any d     *)
(* distinct shards of one codeword the missing data shards are rebuilt       *)
(* exactly.  Every packet carries ghost fields (gid, idx, ed, ep: the group  *)
(* it was encoded in, its position, the encoder's ratio); a reconstruction   *)
(* whose inputs are not d shards of one codeword at their true positions     *)
(* under the decoder's ratio yields garbage (ok = FALSE).                    *)
(***************************************************************************)
EXTENDS Integers, Sequences, FiniteSets, SequencesExt, TLC

CONSTANTS W,        \* word size of sequence ids (0: unbounded)
          RingN,    \* maxAutoTuneSamples (258 in the code)
          MaxSets   \* maxShardSets (3 in the code)

Paws(n) == IF W = 0 THEN 1073741823 ELSE ((W - 1) \div n) * n
UW(x)   == IF W = 0 THEN x ELSE x % W
SD(a, b) == IF W = 0 THEN a - b
            ELSE LET d == (a - b) % W IN IF d >= W \div 2 THEN d - W ELSE d

(* ------------------------------ encoder -------------------------------- *)
NewEncoder(d, p, next) == [d |-> d, p |-> p, next |-> next, cnt |-> 0, maxsz |-> 0, gid |-> 0, fresh |-> TRUE]

(* encode(b, rto): size = payload size class; cont = (now - tsLatestPacket < rto). tsLatestPacket starts at 0, so the  *)
(* very first packet of an encoder is never "contiguous" (with dataShards = 1 the first group's parity is skipped).   *)
EncodeOp(e0, size, cont) ==
  LET n     == e0.d + e0.p
      contiguous == cont /\ ~e0.fresh
      e     == [e0 EXCEPT !.fresh = FALSE]
      pw    == Paws(n)
      data  == [seq |-> e.next, flag |-> "data", gid |-> e.gid, idx |-> e.cnt, size |-> size, ed |-> e.d, ep |-> e.p]
      nx1   == (e.next + 1) % pw
      msz   == IF size > e.maxsz THEN size ELSE e.maxsz
  IN IF e.cnt + 1 < e.d
       THEN [e |-> [e EXCEPT !.next = nx1, !.cnt = @ + 1, !.maxsz = msz], out |-> <<data>>]
       ELSE LET par == IF contiguous
                         THEN [i \in 1..e.p |-> [seq |-> (nx1 + i - 1) % pw, flag |-> "parity", gid |-> e.gid, idx |-> e.d + i - 1,
                                                 size |-> msz, ed |-> e.d, ep |-> e.p]]
                         ELSE <<>>                                  \* skipParity: ids advance, nothing is sent
            IN [e |-> [e EXCEPT !.next = (nx1 + e.p) % pw, !.cnt = 0, !.maxsz = 0, !.gid = @ + 1], out |-> <<data>> \o par]

(* ----------------------------- auto-tuner ------------------------------ *)
Sample(ring, bit, seq) ==
  LET r == Append(ring, [bit |-> bit, seq |-> seq]) IN IF Len(r) > RingN THEN Tail(r) ELSE r

(* FindPeriod: sort by signed difference, find the first complete pulse of `bit`; -1 when the run is not continuous *)
RECURSIVE Edge(_, _, _, _)
Edge(s, i, bit, rising) ==          \* first index i' >= i with a (rising / falling) edge of `bit`; 0 if none; -1 on a gap
  IF i > Len(s) THEN 0
  ELSE IF UW(s[i - 1].seq + 1) # s[i].seq THEN -1
  ELSE IF rising /\ s[i - 1].bit # bit /\ s[i].bit = bit THEN i
  ELSE IF ~rising /\ s[i - 1].bit = bit /\ s[i].bit # bit THEN i
  ELSE Edge(s, i + 1, bit, rising)

FindPeriod(ring, bit) ==
  IF Len(ring) < 3 THEN -1
  ELSE LET s == SortSeq(ring, LAMBDA a, b : SD(a.seq, b.seq) < 0)
           l == Edge(s, 2, bit, TRUE)
       IN IF l <= 0 THEN -1
          ELSE LET r == Edge(s, l + 1, bit, FALSE) IN IF r <= 0 THEN -1 ELSE r - l

(* ------------------------------ decoder -------------------------------- *)
NewDecoder(d, p, newest) == [d |-> d, p |-> p, sets |-> <<>>, newest |-> newest, tune |-> FALSE, ring |-> <<>>]
(* sets: sequence of [id, pkts] (pkts a set); an emptied set stays in the map, as in the code *)

SetIdx(sets, id) == IF \E i \in 1..Len(sets) : sets[i].id = id THEN CHOOSE i \in 1..Len(sets) : sets[i].id = id ELSE 0

(* ReconstructData on the popped packets: outputs for the data positions that are absent *)
Reconstruct(dec, pkts) ==
  LET n     == dec.d + dec.p
      pos(q) == q.seq % n
      coherent == /\ \A q \in pkts : q.ed = dec.d /\ q.ep = dec.p /\ q.idx = pos(q)
                  /\ \A q1, q2 \in pkts : q1.gid = q2.gid
      g     == (CHOOSE q \in pkts : TRUE).gid
      miss  == {kk \in 0..(dec.d - 1) : ~\E q \in pkts : pos(q) = kk}
      \* garbage has no identity: one anonymous not-ok output per missing position
      \* with one data shard every shard of a codeword (data or parity) is a copy of the data packet, whatever the parity count:
      \* a decoder running d = 1 rebuilds the right packet from any single shard of a d = 1 sender
      trivial == dec.d = 1 /\ Cardinality(pkts) = 1 /\ \A q \in pkts : q.ed = 1
  IN IF trivial /\ ~coherent THEN [i \in 1..Cardinality(miss) |-> [gid |-> g, idx |-> 0, ok |-> TRUE]]
     ELSE IF coherent THEN SetToSortSeq({[gid |-> g, idx |-> kk, ok |-> TRUE] : kk \in miss}, LAMBDA a, b : a.idx < b.idx)
     ELSE [i \in 1..Cardinality(miss) |-> [gid |-> -1, idx |-> -1, ok |-> FALSE]]

DecodeOp(dec, pkt) ==
  LET n0   == dec.d + dec.p
      ring == Sample(dec.ring, pkt.flag = "data", pkt.seq)
      d1   == [dec EXCEPT !.ring = ring]
  IN IF pkt.seq >= Paws(n0) THEN [dec |-> d1, out |-> <<>>, why |-> "beyond-paws"]
     ELSE
     LET expectData == pkt.seq % n0 < dec.d
         mismatch   == (expectData /\ pkt.flag # "data") \/ (~expectData /\ pkt.flag # "parity")
         tune       == dec.tune \/ mismatch
     IN IF tune
          THEN LET ds == FindPeriod(ring, TRUE)
                   ps == FindPeriod(ring, FALSE)
               IN IF ds > 0 /\ ps > 0 /\ ds + ps < 256
                    THEN IF ds # dec.d \/ ps # dec.p
                           THEN [dec |-> [d1 EXCEPT !.d = ds, !.p = ps, !.sets = <<>>, !.tune = FALSE,
                                                    !.newest = pkt.seq \div (ds + ps)],   \* horizon re-expressed in the new unit (fix c4d7094)
                                 out |-> <<>>, why |-> "retuned"]
                           ELSE [dec |-> [d1 EXCEPT !.tune = FALSE], out |-> <<>>, why |-> "tune-cleared"]
                    ELSE [dec |-> [d1 EXCEPT !.tune = TRUE], out |-> <<>>, why |-> "tuning"]
          ELSE
          LET id   == pkt.seq \div n0
              si   == SetIdx(d1.sets, id)
              sets1 == IF si = 0 THEN Append(d1.sets, [id |-> id, pkts |-> {}]) ELSE d1.sets
              i    == IF si = 0 THEN Len(sets1) ELSE si
              cur  == sets1[i].pkts
          IN IF \E q \in cur : q.seq = pkt.seq THEN [dec |-> [d1 EXCEPT !.sets = sets1], out |-> <<>>, why |-> "duplicate"]
             ELSE
             LET cur1 == cur \cup {pkt}
                 full == Cardinality(cur1) >= d1.d
                 ndat == Cardinality({q \in cur1 : q.flag = "data"})
                 outp == IF full /\ ndat # d1.d THEN Reconstruct(d1, cur1) ELSE <<>>
                 sets2 == [sets1 EXCEPT ![i].pkts = IF full THEN {} ELSE cur1]
                 newest == IF SD(UW(id * n0), UW(d1.newest * n0)) > 0 THEN id ELSE d1.newest
                 keep  == SelectSeq(sets2, LAMBDA s : ~(SD(UW(newest * n0), UW(s.id * n0)) > MaxSets * n0))
             IN [dec |-> [d1 EXCEPT !.sets = keep, !.newest = newest], out |-> outp,
                 why |-> IF full THEN (IF ndat = d1.d THEN "full-set" ELSE "recovered") ELSE "stored"]

(* projection of the decoder compared with the implementation *)
ProjDec(dec) == [d |-> dec.d, p |-> dec.p, tune |-> dec.tune, newest |-> dec.newest,
                 sets |-> SetToSortSeq({[id |-> dec.sets[i].id, seqs |-> SetToSortSeq({q.seq : q \in dec.sets[i].pkts}, LAMBDA x, y : x < y)] : i \in 1..Len(dec.sets)},
                                       LAMBDA a, b : a.id < b.id),
                 ringlen |-> Len(dec.ring)]
=============================================================================
