------------------------------- MODULE FecObs -------------------------------
(***************************************************************************)
(* C07 / C16 property monitors over traces of the real FEC encoder and      *)
(* decoder.  The harness knows the true identity of every packet (group,     *)
(* position, encoder ratio) and identifies every reconstructed packet by     *)
(* its bytes (an original data packet of group g at position i with its      *)
(* exact length, or not); the monitors state the properties over those       *)
(* identities and the decoder parameters observed after each call.           *)
(***************************************************************************)
EXTENDS Integers, Sequences, FiniteSets, TLC, Json
Trace == ndJsonDeserialize("trace.ndjson")
VARIABLES l, cf, phase
ovars == <<l, cf, phase>>
Init == l = 1 /\ cf = [ed |-> 0, ep |-> 0, dd |-> 0, dp |-> 0] /\ phase = "faulty"
Next == /\ l <= Len(Trace) /\ l' = l + 1
        /\ LET t == Trace[l] IN
           /\ cf' = IF t.ev = "reset" THEN [ed |-> t.ed, ep |-> t.ep, dd |-> t.dd, dp |-> t.dp] ELSE cf
           /\ phase' = IF t.ev = "reset" THEN "faulty"
                       ELSE IF t.ev = "calm" THEN "calm"
                       ELSE IF t.ev = "converged" THEN "after"
                       ELSE phase
Spec == Init /\ [][Next]_ovars

Obs == Trace[l - 1]
IsDecode == l > 1 /\ Obs.ev = "op" /\ Obs.name = "Decode" /\ ~Obs.panic
Matching == cf.ed = cf.dd /\ cf.ep = cf.dp
(* the decoder currently runs the sender's ratio (always when configured alike; after convergence otherwise) *)
SameRatioNow == IsDecode /\ Obs.dec.d = cf.ed /\ Obs.dec.p = cf.ep

C05_NoPanic == l > 1 /\ Obs.ev # "reset" => ~Obs.panic

(* ---- C07 ---- *)
(* nothing but original data packets of that group, byte for byte with their length *)
C07_OnlyOriginals ==
  IsDecode /\ (Matching \/ phase = "after") =>
     \A i \in 1..Len(Obs.out) : Obs.out[i].ok /\ Obs.out[i].gid = Obs.pkt.gid /\ Obs.out[i].idx < cf.ed
(* as soon as any dataShards distinct packets of a live group have arrived, every missing data packet is rebuilt *)
C07_Recoverable ==
  IsDecode /\ (Matching \/ phase = "after") /\ Obs.reached /\ Obs.live =>
     \A kk \in 0..(cf.ed - 1) : (\E j \in 1..Len(Obs.seen) : Obs.seen[j] = kk)
                               \/ (\E i \in 1..Len(Obs.out) : Obs.out[i].idx = kk /\ Obs.out[i].ok)

(* ---- C16 ---- *)
(* stability: with equal configurations no sequence of genuine packets changes the ratio or suspends decoding *)
C16_Stable == IsDecode /\ Matching => ~Obs.dec.tune /\ Obs.dec.d = cf.ed /\ Obs.dec.p = cf.ep
(* convergence: after an uninterrupted run of 258 + 2(d+p) packets the decoder has the sender's ratio *)
C16_Converges == l > 1 /\ Obs.ev = "converged" => Obs.d = Obs.ed /\ Obs.p = Obs.ep /\ ~Obs.tune
(* harmless meanwhile: whatever a mismatched decoder emits is never presented as valid by the harness' identity check *)
(* (garbage reaching KCP is rejected there by conv/cmd/len validation; observed at session level by C01/C16 runs)    *)

(* ---- C12 (FEC part): a "pair" line holds the normalised observations of the same step of the same history executed with the  *)
(* encoder / decoder at position 0 (a) and just before the wrap value of the sequence ids (b)                                  *)
C12_ShiftInvariant == l > 1 /\ Obs.ev = "pair" => Obs.a = Obs.b

(* ---- C05 (decoder part): bounded state whatever arrives ---- *)
C05_DecoderBounded == IsDecode => /\ Len(Obs.dec.sets) <= 5
                                   /\ \A i \in 1..Len(Obs.dec.sets) : Len(Obs.dec.sets[i].seqs) <= Obs.dec.d + Obs.dec.p
                                   /\ Obs.dec.ringlen <= 258
=============================================================================
