SPECIFICATION LSpec2
CONSTANTS
  CK = "crc"
  Addrs = {"A", "B"}
  Convs = {1, 2}
  Backlog = 2
  MaxSess = 4
  Classes <- ClassesA
INVARIANTS Isolation TableConsistent OneAcceptPerSession BacklogBounded ForeignNeverCloses
CHECK_DEADLOCK FALSE
