---------------------------- MODULE SessionWait ----------------------------
(***************************************************************************)
(* The blocking loops of UDPSession.Read / WriteBuffers (sess.go) and the   *)
(* things that wake them (C13): a one-slot wake-up token, a deadline stored  *)
(* in an atomic, a per-call timer with the select's timeout channel `c`,     *)
(* the closed flag and the socket-error flag.  One abstract resource stands  *)
(* for "what the call waits for": readable messages for Read, free window    *)
(* slots for Write -- the two loops are line by line the same.              *)
(*                                                                         *)
(* Each caller follows the code label by label:                              *)
(*   arm    the RESET_TIMER block (create / Reset / Stop the timer, set c)   *)
(*   check  the locked test of the resource                                  *)
(*   wait   the select: token, timeout channel c, socket error, die          *)
(* Time is discrete and advances only when no caller can take a step (the    *)
(* semantics of a virtual clock: callers are prompt), so "returns at the     *)
(* deadline" is an invariant of quiescent states.                            *)
(*                                                                         *)
(* Code variants (CONSTANT Variant) keep the history of the repairs:         *)
(*   "pinned"  the code as found: Reset without restoring c (D1), no baton   *)
(*             passing between callers (D2), no re-arm when a deadline is    *)
(*             set while blocked without one (D7)                            *)
(*   "fixed"   the repaired code                                             *)
(***************************************************************************)
EXTENDS Integers, FiniteSets, TLC

CONSTANTS Callers,       \* e.g. {"r1", "r2"}
          MaxTime,
          Deadlines,     \* values SetDeadline may store (0 = cleared; others absolute times)
          MaxArrivals,   \* resource units that may arrive
          MaxSets,       \* number of SetDeadline calls
          Variant,
          Side           \* "read": Read looks at the data first (it drains what was received even after Close / an error);
                         \* "write": WriteBuffers looks at the socket error and at die first, at the top of every round

VARIABLES now, dl, tok, avail, die, serr,
          pc, timer, tat, c, res, rat, rdl,
          arrivals, sets, dlat,
          multi          \* ghost: two or more callers have been inside the call at the same time (known finding for deadlines)
vars == <<now, dl, tok, avail, die, serr, pc, timer, tat, c, res, rat, rdl, arrivals, sets, dlat, multi>>

Init == /\ now = 0 /\ dl = 0 /\ tok = 0 /\ avail = 0 /\ die = FALSE /\ serr = FALSE
        /\ pc = [x \in Callers |-> "idle"] /\ timer = [x \in Callers |-> FALSE] /\ tat = [x \in Callers |-> -1]
        /\ c = [x \in Callers |-> FALSE] /\ res = [x \in Callers |-> "none"] /\ rat = [x \in Callers |-> -1]
        /\ rdl = [x \in Callers |-> 0]
        /\ arrivals = 0 /\ sets = 0 /\ dlat = 0 /\ multi = FALSE

(* ------------------------------- callers ------------------------------- *)
Start(x) == /\ pc[x] = "idle" /\ res[x] = "none"
            /\ pc' = [pc EXCEPT ![x] = "arm"]
            \* ghost: from now on two callers are inside the call on the same side at the same time
            /\ multi' = (multi \/ \E y \in Callers \ {x} : pc[y] \in {"arm", "check", "wait"})
            /\ UNCHANGED <<now, dl, tok, avail, die, serr, timer, tat, c, res, rat, rdl, arrivals, sets, dlat>>

(* RESET_TIMER *)
Arm(x) ==
  /\ pc[x] = "arm"
  /\ IF dl # 0
       THEN IF ~timer[x]
              THEN timer' = [timer EXCEPT ![x] = TRUE] /\ tat' = [tat EXCEPT ![x] = dl] /\ c' = [c EXCEPT ![x] = TRUE]
              ELSE /\ timer' = timer /\ tat' = [tat EXCEPT ![x] = dl]                          \* timeout.Reset(...)
                   /\ c' = IF Variant = "pinned" THEN c ELSE [c EXCEPT ![x] = TRUE]             \* D1: c stays nil after a clear
       ELSE IF timer[x]
              THEN timer' = timer /\ tat' = [tat EXCEPT ![x] = -1] /\ c' = [c EXCEPT ![x] = FALSE]   \* Stop; c = nil
              ELSE UNCHANGED <<timer, tat, c>>
  /\ pc' = [pc EXCEPT ![x] = "check"]
  /\ UNCHANGED <<now, dl, tok, avail, die, serr, res, rat, rdl, arrivals, sets, dlat, multi>>

(* the locked check: take one unit if there is one (WriteBuffers: unless the session is closed or its socket failed) *)
Check(x) ==
  /\ pc[x] = "check" /\ (Side = "read" \/ ~(serr \/ die))
  /\ IF avail > 0
       THEN /\ avail' = avail - 1
            /\ res' = [res EXCEPT ![x] = "ok"] /\ rat' = [rat EXCEPT ![x] = now] /\ pc' = [pc EXCEPT ![x] = "done"] /\ rdl' = [rdl EXCEPT ![x] = dl]
            /\ tok' = IF Variant # "pinned" /\ avail - 1 > 0 THEN 1 ELSE tok                     \* baton: more is left for the next caller
       ELSE pc' = [pc EXCEPT ![x] = "wait"] /\ UNCHANGED <<avail, res, rat, rdl, tok>>
  /\ UNCHANGED <<now, dl, die, serr, timer, tat, c, arrivals, sets, dlat, multi>>

(* rdl (below): the deadline in force when the call returned, or -1 when it was changed at this very instant (a change that *)
(* races with the expiry of the previous deadline may legitimately lose)                                            *)
Finish(x, r) == /\ res' = [res EXCEPT ![x] = r] /\ rat' = [rat EXCEPT ![x] = now] /\ pc' = [pc EXCEPT ![x] = "done"]
                /\ rdl' = [rdl EXCEPT ![x] = IF dlat = now /\ sets > 0 THEN -1 ELSE dl]

(* select: a woken caller with a timer stops it and goes back to RESET_TIMER; without one the pinned code just loops *)
WakeToken(x) ==
  /\ pc[x] = "wait" /\ tok = 1 /\ tok' = 0
  /\ IF timer[x]
       THEN pc' = [pc EXCEPT ![x] = "arm"] /\ tat' = [tat EXCEPT ![x] = -1]
       ELSE pc' = [pc EXCEPT ![x] = IF Variant = "pinned" THEN "check" ELSE "arm"] /\ tat' = tat    \* D7
  /\ UNCHANGED <<now, dl, avail, die, serr, timer, c, res, rat, rdl, arrivals, sets, dlat, multi>>
WakeTimeout(x) ==
  /\ pc[x] = "wait" /\ c[x] /\ tat[x] # -1 /\ now >= tat[x]
  /\ Finish(x, "timeout")
  /\ UNCHANGED <<now, dl, tok, avail, die, serr, timer, tat, c, arrivals, sets, dlat, multi>>
WakeErr(x) == /\ pc[x] = "wait" /\ serr /\ Finish(x, "error")
              /\ UNCHANGED <<now, dl, tok, avail, die, serr, timer, tat, c, arrivals, sets, dlat, multi>>
WakeDie(x) == /\ pc[x] = "wait" /\ die /\ Finish(x, "closed")
              /\ UNCHANGED <<now, dl, tok, avail, die, serr, timer, tat, c, arrivals, sets, dlat, multi>>

(* WriteBuffers, top of the round: select { case <-chSocketWriteError: ...; case <-die: ...; default: } *)
CheckFailed(x) == /\ pc[x] = "check" /\ Side = "write"
                  /\ \/ serr /\ Finish(x, "error")
                     \/ die /\ Finish(x, "closed")
                  /\ UNCHANGED <<now, dl, tok, avail, die, serr, timer, tat, c, arrivals, sets, dlat, multi>>

CallerStep(x) == Arm(x) \/ Check(x) \/ CheckFailed(x) \/ WakeToken(x) \/ WakeTimeout(x) \/ WakeErr(x) \/ WakeDie(x)

(* ----------------------------- environment ----------------------------- *)
Arrive == /\ arrivals < MaxArrivals /\ arrivals' = arrivals + 1 /\ avail' = avail + 1 /\ tok' = 1
          /\ UNCHANGED <<now, dl, die, serr, pc, timer, tat, c, res, rat, rdl, sets, dlat, multi>>
SetDeadline(v) == /\ sets < MaxSets /\ sets' = sets + 1 /\ (v = 0 \/ v >= now - 1)
                  /\ dl' = v /\ tok' = 1 /\ dlat' = now
                  /\ multi' = multi
                  /\ UNCHANGED <<now, avail, die, serr, pc, timer, tat, c, res, rat, rdl, arrivals>>
Close == /\ ~die /\ die' = TRUE
         /\ UNCHANGED <<now, dl, tok, avail, serr, pc, timer, tat, c, res, rat, rdl, arrivals, sets, dlat, multi>>
SockErr == /\ ~serr /\ serr' = TRUE
           /\ UNCHANGED <<now, dl, tok, avail, die, pc, timer, tat, c, res, rat, rdl, arrivals, sets, dlat, multi>>

Quiescent == \A x \in Callers : ~ENABLED CallerStep(x)
Tick == /\ Quiescent /\ now < MaxTime /\ now' = now + 1
        /\ UNCHANGED <<dl, tok, avail, die, serr, pc, timer, tat, c, res, rat, rdl, arrivals, sets, dlat, multi>>

Next == \/ \E x \in Callers : Start(x) \/ CallerStep(x)
        \/ Arrive \/ (\E v \in Deadlines : SetDeadline(v)) \/ Close \/ SockErr \/ Tick
Spec == Init /\ [][Next]_vars

(* ------------------------------ properties ------------------------------ *)
Waiting(x) == pc[x] = "wait"
(* never a timeout error before the deadline in force, and none at all when no deadline is set *)
(* The one-slot token wakes ONE caller when a deadline changes; with two or more callers inside the call on the same   *)
(* side the token may go to the wrong one and the others keep the timer of the old deadline (known finding            *)
(* C13/DeadlineChange_ConcurrentCallers): the two deadline properties are stated for histories in which callers do not  *)
(* overlap, the Strict forms for all histories.                                                                        *)
NoEarlyTimeoutStrict == \A x \in Callers : res[x] = "timeout" => rdl[x] = -1 \/ (rdl[x] # 0 /\ rat[x] >= rdl[x])
NoEarlyTimeout == ~multi => NoEarlyTimeoutStrict
(* a blocked caller is armed for the deadline in force: it will return at the deadline, not later, not never *)
ArmedForDeadlineStrict == Quiescent => \A x \in Callers : Waiting(x) /\ dl # 0 => c[x] /\ tat[x] = dl /\ dl > now
ArmedForDeadline == ~multi => ArmedForDeadlineStrict
(* nothing that a blocked caller waits for is left unclaimed *)
NothingStranded == Quiescent => ~(avail > 0 /\ \E x \in Callers : Waiting(x))
CloseWakesAll == Quiescent /\ die => \A x \in Callers : ~Waiting(x)
ErrorWakesAll == Quiescent /\ serr => \A x \in Callers : ~Waiting(x)
(* observable form used on traces of the real code: what each finished call returned, and when *)
=============================================================================
