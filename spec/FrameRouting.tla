---------------------------- MODULE FrameRouting ----------------------------
(* The input side of the framing pipeline (see Frame.tla): routing decisions of UDPSession.packetInput/kcpInput and   *)
(* Listener.packetInput as functions from an abstract packet class to an effect class. No state.                      *)
EXTENDS Integers, FiniteSets, TLC
CONSTANT CK          \* "nil", "crc", "aead"

(***************************************************************************)
(* Input side: routing decisions                                            *)
(***************************************************************************)
(* an abstract incoming datagram *)
Lens     == {"too-short-for-integrity", "too-short-for-any-frame", "fec-header-cut", "kcp-header-cut", "ok"}
Flags    == {"data", "parity", "oob", "kcp"}
PktClasses == [len : Lens, integrity : {"ok", "bad"}, flag : Flags, conv : {"match", "other"}, sn0 : BOOLEAN]

(* UDPSession.packetInput + kcpInput: effect on a session that receives the datagram *)
SessionEffect(p, hasHandler) ==
  IF CK # "nil" /\ p.len = "too-short-for-integrity" THEN "drop-silent"
  ELSE IF CK # "nil" /\ p.integrity = "bad" THEN "csum-error"
  ELSE IF p.len \in {"too-short-for-integrity", "too-short-for-any-frame"} THEN "kcp-in-error"
  ELSE CASE p.flag \in {"data", "parity"} ->
              IF p.len = "fec-header-cut" THEN "in-errs"
              ELSE IF p.flag = "data" THEN "to-kcp-and-fec" ELSE "to-fec"
         \* an out-of-band message of another conversation between the same two addresses is not delivered
         \* (fix 'out-of-band message of another conversation reaches the handler of a dialled session')
         [] p.flag = "oob" -> IF hasHandler /\ p.conv = "match" THEN "oob-callback" ELSE "oob-counted"
         [] OTHER -> "to-kcp"

(* Listener.packetInput: exists = a session is registered for the source address, full = accept backlog full *)
ListenerEffect(p, exists, full) ==
  IF CK # "nil" /\ p.len = "too-short-for-integrity" THEN "drop-silent"
  ELSE IF CK # "nil" /\ p.integrity = "bad" THEN "csum-error"
  ELSE IF p.len \in {"too-short-for-integrity", "too-short-for-any-frame"} THEN "drop-silent"
  ELSE
  LET hasConv == CASE p.flag = "data"   -> p.len # "kcp-header-cut" /\ p.len # "fec-header-cut"
                   [] p.flag = "parity" -> FALSE
                   [] p.flag = "oob"    -> TRUE
                   [] OTHER             -> p.len # "kcp-header-cut"
      sn0 == IF p.flag = "oob" THEN TRUE ELSE p.sn0                  \* sn stays 0 when the frame carries none
  IN IF p.flag = "kcp" /\ p.len = "kcp-header-cut" THEN "drop-silent"
     ELSE IF exists
       THEN IF ~hasConv \/ p.conv = "match" THEN "to-session"
            ELSE IF ~sn0 THEN "ignore-foreign-conv"
            ELSE IF full THEN "reset-then-backlog-drop" ELSE "reset-and-new-session"
       ELSE IF ~hasConv THEN "drop-no-conv"
            ELSE IF full THEN "backlog-drop" ELSE "new-session"

(* ---- input-side properties (checked for every class by the ASSUME-style invariants of FrameMC) ---- *)
IntegrityGuards ==                                                                                          \* C06
  \A p \in PktClasses, e \in BOOLEAN, f \in BOOLEAN, h \in BOOLEAN :
     CK # "nil" /\ (p.integrity = "bad" \/ p.len = "too-short-for-integrity") =>
        /\ ListenerEffect(p, e, f) \in {"drop-silent", "csum-error"}
        /\ SessionEffect(p, h) \in {"drop-silent", "csum-error"}
OOBNeverEntersFecOrKcp ==                                                                                   \* C19
  \A p \in PktClasses, h \in BOOLEAN : p.flag = "oob" => SessionEffect(p, h) \notin {"to-kcp", "to-kcp-and-fec", "to-fec"}
OOBOnlyOwnConversation ==                                                                                   \* C19
  \A p \in PktClasses, h \in BOOLEAN : SessionEffect(p, h) = "oob-callback" => p.flag = "oob" /\ p.conv = "match" /\ h
SessionOnlyForNewConversation ==                                                                            \* C11
  \A p \in PktClasses, e \in BOOLEAN, f \in BOOLEAN :
     ListenerEffect(p, e, f) \in {"new-session", "reset-and-new-session"} =>
        /\ ~f /\ p.flag # "parity"
        /\ e => (p.conv = "other" /\ (p.sn0 \/ p.flag = "oob"))
ForeignConvNeverMerged ==                                                                                   \* C11
  \A p \in PktClasses, f \in BOOLEAN :
     \* (a frame cut before the conversation id carries none; like parity it is handed to the address' session, whose core rejects it)
     p.conv = "other" /\ p.flag # "parity" /\ p.len = "ok" => ListenerEffect(p, TRUE, f) # "to-session"
=============================================================================
