SPECIFICATION TraceSpec
CONSTANT Mod = 0
INVARIANTS StateConforms RetConforms OutConforms SnmpConforms
CHECK_DEADLOCK FALSE
