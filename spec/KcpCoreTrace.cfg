SPECIFICATION TraceSpec
CONSTANT Mod = 0
INVARIANTS StateConforms RetConforms OutConforms
CHECK_DEADLOCK FALSE
