----------------------------- MODULE Lifecycle -----------------------------
(***************************************************************************)
(* C15, lifecycle half: which goroutines and scheduled callbacks the        *)
(* library starts for sessions and listeners, and what makes each of them   *)
(* end.  One listener on a transport, one dialled client on its own         *)
(* transport, the listener's sessions: accepted ones (owned by the          *)
(* application) and ones still waiting in the accept backlog.               *)
(*   per session:  postProcess goroutine (ends when die is closed and the   *)
(*                 post-processing queue is empty), the update callback     *)
(*                 (re-queues itself unless die is closed), client only:    *)
(*                 readLoop (ends on a socket error or, after a datagram,   *)
(*                 when die is closed)                                      *)
(*   per listener: monitor goroutine (ends on a socket read error only)     *)
(* Close of a session closes die; a client that owns its transport closes   *)
(* it too (NewConn3/ServeConn sessions do not: the application closes it).  *)
(***************************************************************************)
EXTENDS Integers, FiniteSets, TLC

CONSTANTS Sessions,      \* e.g. {"cli", "acc", "bkl"}: dialled, accepted, still in the accept backlog
          MaxTraffic,    \* datagrams that may still arrive
          OwnC,          \* the dialled session owns its transport (DialWithOptions / NewConn4(ownConn)): its Close closes it
          OwnL           \* the listener owns its transport (ListenWithOptions): Listener.Close closes it

VARIABLES die,           \* die[s]: Close has been called on s (or, known finding, never can be: backlog session)
          ppq,           \* ppq[s]: packets waiting in s's post-processing queue
          ppRunning,     \* postProcess goroutine of s alive
          updPending,    \* an update callback of s is queued in the scheduler
          readLoop,      \* client's readLoop alive
          monitor,       \* listener's monitor goroutine alive
          ldie,          \* Listener.Close called
          tconn,         \* tconn[x]: transport x ("l", "c") closed
          handed,        \* handed[s]: the application holds s (dialled or returned by Accept)
          traffic,
          armed          \* armed[s]: postProcess' local chDie is s.die (it is set to nil while a backlog is drained after die was seen,
                         \* and re-armed at the bottom of the branch that handles a packet)
lvars == <<die, ppq, ppRunning, updPending, readLoop, monitor, ldie, tconn, handed, traffic, armed>>

LInit == /\ die = [s \in Sessions |-> FALSE] /\ ppq = [s \in Sessions |-> 0]
         /\ ppRunning = [s \in Sessions |-> TRUE] /\ updPending = [s \in Sessions |-> TRUE]
         /\ readLoop = TRUE /\ monitor = TRUE /\ ldie = FALSE /\ tconn = [x \in {"l", "c"} |-> FALSE]
         /\ handed = [s \in Sessions |-> s # "bkl"] /\ traffic = 0 /\ armed = [s \in Sessions |-> TRUE]

(* the application closes a session it holds *)
CloseSession(s) == /\ handed[s] /\ ~die[s] /\ die' = [die EXCEPT ![s] = TRUE]
                   /\ \E k \in 0..2 : ppq' = [ppq EXCEPT ![s] = @ + k]   \* Close flushes once more (after die is closed: 0..n packets get queued)
                   /\ tconn' = IF s = "cli" /\ OwnC THEN [tconn EXCEPT !["c"] = TRUE] ELSE tconn
                   /\ UNCHANGED <<ppRunning, updPending, readLoop, monitor, ldie, handed, traffic, armed>>
CloseListener == /\ ~ldie /\ ldie' = TRUE
                 /\ tconn' = IF OwnL THEN [tconn EXCEPT !["l"] = TRUE] ELSE tconn
                 /\ UNCHANGED <<die, ppq, ppRunning, updPending, readLoop, monitor, handed, traffic, armed>>
CloseTransport(x) == /\ ~tconn[x] /\ tconn' = [tconn EXCEPT ![x] = TRUE]
                     /\ UNCHANGED <<die, ppq, ppRunning, updPending, readLoop, monitor, ldie, handed, traffic, armed>>

(* library steps *)
Update(s) == /\ updPending[s]
             /\ IF die[s] THEN updPending' = [updPending EXCEPT ![s] = FALSE] /\ ppq' = ppq      \* not re-queued after die
                ELSE updPending' = updPending /\ ppq' = [ppq EXCEPT ![s] = IF @ < 2 THEN @ + 1 ELSE @]
             /\ UNCHANGED <<die, ppRunning, readLoop, monitor, ldie, tconn, handed, traffic, armed>>
(* postProcess: select { case req := <-chPostProcessing: ...; chDie = s.die   case <-chDie: if backlog { chDie = nil } else return } *)
PostProcess(s) == /\ ppRunning[s]
                  /\ \/ /\ ppq[s] > 0 /\ ppq' = [ppq EXCEPT ![s] = @ - 1] /\ armed' = [armed EXCEPT ![s] = TRUE]      \* a packet: handled, chDie re-armed
                        /\ ppRunning' = ppRunning
                     \/ /\ armed[s] /\ die[s]                                                                          \* die seen
                        /\ IF ppq[s] > 0 THEN armed' = [armed EXCEPT ![s] = FALSE] /\ ppRunning' = ppRunning            \* drain the backlog first
                           ELSE ppRunning' = [ppRunning EXCEPT ![s] = FALSE] /\ armed' = armed
                        /\ ppq' = ppq
                  /\ UNCHANGED <<die, updPending, readLoop, monitor, ldie, tconn, handed, traffic>>
ReadLoopStep == /\ readLoop
                /\ \/ tconn["c"] /\ readLoop' = FALSE /\ traffic' = traffic                      \* ReadFrom fails
                   \/ ~tconn["c"] /\ traffic < MaxTraffic /\ traffic' = traffic + 1
                      /\ readLoop' = ~die["cli"]                                                  \* isClosed() after a datagram
                /\ UNCHANGED <<die, ppq, ppRunning, updPending, monitor, ldie, tconn, handed, armed>>
MonitorStep == /\ monitor
               /\ \/ tconn["l"] /\ monitor' = FALSE /\ traffic' = traffic
                  \/ ~tconn["l"] /\ traffic < MaxTraffic /\ traffic' = traffic + 1 /\ monitor' = TRUE   \* Listener.Close alone does not stop it
               /\ UNCHANGED <<die, ppq, ppRunning, updPending, readLoop, ldie, tconn, handed, armed>>

LNext == \/ \E s \in Sessions : CloseSession(s) \/ Update(s) \/ PostProcess(s)
         \/ CloseListener \/ \E x \in {"l", "c"} : CloseTransport(x)
         \/ ReadLoopStep \/ MonitorStep
Fair == /\ \A s \in Sessions : WF_lvars(Update(s)) /\ WF_lvars(PostProcess(s))
        /\ WF_lvars(ReadLoopStep) /\ WF_lvars(MonitorStep)
LSpec == LInit /\ [][LNext]_lvars /\ Fair

AllClosed == /\ \A s \in Sessions : handed[s] => die[s]
             /\ ldie /\ tconn["l"] /\ tconn["c"]
(* once everything the application can close has been closed, every goroutine / callback of sessions it held ends *)
ReleasedHeld == AllClosed ~> (/\ \A s \in Sessions : handed[s] => ~ppRunning[s] /\ ~updPending[s]
                              /\ ~readLoop /\ ~monitor)
(* strict form, violated by the pinned code (known finding C15/NoLeak_BacklogSession): also sessions never handed out *)
ReleasedAll == AllClosed ~> (\A s \in Sessions : ~ppRunning[s] /\ ~updPending[s])
=============================================================================
