\* behaviour generation with the code's real constants (they are compile-time constants of ringbuffer.go):
\* rings of 2 and 3 slots at every head offset (reachable only through the verif constructor) grow
\* "<Min -> Min" to 8 slots and then double to 16.
SPECIFICATION Spec
CONSTANTS
  MinCap = 8
  ExpCap = 1024
  MaxSlots = 8
  MaxPush = 4
  Mut = 100
  InitLayouts <- LayoutsSmall
INVARIANTS TypeOK Refines LenRefines RetRefines DeadSlotsZero ObserversOK
ACTION_CONSTRAINT EdgeOut
CHECK_DEADLOCK FALSE
