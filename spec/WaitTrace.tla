------------------------------ MODULE WaitTrace ------------------------------
(***************************************************************************)
(* Trace validation (code -> model) for the blocking calls (C13): a recorded *)
(* script (environment events in order, with the results and virtual return  *)
(* times of the calls as observed on real sessions) is accepted iff some      *)
(* behaviour of SessionWait.tla ("fixed" variant = the tree as it is) takes   *)
(* exactly those environment steps and makes every call return what and when  *)
(* it was observed to.  Caller-internal steps are silent; which of several    *)
(* blocked callers takes the token is left to TLC.                            *)
(***************************************************************************)
EXTENDS SessionWait, Sequences, Json
Trace == ndJsonDeserialize("trace.ndjson")
VARIABLE l
tvars == <<vars, l>>

TraceInit == Init /\ l = 1 /\ TLCSet(1, 1)
Reset == /\ now' = 0 /\ dl' = 0 /\ tok' = 0 /\ avail' = 0 /\ die' = FALSE /\ serr' = FALSE
         /\ pc' = [x \in Callers |-> "idle"] /\ timer' = [x \in Callers |-> FALSE] /\ tat' = [x \in Callers |-> -1]
         /\ c' = [x \in Callers |-> FALSE] /\ res' = [x \in Callers |-> "none"] /\ rat' = [x \in Callers |-> -1]
         /\ rdl' = [x \in Callers |-> 0] /\ arrivals' = 0 /\ sets' = 0 /\ dlat' = 0 /\ multi' = FALSE

Consume ==
  /\ l <= Len(Trace) /\ l' = l + 1
  /\ LET t == Trace[l] IN
     CASE t.ev = "reset"   -> Reset
       [] t.ev = "start"   -> Start(t.x)
       [] t.ev = "arrive"  -> Arrive
       [] t.ev = "setdl"   -> SetDeadline(t.v)
       [] t.ev = "close"   -> Close
       [] t.ev = "sockerr" -> SockErr
       [] t.ev = "tick"    -> Tick
       [] t.ev = "ret"     -> pc[t.x] = "done" /\ res[t.x] = t.res /\ rat[t.x] = t.t /\ UNCHANGED vars
       [] t.ev = "blocked" -> pc[t.x] = "wait" /\ Quiescent /\ UNCHANGED vars
       [] OTHER            -> UNCHANGED vars
  /\ TLCSet(1, IF TLCGet(1) > l + 1 THEN TLCGet(1) ELSE l + 1)     \* high-water mark of consumed lines
Silent == \E x \in Callers : CallerStep(x) /\ l' = l
TraceNext == Consume \/ Silent
TraceSpec == TraceInit /\ [][TraceNext]_tvars
Accepted == TLCGet(1) = Len(Trace) + 1 \/ ~PrintT(<<"REJECTED-AT", TLCGet(1)>>)
=============================================================================
