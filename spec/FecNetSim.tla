------------------------------ MODULE FecNetSim ------------------------------
(* behaviour generation for the replay into the code (see KcpNetSim) *)
EXTENDS FecNetMC
CONSTANT SimDepth
VARIABLE hist
svars == <<vars, hist>>
SimInit == Init /\ hist = <<>>
Ended == hist # <<>> /\ hist[Len(hist)].a.name = "End"
Stuck == air = <<>> /\ enc.gid >= MaxGroups
SimNext == \/ /\ ~Ended /\ Len(hist) < SimDepth /\ Next
              /\ hist' = Append(hist, [a |-> act', s |-> [dec |-> ProjDec(dec'), out |-> last'.out, next |-> enc'.next]])
           \/ /\ ~Ended /\ (Len(hist) = SimDepth \/ Stuck)
              /\ hist' = Append(hist, [a |-> [name |-> "End", a |-> 0, b |-> 0], s |-> [next |-> enc.next]])
              /\ UNCHANGED vars
SimSpec == SimInit /\ [][SimNext]_svars
EmitBeh == Ended =>
   PrintT(<<"BEH", ToJson([ed |-> Ed, ep |-> Ep, dd |-> Dd, dp |-> Dp, start |-> Start, steps |-> SubSeq(hist, 1, Len(hist) - 1)])>>)
=============================================================================
