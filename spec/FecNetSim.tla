------------------------------ MODULE FecNetSim ------------------------------
(* behaviour generation for the replay into the code (see KcpNetSim) *)
EXTENDS FecNetMC
CONSTANT SimDepth
VARIABLE hist
svars == <<vars, hist>>
SimInit == Init /\ hist = <<>>
SimNext == \/ /\ Len(hist) < SimDepth /\ Next
              /\ hist' = Append(hist, [a |-> act', s |-> [dec |-> ProjDec(dec'), out |-> last'.out, next |-> enc'.next]])
           \/ /\ Len(hist) = SimDepth
              /\ hist' = Append(hist, [a |-> [name |-> "End", a |-> 0, b |-> 0], s |-> [next |-> enc.next]])
              /\ UNCHANGED vars
SimSpec == SimInit /\ [][SimNext]_svars
EmitBeh == Len(hist) = SimDepth + 1 =>
   PrintT(<<"BEH", ToJson([ed |-> Ed, ep |-> Ep, dd |-> Dd, dp |-> Dp, start |-> Start, steps |-> SubSeq(hist, 1, SimDepth)])>>)
=============================================================================
