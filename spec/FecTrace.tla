------------------------------ MODULE FecTrace ------------------------------
(***************************************************************************)
(* Conformance (code -> model) for fec.go: every recorded Encode / Decode    *)
(* is taken as EncodeOp / DecodeOp of Fec.tla (W = 0: the harness reports     *)
(* sequence ids relative to the start of the run, and runs that cross the     *)
(* real wrap value are validated by the FecObs monitors only) and the logged  *)
(* emitted packets, reconstructed packets and decoder state must equal the    *)
(* specification's.  RingN is the real 258.                                   *)
(***************************************************************************)
EXTENDS Fec, Json
Trace == ndJsonDeserialize("trace.ndjson")
VARIABLES l, enc, dec, out, em, wraps
tvars == <<l, enc, dec, out, em, wraps>>

TraceInit == l = 1 /\ enc = NewEncoder(1, 1, 0) /\ dec = NewDecoder(1, 1, 0) /\ out = <<>> /\ em = <<>> /\ wraps = FALSE

TraceNext ==
  /\ l <= Len(Trace) /\ l' = l + 1
  /\ LET t == Trace[l] IN
     IF t.ev = "reset"
       THEN /\ enc' = NewEncoder(t.ed, t.ep, t.start) /\ dec' = NewDecoder(t.dd, t.dp, t.start \div (t.dd + t.dp))
            /\ out' = <<>> /\ em' = <<>>
            /\ wraps' = t.nearwrap            \* runs positioned just below the real wrap value are judged by FecObs only
       ELSE IF t.ev # "op" THEN UNCHANGED <<enc, dec, wraps>> /\ out' = <<>> /\ em' = <<>>
       ELSE IF t.name = "Encode"
         THEN LET r == EncodeOp(enc, t.size, t.contiguous) IN
              /\ enc' = r.e /\ em' = r.out /\ out' = <<>> /\ UNCHANGED <<dec, wraps>>
         ELSE LET p == [seq |-> t.pkt.seq, flag |-> t.pkt.flag, gid |-> t.pkt.gid, idx |-> t.pkt.idx, size |-> t.pkt.size,
                        ed |-> t.pkt.ed, ep |-> t.pkt.ep]
                  r == DecodeOp(dec, p)
              IN /\ dec' = r.dec /\ out' = r.out /\ em' = <<>> /\ UNCHANGED <<enc, wraps>>
TraceSpec == TraceInit /\ [][TraceNext]_tvars

Obs == Trace[l - 1]
IsOp == l > 1 /\ Obs.ev = "op" /\ ~Obs.panic /\ ~wraps
EmittedConforms == IsOp /\ Obs.name = "Encode" =>
   Obs.emitted = [i \in 1..Len(em) |-> [seq |-> em[i].seq, flag |-> em[i].flag, gid |-> em[i].gid, idx |-> em[i].idx, size |-> em[i].size]]
DecoderConforms == IsOp /\ Obs.name = "Decode" =>
   (Obs.dec = ProjDec(dec) \/ ~PrintT(<<"DIFF", l - 1, "spec", ProjDec(dec), "code", Obs.dec>>))
(* while the decoder runs a ratio other than the sender's, what a reconstruction yields depends on Reed-Solomon arithmetic *)
(* that the model abstracts away (it is garbage except in degenerate one-data-shard cases): only the count is compared     *)
OutputConforms  == IsOp /\ Obs.name = "Decode" =>
                     IF Obs.dec.d = Obs.pkt.ed /\ Obs.dec.p = Obs.pkt.ep THEN Obs.out = out ELSE Len(Obs.out) = Len(out)
=============================================================================
