------------------------------ MODULE RaceProgs ------------------------------
(***************************************************************************)
(* C14: the space of concurrent programs over the supported public methods  *)
(* of UDPSession and Listener.  A program is a multiset of 2 (all of them)   *)
(* or 3 (sampled by simulation) methods, each run by its own goroutine on    *)
(* one session -- the dialled one or the one accepted by the listener (their  *)
(* input paths differ) -- while traffic flows on that session and on a        *)
(* neighbour session of the same listener, under one cipher/FEC class.  TLC   *)
(* enumerates the programs (every state is one program, printed as JSON);     *)
(* the harness executes each under the Go race detector, whose reports are    *)
(* the verdict.  Deprecated methods (SetDUP, SetStreamMode, KCP.Update/Check)  *)
(* are excluded as the property says.                                         *)
(***************************************************************************)
EXTENDS Integers, Sequences, FiniteSets, TLC, Json

CONSTANT AllCombos    \* TRUE: every pair under every configuration and target (thorough); FALSE: one rotating combination per pair

Methods == <<"Read", "Write", "WriteBuffers", "SetDeadline", "SetReadDeadline", "SetWriteDeadline", "SetWriteDelay", "SetWindowSize",
             "SetMtu", "SetACKNoDelay", "SetNoDelay", "SetRateLimit", "SetLogger", "GetConv", "GetRTO", "Addrs", "SetOOBHandler",
             "GetOOBMaxSize", "SendOOB", "Control", "SnmpCopy", "ListenerSetDeadline", "ListenerAccept", "Close">>
Configs == <<"nil/0/0", "aes/2/1", "sm4/0/0", "gcm/3/2", "salsa20/10/3">>
Targets == <<"dialled", "accepted">>
N == Len(Methods)

(* the out-of-band methods do nothing without FEC: a program that contains one of them rotates over the FEC-enabled classes only *)
OOBMethods == {i \in 1..N : Methods[i] \in {"SetOOBHandler", "GetOOBMaxSize", "SendOOB"}}
FecConfigs == <<2, 4, 5>>
Rotating(i, j) == IF i \in OOBMethods \/ j \in OOBMethods THEN FecConfigs[((i * N + j) % Len(FecConfigs)) + 1]
                  ELSE ((i * N + j) % Len(Configs)) + 1

VARIABLE prog      \* [ms: sequence of method indices (non-decreasing), cfg: index, tgt: index]
Init == /\ prog \in {[ms |-> <<i, j>>, cfg |-> c, tgt |-> t] : i \in 1..N, j \in 1..N, c \in 1..Len(Configs), t \in 1..Len(Targets)}
        /\ prog.ms[1] <= prog.ms[2]
        /\ AllCombos \/ (/\ prog.cfg = Rotating(prog.ms[1], prog.ms[2])
                         /\ prog.tgt = ((prog.ms[1] + prog.ms[2]) % Len(Targets)) + 1)
(* a pair may be extended by a third method *)
Next == /\ Len(prog.ms) = 2 /\ \E k \in 1..N : k >= prog.ms[2] /\ prog' = [prog EXCEPT !.ms = Append(@, k)]
Spec == Init /\ [][Next]_prog
Emit == PrintT(<<"PROG", ToJson([ms |-> [i \in 1..Len(prog.ms) |-> Methods[prog.ms[i]]], cfg |-> Configs[prog.cfg], tgt |-> Targets[prog.tgt]])>>)
(* every pair of supported methods is a program *)
EmitTriples == Len(prog.ms) = 3 => Emit
PairsOnly == Len(prog.ms) <= 1
=============================================================================
