----------------------------- MODULE ListenerMC -----------------------------
EXTENDS Listener
ClassesA == { [len |-> "ok", integrity |-> "ok", flag |-> f, sn0 |-> s] : f \in {"data", "parity", "oob", "kcp"}, s \in BOOLEAN }
            \cup { [len |-> "kcp-header-cut", integrity |-> "ok", flag |-> "data", sn0 |-> TRUE],
                   [len |-> "ok", integrity |-> "bad", flag |-> "data", sn0 |-> TRUE],
                   [len |-> "too-short-for-any-frame", integrity |-> "ok", flag |-> "kcp", sn0 |-> TRUE] }
=============================================================================
