------------------------------ MODULE KcpNetMC ------------------------------
(* Model-checking / behaviour-generation instances of KcpNet.tla. *)
EXTENDS KcpNet, Json

CfgStream == [mtu |-> 56, sndwnd |-> 2, rcvwnd |-> 2, nodelay |-> 0, interval |-> 100, resend |-> 0, nc |-> 0, stream |-> 1, acknodelay |-> 0]
CfgMsg    == [CfgStream EXCEPT !.stream = 0]
CfgFast   == [mtu |-> 56, sndwnd |-> 3, rcvwnd |-> 3, nodelay |-> 1, interval |-> 10, resend |-> 2, nc |-> 1, stream |-> 1, acknodelay |-> 1]
CfgFastCC == [CfgFast EXCEPT !.nc = 0]
NoForged  == {}
SnOff00   == <<0, 0>>

EdgeOut ==
  PrintT(<<"EDGE", ToJson([from |-> [s |-> Proj, a |-> act, h |-> <<faults, rd, wr, latch, phase>>],
                           to   |-> [s |-> Proj', a |-> act', h |-> <<faults', rd', wr', latch', phase'>>]])>>)

(* simulation: print the behaviour (action + projected post-state per step) when it reaches depth SimDepth *)
=============================================================================
