------------------------------ MODULE KcpNetMC ------------------------------
(* Model-checking / behaviour-generation instances of KcpNet.tla. *)
EXTENDS KcpNet, Json

CfgStream == [mtu |-> 56, sndwnd |-> 2, rcvwnd |-> 2, nodelay |-> 0, interval |-> 100, resend |-> 0, nc |-> 0, stream |-> 1, acknodelay |-> 0]
CfgMsg    == [CfgStream EXCEPT !.stream = 0]
CfgFast   == [mtu |-> 56, sndwnd |-> 3, rcvwnd |-> 3, nodelay |-> 1, interval |-> 10, resend |-> 2, nc |-> 1, stream |-> 1, acknodelay |-> 1]
CfgFastCC == [CfgFast EXCEPT !.nc = 0]
CfgWnd1   == [CfgStream EXCEPT !.sndwnd = 4, !.rcvwnd = 1]
CfgClean  == [mtu |-> 56, sndwnd |-> 3, rcvwnd |-> 32, nodelay |-> 0, interval |-> 40, resend |-> 2, nc |-> 0, stream |-> 1, acknodelay |-> 0]
CfgWide   == [mtu |-> 80, sndwnd |-> 5, rcvwnd |-> 5, nodelay |-> 1, interval |-> 10, resend |-> 1, nc |-> 0, stream |-> 1, acknodelay |-> 0]
NoForged  == {}

(* forged one-segment datagrams: fields relative to the receiver's state (see KcpNet!Forge) *)
FSeg(cmd, dsn, duna, wnd, dts, len, bad) ==
  [cmd |-> cmd, frg |-> 0, wnd |-> wnd, dts |-> dts, dsn |-> dsn, duna |-> duna, len |-> len, bad |-> bad]
ForgedSmall ==
  { FSeg(CMD_PUSH, d, 0, 2, 0, 8, 0) : d \in {-1, 0, 1, 2} } \cup
  { FSeg(CMD_ACK, 0, u, w, 0, 0, 0) : u \in {0, 1, 5}, w \in {0, 65535} } \cup
  { FSeg(CMD_WASK, 0, 0, 1, 0, 0, 0), FSeg(CMD_PUSH, 0, 0, 2, 0, 8, 1) }
ForgedAll ==
  { FSeg(CMD_PUSH, d, u, w, 0, l, 0) : d \in {-2, -1, 0, 1, 2, 3, 1000000}, u \in {0, 2, 1000000}, w \in {0, 1, 65535}, l \in {0, 8, 32} } \cup
  { FSeg(CMD_ACK, d, u, w, t, 0, 0) : d \in {-1, 0, 1, 2, 1000000}, u \in {-1, 0, 1, 2, 1000000}, w \in {0, 2, 65535}, t \in {0, -50, 50} } \cup
  { FSeg(c, 0, 0, w, 0, 0, b) : c \in {CMD_WASK, CMD_WINS, CMD_PUSH}, w \in {0, 3}, b \in {0, 1, 2, 3} }
ForgedAcks ==
  { FSeg(CMD_ACK, d, 0, 32, t, 0, 0) : d \in {0, 1}, t \in {0, -1, -99, -100, -101, -59999, -60000, -60001, 1, 100, -134217728, 134217728} }
SnOff00   == <<0, 0>>
SnOffA    == <<Mod - 1, Mod \div 2 - 1>>
SnOffB    == <<Mod \div 2 - 2, Mod - 2>>
SnOffC    == <<Mod - 3, Mod - 1>>
SnOffD    == <<Mod \div 2, Mod \div 2 - 3>>

(* clean path for C18: FIFO, zero delay, nothing lost or duplicated, the reader reads at once; time only passes when *)
(* nothing is deliverable or readable; flushes happen in rounds (Drive = "tick")                                      *)
NoPause == {}
PauseTwo == {2}
CleanNext ==
  \/ \E e \in Ends, n \in WriteSizes : Send(e, n)
  \/ Deliver(1, 0)
  \/ \E e \in Ends : PeekSize(k[e]) >= 0 /\ Recv(e, 100000)
  \/ net = <<>> /\ (\A e \in Ends : PeekSize(k[e]) < 0) /\ \E d \in Ticks : Tick(d)
  \/ \E e \in Ends : Flush(e)
CleanSpec == Init /\ [][CleanNext]_vars

EdgeOut ==
  PrintT(<<"EDGE", ToJson([from |-> [s |-> Proj, a |-> act, h |-> <<faults, rd, wr, latch, reinfl, phase, healed>>],
                           to   |-> [s |-> Proj', a |-> act', h |-> <<faults', rd', wr', latch', reinfl', phase', healed'>>]])>>)

(* simulation: print the behaviour (action + projected post-state per step) when it reaches depth SimDepth *)
=============================================================================
