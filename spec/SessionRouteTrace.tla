-------------------------- MODULE SessionRouteTrace --------------------------
(***************************************************************************)
(* Conformance (code -> model) of the input routing of a session             *)
(* (UDPSession.packetInput / kcpInput) with FrameRouting!SessionEffect, and   *)
(* the monitors that rest on it: every crafted datagram fed to a real dialled *)
(* session comes with the abstract class the harness built it from; the exits  *)
(* reported by the hook "s.in" must be the effect the model computes, and the  *)
(* out-of-band handler must have run exactly when the model says so.           *)
(* One trace holds runs of all three cipher kinds: the kind is read from the   *)
(* reset line, so the routing function is instantiated per line.               *)
(***************************************************************************)
EXTENDS Integers, Sequences, TLC, Json
Trace == ndJsonDeserialize("trace.ndjson")
VARIABLES l, ck, handler
Init == l = 1 /\ ck = "nil" /\ handler = FALSE
Next == /\ l <= Len(Trace) /\ l' = l + 1
        /\ ck' = IF Trace[l].ev = "reset" THEN Trace[l].ck ELSE ck
        /\ handler' = IF Trace[l].ev = "reset" THEN Trace[l].handler ELSE handler
Spec == Init /\ [][Next]_<<l, ck, handler>>
Obs == Trace[l - 1]
IsPkt == l > 1 /\ Obs.ev = "spkt"

R(kind) == INSTANCE FrameRouting WITH CK <- kind
Effect == LET p == [len |-> Obs.len, integrity |-> Obs.integrity, flag |-> Obs.flag, conv |-> Obs.conv, sn0 |-> Obs.sn0]
          IN CASE ck = "nil" -> R("nil")!SessionEffect(p, handler)
               [] ck = "crc" -> R("crc")!SessionEffect(p, handler)
               [] OTHER      -> R("aead")!SessionEffect(p, handler)
ExpectedExits(fx) == CASE fx = "drop-silent" -> <<1>> [] fx = "csum-error" -> <<2>> [] fx = "kcp-in-error" -> <<3>>
                       [] fx = "in-errs" -> <<4>> [] fx = "to-kcp-and-fec" -> <<5>> [] fx = "to-fec" -> <<6>>
                       [] fx = "oob-callback" -> <<8, 7>> [] fx = "oob-counted" -> <<8>> [] fx = "to-kcp" -> <<9>> [] OTHER -> <<0>>

(* the routing of the real session is the routing of the specification, datagram by datagram (exact reason: drift) *)
Drift_SessionExit == IsPkt => Obs.exits = ExpectedExits(Effect)
(* C19: the handler runs exactly for out-of-band messages of this session's own conversation that pass the integrity check *)
C19_HandlerOnlyOwnConversation == IsPkt => (Obs.handled <=> Effect = "oob-callback")
(* C06: a datagram that fails (or cannot carry) the integrity check goes nowhere *)
C06_IntegrityGuard == IsPkt /\ ck # "nil" /\ (Obs.integrity = "bad" \/ Obs.len = "too-short-for-integrity") =>
                         Obs.exits \in {<<1>>, <<2>>} /\ ~Obs.handled /\ Obs.same
(* C19: an out-of-band message never enters FEC or KCP: the session's protocol and decoder state are untouched *)
C19_OOBLeavesStateAlone == IsPkt /\ Obs.flag = "oob" /\ Obs.len = "ok" => Obs.same
=============================================================================
