---------------------------- MODULE ListenerTrace ----------------------------
(***************************************************************************)
(* Conformance (code -> model) and C11 monitors for the listener: every      *)
(* crafted datagram fed to a real Listener (with the class the harness built  *)
(* it from) is taken as Listener!Packet; the exit of Listener.packetInput      *)
(* reported by the hook must be the effect the model computes from ITS table   *)
(* and backlog, and every Accept must return the session at the head of the    *)
(* model's backlog.                                                           *)
(***************************************************************************)
EXTENDS Listener, Json
Trace == ndJsonDeserialize("trace.ndjson")
VARIABLES l, ok, okc, why
tvars == <<lvars2, l, ok, okc, why>>

EffectOfCode(c) == CASE c = 1 -> "drop-silent" [] c = 2 -> "csum-error" [] c = 3 -> "drop-silent" [] c = 4 -> "drop-silent"
                     [] c = 5 -> "to-session" [] c = 6 -> "ignore-foreign-conv" [] c = 7 -> "reset"
                     [] c = 8 -> "drop-no-conv" [] c = 9 -> "backlog-drop" [] c = 10 -> "new-session" [] OTHER -> "?"
(* the code reports a reset (7) followed by 9 (backlog full) or 10 (new session) for one datagram: the harness logs the list *)
Expected(fx) == CASE fx = "reset-and-new-session" -> <<"reset", "new-session">>
                  [] fx = "reset-then-backlog-drop" -> <<"reset", "backlog-drop">>
                  [] OTHER -> <<fx>>

(* what the property cares about: does the datagram reach a session, close one, create one -- or nothing at all *)
Coarse(fx) == CASE fx \in {"to-session", "reset", "new-session"} -> fx [] OTHER -> "none"
CoarseSeq(sq) == SelectSeq([i \in 1..Len(sq) |-> Coarse(sq[i])], LAMBDA x : x # "none")

TraceInit == LInit2 /\ l = 1 /\ ok = TRUE /\ okc = TRUE /\ why = "init"
TraceNext ==
  /\ l <= Len(Trace) /\ l' = l + 1
  /\ LET t == Trace[l] IN
     CASE t.ev = "reset" -> /\ table' = [a \in Addrs |-> 0] /\ sess' = [i \in 1..MaxSess |-> NoSess] /\ accq' = <<>> /\ made' = 0
                            /\ lastfx' = [addr |-> "", effect |-> "none", closed |-> 0] /\ ok' = TRUE /\ okc' = TRUE /\ why' = "reset"
       [] t.ev = "pkt" ->
            LET cl == [len |-> t.len, integrity |-> t.integrity, flag |-> t.flag, sn0 |-> t.sn0] IN
            /\ Packet(t.addr, cl, t.conv)
            /\ ok' = ([i \in 1..Len(t.exits) |-> EffectOfCode(t.exits[i])] = Expected(lastfx'.effect))
            /\ okc' = (CoarseSeq([i \in 1..Len(t.exits) |-> EffectOfCode(t.exits[i])]) = CoarseSeq(Expected(lastfx'.effect)))
            /\ why' = lastfx'.effect
       [] t.ev = "accept" ->
            /\ IF accq = <<>> THEN UNCHANGED lvars2 /\ ok' = ~t.got /\ why' = "accept-empty"
               ELSE Accept /\ ok' = (t.got /\ t.addr = sess[Head(accq)].addr /\ t.conv = sess[Head(accq)].conv) /\ why' = "accept"
            /\ okc' = ok'
       [] t.ev = "appclose" ->
            /\ (\E i \in 1..made : sess[i].accepted /\ sess[i].open /\ sess[i].addr = t.addr /\ sess[i].conv = t.conv /\ AppClose(i))
            /\ ok' = TRUE /\ okc' = TRUE /\ why' = "appclose"
       [] OTHER -> UNCHANGED lvars2 /\ ok' = TRUE /\ okc' = TRUE /\ why' = "other"
TraceSpec == TraceInit /\ [][TraceNext]_tvars

(* the routing of the real listener is the routing of the specification, datagram by datagram: which datagrams reach a   *)
(* session, which close one, which create one (one Accept each, in order) -- the property; the exact drop reason -- drift *)
C11_RoutingConforms == okc
Drift_ExitCode == ok
C11_Isolation == Isolation
C11_OneAcceptPerSession == OneAcceptPerSession /\ TableConsistent
C11_ForeignNeverCloses == ForeignNeverCloses
=============================================================================
