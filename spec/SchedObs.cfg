SPECIFICATION Spec
INVARIANTS C17_ExactlyOnce C17_NeverEarly C17_Prompt
CHECK_DEADLOCK FALSE
