--------------------------------- MODULE Cfb ---------------------------------
(***************************************************************************)
(* crypt.go encrypt8/16 and decrypt8/16 (C08): the hand-unrolled CFB loops   *)
(* transcribed statement by statement over a symbolic memory.  A memory cell *)
(* (one cipher block, or the tail shorter than a block) holds a TERM of the  *)
(* free XOR algebra: a finite set of atoms under symmetric difference, an    *)
(* atom being a plaintext block <<"P", i>>, the IV, or <<"E", term>> (the     *)
(* block cipher applied to a term).  The model is independent of the cipher   *)
(* and of the data: it decides which register feeds which block, in which     *)
(* order cells are read and overwritten (dst == src aliasing), for every      *)
(* length class (number of 8-block groups, 0..7 left-over blocks, tail or no  *)
(* tail).  The values themselves are compared on the real code with Go's      *)
(* crypto/cipher CFB by the harness.                                          *)
(***************************************************************************)
EXTENDS Integers, Sequences, FiniteSets, TLC

CONSTANTS MaxBlocks      \* full blocks 0..MaxBlocks (17 covers 0,1,2 groups x every `left`)

Xor(a, b) == (a \ b) \cup (b \ a)
E(t) == {<<"E", t>>}
IV == {<<"IV">>}
P(i) == {<<"P", i>>}          \* block i of the input (i = n: the tail)

(* textbook full-block CFB with the fixed IV: C[0] = P[0] xor E(IV), C[i] = P[i] xor E(C[i-1]); the tail uses E(C[n-1]) *)
RECURSIVE TextC(_)
TextC(i) == IF i = 0 THEN Xor(P(0), E(IV)) ELSE Xor(P(i), E(TextC(i - 1)))

(* ------------------------------- encrypt -------------------------------- *)
(* memory: src and dst arrays of n blocks + tail cell (index n) ; aliased: dst is src                              *)
(* one block statement:  XORBytes(d[i], s[i], tbl); block.Encrypt(tbl, d[i])                                       *)
EncBlock(st, i) ==
  LET s  == IF st.aliased THEN st.dst[i + 1] ELSE st.src[i + 1]
      d  == Xor(s, st.tbl)
  IN [st EXCEPT !.dst[i + 1] = d, !.tbl = E(d)]
RECURSIVE EncRun(_, _, _)
EncRun(st, i, k) == IF k = 0 THEN st ELSE EncRun(EncBlock(st, i), i + 1, k - 1)     \* k consecutive block statements from block i

Encrypt(n, tail, aliased) ==
  LET cells == n + (IF tail THEN 1 ELSE 0)
      src0  == [i \in 1..cells |-> P(i - 1)]
      st0   == [src |-> src0, dst |-> IF aliased THEN src0 ELSE [i \in 1..cells |-> {}], tbl |-> E(IV), aliased |-> aliased]
      repeat == n \div 8
      left   == n % 8
      \* the 8x unrolled groups, then the fall-through ladder `case left: ... case 1:` = `left` more block statements
      st1   == EncRun(st0, 0, 8 * repeat)
      st2   == EncRun(st1, 8 * repeat, left)
      \* case 0: XORBytes(dst[base:], src[base:], tbl)  -- the tail (possibly empty)
      st3   == IF tail THEN LET s == IF aliased THEN st2.dst[n + 1] ELSE st2.src[n + 1]
                            IN [st2 EXCEPT !.dst[n + 1] = Xor(s, st2.tbl)]
               ELSE st2
  IN st3.dst

EncryptIsTextbook(n, tail, aliased) ==
  LET out == Encrypt(n, tail, aliased) IN \A i \in 1..Len(out) : out[i] = TextC(i - 1)

(* ------------------------------- decrypt -------------------------------- *)
(* input cells hold the ciphertext C(i) (atoms <<"C", i>>); registers tbl / next alternate                          *)
C(i) == {<<"C", i>>}
(* one block statement of the unrolled loop:  block.Encrypt(R2, s[i]); XORBytes(d[i], s[i], R1)   (R1, R2) = (tbl, next) or swapped *)
DecBlock(st, i) ==
  LET s == IF st.aliased THEN st.dst[i + 1] ELSE st.src[i + 1]       \* read BEFORE d[i] is written (same cell when aliased)
      r2 == E(s)
      d == Xor(s, st.r1)
  IN [st EXCEPT !.dst[i + 1] = d, !.r1 = r2, !.r2 = st.r1]            \* the roles of the two registers swap
RECURSIVE DecRun(_, _, _)
DecRun(st, i, k) == IF k = 0 THEN st ELSE DecRun(DecBlock(st, i), i + 1, k - 1)

Decrypt(n, tail, aliased) ==
  LET cells == n + (IF tail THEN 1 ELSE 0)
      src0  == [i \in 1..cells |-> C(i - 1)]
      st0   == [src |-> src0, dst |-> IF aliased THEN src0 ELSE [i \in 1..cells |-> {}], r1 |-> E(IV), r2 |-> {}, aliased |-> aliased]
      st1   == DecRun(st0, 0, 8 * (n \div 8))
      st2   == DecRun(st1, 8 * (n \div 8), n % 8)
      st3   == IF tail THEN LET s == IF aliased THEN st2.dst[n + 1] ELSE st2.src[n + 1]
                            IN [st2 EXCEPT !.dst[n + 1] = Xor(s, st2.r1)]
               ELSE st2
  IN st3.dst

(* textbook decryption: P[0] = C[0] xor E(IV), P[i] = C[i] xor E(C[i-1]) *)
DecryptIsTextbook(n, tail, aliased) ==
  LET out == Decrypt(n, tail, aliased)
  IN \A i \in 1..Len(out) : out[i] = Xor(C(i - 1), IF i = 1 THEN E(IV) ELSE E(C(i - 2)))

(* decrypt(encrypt(P)) = P follows from the two textbook equalities: substitute C(i) := TextC(i) *)

Cases == [n : 0..MaxBlocks, tail : BOOLEAN, aliased : BOOLEAN]
VARIABLE case
CInit == case \in Cases
CNext == UNCHANGED case
CSpec == CInit /\ [][CNext]_case
Correct == /\ EncryptIsTextbook(case.n, case.tail, case.aliased)
           /\ DecryptIsTextbook(case.n, case.tail, case.aliased)
=============================================================================
