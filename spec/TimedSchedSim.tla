--------------------------- MODULE TimedSchedSim ---------------------------
(* script generation for the C17 driver: behaviours projected to Put (task, relative deadline) and time passing *)
EXTENDS TimedSchedMC, Json
CONSTANT SimDepth
VARIABLE hist
svars == <<vars, hist>>
Ended == hist # <<>> /\ hist[Len(hist)].ev = "end"
SimInit == Init /\ hist = <<>>
SimNext ==
  \/ /\ ~Ended /\ Len(hist) < SimDepth
     /\ \/ Step /\ hist' = hist
        \/ Tick /\ hist' = Append(hist, [ev |-> "tick", t |-> 0, r |-> 0])
        \/ \E t \in Tasks, r \in Rel : Put(t, r) /\ hist' = Append(hist, [ev |-> "put", t |-> t, r |-> r])
  \/ /\ ~Ended /\ Quiescent /\ (Len(hist) = SimDepth \/ now = MaxTime)
     /\ hist' = Append(hist, [ev |-> "end", t |-> 0, r |-> 0]) /\ UNCHANGED vars
SimSpec == SimInit /\ [][SimNext]_svars
EmitBeh == Ended => PrintT(<<"BEH", ToJson([w |-> W, steps |-> SubSeq(hist, 1, Len(hist) - 1),
                                           expect |-> [t \in Tasks |-> [dl |-> dl[t], put |-> putAt[t], at |-> execAt[t], n |-> execN[t]]]])>>)
=============================================================================
