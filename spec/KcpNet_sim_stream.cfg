SPECIFICATION SimSpec
CONSTANTS
  Mod = 0
  Cfg <- CfgStream
  WriteSizes = {1, 20, 40, 100}
  ReadSizes = {16, 64, 200}
  Ticks = {10, 100, 200, 400}
  MaxBytes = 400
  MaxDrop = 4
  MaxDup = 2
  MaxNet = 6
  MaxTime = 10000
  MaxForge = 0
  Writers = {1, 2}
  SnOff <- SnOff00
  ClkOff = 0
  Drive = "free"
  HealEnabled = FALSE
  ReaderPaused <- NoPause
  Forged <- NoForged
  SimDepth = 80
INVARIANTS EmitBeh Prefix MsgPrefix WindowDiscipline OutSizeOK AdmitBelowWindow NoAdmitAfterLoss
CHECK_DEADLOCK FALSE
