--------------------------- MODULE RingBufferTrace ---------------------------
(***************************************************************************)
(* Conformance (code -> model): every recorded operation is taken as the    *)
(* corresponding action of RingBuffer.tla (real constants), and the logged  *)
(* layout (head, tail, slot count, slot contents when logged) must equal    *)
(* the specification's after every step. A mismatch here with RingObs green *)
(* is model drift, not a C20 violation.                                     *)
(***************************************************************************)
EXTENDS RingBuffer, Json
Trace == ndJsonDeserialize("trace.ndjson")
VARIABLE l
tvars == <<vars, l>>

TraceInit == /\ l = 1
             /\ elems = <<0>> /\ head = 0 /\ tail = 0 /\ q = <<>> /\ ret = NoRet /\ aret = NoRet /\ nxt = 1
             /\ act = [op |-> "Init", a |-> 0, b |-> 0]

Reset(e) == /\ elems' = [i \in 1..e.slots |-> 0] /\ head' = e.head /\ tail' = e.head
            /\ q' = <<>> /\ ret' = NoRet /\ aret' = NoRet /\ nxt' = 1
            /\ act' = [op |-> "Init", a |-> 0, b |-> 0]

TraceNext ==
  /\ l <= Len(Trace)
  /\ l' = l + 1
  /\ LET e == Trace[l] IN
       IF e.ev = "reset" THEN Reset(e)
       ELSE CASE e.op = "Push"           -> Push /\ nxt = e.a
              [] e.op = "Pop"            -> Pop
              [] e.op = "Peek"           -> Peek
              [] e.op = "Clear"          -> Clear
              [] e.op = "Discard"        -> Discard(e.a)
              [] e.op = "ForEach"        -> ForEach(e.a, e.b)
              [] e.op = "ForEachReverse" -> ForEachReverse(e.a, e.b)
TraceSpec == TraceInit /\ [][TraceNext]_tvars

Obs == Trace[l - 1]
IsOp == l > 1 /\ Obs.ev = "op"
LayoutConforms == IsOp => /\ Obs.head = head /\ Obs.tail = tail /\ Obs.cap = Cap
SlotsConform   == IsOp /\ Len(Obs.slots) > 0 => Obs.slots = elems
RetConforms    == IsOp => Obs.ret = ret
(* acceptance: every line was consumed (the trace spec never blocks on a well-formed trace) *)
AllConsumed == TLCGet("stats").diameter - 1 = Len(Trace)
=============================================================================
