SPECIFICATION TraceSpec
CONSTANTS
  W = 0
  RingN = 258
  MaxSets = 3
INVARIANTS EmittedConforms DecoderConforms OutputConforms
CHECK_DEADLOCK FALSE
