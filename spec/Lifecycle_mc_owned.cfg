SPECIFICATION LSpec
CONSTANTS
  Sessions = {"cli", "acc", "bkl"}
  MaxTraffic = 3
  OwnC = TRUE
  OwnL = TRUE
PROPERTIES ReleasedHeld
CHECK_DEADLOCK FALSE
