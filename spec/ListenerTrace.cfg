SPECIFICATION TraceSpec
CONSTANTS
  CK = "crc"
  Addrs = {"10.0.1.1:1", "10.0.1.2:2", "10.0.1.3:3"}
  Convs = {11, 22, 33}
  Backlog = 2
  MaxSess = 400
  Classes = {}
INVARIANTS C11_RoutingConforms
CHECK_DEADLOCK FALSE
