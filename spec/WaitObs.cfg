SPECIFICATION Spec
INVARIANTS C13_NoEarlyTimeout C13_TimeoutAtDeadline C13_NoEarlyTimeout_ConcurrentCallers C13_NotBlockedPastDeadline C13_NotBlockedPastDeadline_ConcurrentCallers C13_NothingStranded C13_CloseWakesAll C13_ErrorWakesAll C13_AcceptDeadline C13_AcceptDeadline_ChangedWhileBlocked C13_AfterClose
CHECK_DEADLOCK FALSE
