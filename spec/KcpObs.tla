------------------------------- MODULE KcpObs -------------------------------
(***************************************************************************)
(* Property monitors over traces recorded from real KCP objects (raw core   *)
(* or the core inside a session).  They use only what was observed -- the    *)
(* projected state after each call, return values, emitted datagrams, the    *)
(* admission/loss report of the flush hooks, the harness' content check of   *)
(* bytes returned by Recv -- and the property formulas of KcpCore.tla; they   *)
(* do not depend on KcpCore's transition relation.  Invariant names start     *)
(* with the id of the property they decide.                                   *)
(***************************************************************************)
EXTENDS KcpCore, Json
Trace == ndJsonDeserialize("trace.ndjson")
VARIABLES l,      \* next line
          latch,  \* latch[e]: snd_una of e at its last flush that declared a timeout loss, -1 if none since una moved
          reinfl, \* reinfl[e]: while latched, a later flush of e made a fast/early retransmission
          latched,\* the step just consumed happened while its endpoint was latched and did not move snd_una
          sent,   \* sent[e]: lengths accepted by Send at e (message mode)
          rcnt,   \* rcnt[e]: number of successful Recv at e
          cf      \* configuration of the current trace (reset line)
ovars == <<l, latch, reinfl, latched, sent, rcnt, cf>>

Init == /\ l = 1 /\ latch = [e \in {1, 2} |-> -1] /\ latched = 0 /\ reinfl = [e \in {1, 2} |-> FALSE]
        /\ sent = [e \in {1, 2} |-> <<>>] /\ rcnt = [e \in {1, 2} |-> 0]
        /\ cf = [stream |-> 1, clean |-> FALSE, forged |-> FALSE, nodelay |-> 0]

Next ==
  /\ l <= Len(Trace) /\ l' = l + 1
  /\ LET t == Trace[l] IN
     IF t.ev = "reset"
       THEN /\ latch' = [e \in {1, 2} |-> -1] /\ latched' = 0 /\ reinfl' = [e \in {1, 2} |-> FALSE]
            /\ sent' = [e \in {1, 2} |-> <<>>] /\ rcnt' = [e \in {1, 2} |-> 0]
            /\ cf' = [stream |-> t.cfg.stream, clean |-> t.clean, forged |-> t.forged, nodelay |-> t.cfg.nodelay]
       ELSE
       /\ cf' = cf
       /\ IF t.ev = "op" /\ t.e \in {1, 2} /\ ~t.panic
            THEN LET e == t.e
                     una == t.st.snd_una
                     cur == IF latch[e] # -1 /\ una # latch[e] THEN -1 ELSE latch[e]
                     isl == latch[e] # -1 /\ una = latch[e]
                 IN /\ latched' = (IF isl THEN (IF reinfl[e] THEN 2 ELSE 1) ELSE 0)
                    /\ reinfl' = [reinfl EXCEPT ![e] = IF t.adm.lost > 0 /\ t.adm.nocwnd = 0 THEN FALSE
                                                       ELSE IF ~isl THEN FALSE ELSE @ \/ t.adm.change > 0]
                    /\ latch' = [latch EXCEPT ![e] = IF t.adm.lost > 0 /\ t.adm.nocwnd = 0 THEN una ELSE cur]
                    /\ sent' = IF t.name = "Send" /\ t.ret = 0 THEN [sent EXCEPT ![e] = Append(@, t.a)] ELSE sent
                    /\ rcnt' = IF t.name = "Recv" /\ t.ret >= 0 THEN [rcnt EXCEPT ![e] = @ + 1] ELSE rcnt
            ELSE UNCHANGED <<latch, reinfl, sent, rcnt>> /\ latched' = 0
Spec == Init /\ [][Next]_ovars

Obs == Trace[l - 1]
IsOp    == l > 1 /\ Obs.ev = "op"
IsEndOp == IsOp /\ Obs.e \in {1, 2} /\ ~Obs.panic

(* ---- C01: the reader sees a prefix of what was written ---- *)
(* (genuine peers: traces into which forged segments were injected are not judged by C01/C02) *)
C01_Prefix ==
  IsEndOp /\ Obs.name = "Recv" /\ Obs.ret >= 0 /\ ~cf.forged =>
     /\ Obs.rdok                                          \* the bytes are exactly the next bytes of the peer's stream
     /\ Obs.rdoff + Obs.rdn <= Obs.woff[3 - Obs.e]        \* and had been accepted from the peer's writer
C01_MsgBoundaries ==
  IsEndOp /\ Obs.name = "Recv" /\ Obs.ret >= 0 /\ cf.stream = 0 /\ ~cf.forged =>
     /\ rcnt[Obs.e] <= Len(sent[3 - Obs.e])
     /\ Obs.rdn = sent[3 - Obs.e][rcnt[Obs.e]]

(* ---- C02 / C03: after the network healed (and the reader resumed) everything written is delivered and both   *)
(* backlogs return to zero, within a bound derived from the retransmission / probe timers observed at the heal   *)
(* instant.  The bound is deliberately generous: the failure modes are wedges.                                    *)
IsSettled == l > 1 /\ Obs.ev = "settled" /\ Obs.checked /\ ~Obs.panic
(* known finding C02/Drained_MsgExceedsWindow: in message mode a message with more fragments than the receiver's window *)
(* can never be delivered -- its fragments fill rcv_queue, the last one cannot enter, PeekSize says "incomplete".        *)
OversizeMsgWedge(st) == /\ st.stream = 0 /\ Len(st.rcv_queue) >= st.rcv_wnd
                        /\ \A i \in 1..Len(st.rcv_queue) : st.rcv_queue[i].frg > 0
WedgedByOversizeMsg == OversizeMsgWedge(Obs.end1) \/ OversizeMsgWedge(Obs.end2)
(* known finding C02/Drained_AckedHeadLingers: parse_ack only MARKS a segment as acknowledged; it leaves snd_buf when a later *)
(* packet's una passes it. If the packets that would carry that una are lost during the fault period and neither side has     *)
(* anything left to say afterwards (everything was delivered and read), the marked segment stays for ever: it is never       *)
(* retransmitted (acknowledged segments are skipped), so nothing elicits another una, and WaitSnd() stays > 0. Only this     *)
(* class is listed: all data delivered, send queues empty, every segment left in a send buffer carries the acked mark.      *)
OnlyAckedLeft(st) == /\ st.snd_queue = <<>> /\ \A i \in 1..Len(st.snd_buf) : st.snd_buf[i].acked = 1
AckedHeadLingers == /\ Obs.rdoff[1] = Obs.woff[2] /\ Obs.rdoff[2] = Obs.woff[1]
                    /\ OnlyAckedLeft(Obs.end1) /\ OnlyAckedLeft(Obs.end2)
                    /\ Len(Obs.end1.snd_buf) + Len(Obs.end2.snd_buf) > 0
C02_Drained == IsSettled /\ ~WedgedByOversizeMsg /\ ~AckedHeadLingers => Obs.drained
C02_Drained_MsgExceedsWindow == IsSettled /\ WedgedByOversizeMsg => Obs.drained
C02_Drained_AckedHeadLingers == IsSettled /\ ~WedgedByOversizeMsg /\ AckedHeadLingers => Obs.drained
C02_WithinBound == IsSettled /\ Obs.drained /\ Obs.bounded =>
                     Obs.now - Obs.heal <= HealBound(Obs.heal1, Obs.heal) + HealBound(Obs.heal2, Obs.heal)

(* ---- C04: window discipline ---- *)
C04_RcvQueueBounded == IsEndOp => RcvQueueBounded(Obs.st)
C04_RcvBufBounded   == IsEndOp => RcvBufBounded(Obs.st) /\ RcvBufInWindow(Obs.st) /\ RcvBufNoDup(Obs.st)
C04_SndWindow       == IsEndOp => SndWindowBounded(Obs.st)
C04_TruthfulWnd     == IsEndOp => \A i \in 1..Len(Obs.out) : \A j \in 1..Len(Obs.out[i].segs) :
                                     Obs.out[i].segs[j].wnd <= WndUnused(Obs.st)
C04_AdmitBelowWindow ==
  IsEndOp /\ Obs.adm.n > 0 =>
     Obs.adm.after <= Min(Obs.adm.swnd, Min(Obs.adm.rwnd, IF Obs.adm.nocwnd = 0 THEN Obs.adm.cwnd ELSE Obs.adm.swnd))
(* latched: 0 no, 1 yes, 2 yes and a fast/early retransmission has happened since (the known-finding corner) *)
C04_NoAdmitAfterLoss            == IsEndOp /\ latched = 1 => Obs.adm.n = 0
C04_NoAdmitAfterLoss_Reinflated == IsEndOp /\ latched = 2 => Obs.adm.n = 0

(* ---- C05: no panic ---- *)
C05_NoPanic == IsOp => ~Obs.panic

(* ---- C10 (core): the output callback never gets more than the MTU, nor an empty packet ---- *)
C10_OutSize == IsEndOp => \A i \in 1..Len(Obs.out) : Obs.out[i].size > 0 /\ Obs.out[i].size <= Obs.st.mtu

(* ---- C12: the run shifted in sequence-number / clock space is the unshifted run, shifted ---- *)
(* a "pair" line holds the normalised observations of the same step executed at offset 0 (a) and at the offsets (b) *)
C12_ShiftInvariant == l > 1 /\ Obs.ev = "pair" => Obs.a = Obs.b

(* ---- beyond the list: the counter algebra of the library's SNMP block (README "Monitoring") ---- *)
Snmp_RetransIsSum == IsOp => Obs.snmp.retrans = Obs.snmp.lost + Obs.snmp.fastearly

(* ---- C18 ---- *)
(* the minimum is the CONFIGURED one (30 ms in no-delay mode, 100 ms otherwise), not whatever the object says its minimum is *)
C18_RtoBounds == IsEndOp => RtoBounds(Obs.st) /\ (IF cf.nodelay # 0 THEN RTO_NDL ELSE RTO_MIN) <= Obs.st.rx_rto
C18_NoRetransOnCleanPath ==
  IsEndOp /\ cf.clean => /\ Obs.adm.lost = 0
                         /\ \A i \in 1..Len(Obs.st.snd_buf) : Obs.st.snd_buf[i].xmit <= 1
=============================================================================
