------------------------------- MODULE Frame -------------------------------
(***************************************************************************)
(* The session's framing pipeline (sess.go postProcess / packetInput /      *)
(* kcpInput, Listener.packetInput): what surrounds the KCP segments on the   *)
(* wire and how an incoming datagram is routed.                              *)
(*                                                                         *)
(* Output side: a session with cipher kind CK, FEC ratio (FD, FP) (FD = 0:   *)
(* off) and session MTU turns core outputs (a size <= the core's MTU) and    *)
(* out-of-band requests into datagrams; the FEC stage is Fec!EncodeOp.       *)
(* Properties: C09 (size field, type by position, ids), C10 (length bound    *)
(* including parity, OOB and AEAD overhead), C19 (OOB consumes no id).       *)
(*                                                                         *)
(* Input side: the routing decision as a function from an abstract packet    *)
(* class to an effect class, transcribed branch by branch; properties: C06   *)
(* (integrity failure => no effect but a counter), C19 (OOB never enters      *)
(* FEC or KCP), C11 (when a session is created / reset / left alone).        *)
(***************************************************************************)
EXTENDS Fec, FrameRouting

\* CK (FrameRouting): "nil", "crc" (nonce 16 + CRC32 4), "aead" (nonce 12, tag 16)
CONSTANTS FD, FP,      \* FEC ratio, FD = 0: no FEC
          MTU,         \* session MTU as passed to SetMtu (already capped at 1500)
          CoreSizes,   \* sizes the protocol core may hand to its output callback (a subset of 24..core MTU is chosen in the cfg)
          OOBLens,     \* lengths offered to SendOOB
          MaxOut       \* number of requests

NonceSize == IF CK = "crc" THEN 16 ELSE IF CK = "aead" THEN 12 ELSE 0
CrcSize   == IF CK = "crc" THEN 4 ELSE 0
TagSize   == IF CK = "aead" THEN 16 ELSE 0
FecHdr    == IF FD > 0 THEN 8 ELSE 0                   \* seqid(4) type(2) size(2)
HeaderSize == NonceSize + CrcSize + FecHdr             \* UDPSession.headerSize
CoreMtu   == MTU - HeaderSize - TagSize                \* what SetMtu hands to the core
OOBMax    == CoreMtu - 4                               \* GetOOBMaxSize

VARIABLES enc,      \* the session's FEC encoder (Fec!NewEncoder)
          wire,     \* datagrams emitted so far: [len, kind, seq, size, payload]
          reqs,     \* number of requests served
          lastoob   \* result of the last SendOOB: "none", "sent", "refused"
fvars == <<enc, wire, reqs, lastoob>>

FInit == enc = NewEncoder(IF FD > 0 THEN FD ELSE 1, IF FD > 0 THEN FP ELSE 1, 0) /\ wire = <<>> /\ reqs = 0 /\ lastoob = "none"

(* a core output of s bytes: buffer of s + HeaderSize bytes; FEC data header + parity at group completion; then the cipher *)
CoreOut(s, contiguous) ==
  /\ reqs < MaxOut /\ s >= 24 /\ s <= CoreMtu
  /\ reqs' = reqs + 1 /\ lastoob' = "none"
  /\ IF FD = 0
       THEN /\ wire' = Append(wire, [len |-> s + HeaderSize + TagSize, kind |-> "plain", seq |-> -1, size |-> 0, payload |-> s])
            /\ enc' = enc
       ELSE LET r == EncodeOp(enc, s + HeaderSize, contiguous)     \* the encoder tracks len(b), the whole buffer
                dg(p) == IF p.flag = "data"
                           THEN [len |-> s + HeaderSize + TagSize, kind |-> "data", seq |-> p.seq, size |-> s + 2, payload |-> s]
                           ELSE [len |-> p.size + TagSize, kind |-> "parity", seq |-> p.seq, size |-> 0, payload |-> p.size - (HeaderSize - 2)]
            IN /\ enc' = r.e
               /\ wire' = wire \o [i \in 1..Len(r.out) |-> dg(r.out[i])]

(* SendOOB(n bytes): refused without FEC or when conv(4) + n exceeds the core MTU; never touches the encoder's ids *)
OOB(n) ==
  /\ reqs < MaxOut /\ reqs' = reqs + 1
  /\ IF FD = 0 \/ 4 + n > CoreMtu
       THEN lastoob' = "refused" /\ UNCHANGED <<enc, wire>>
       ELSE /\ lastoob' = "sent" /\ enc' = enc
            /\ wire' = Append(wire, [len |-> 4 + n + HeaderSize + TagSize, kind |-> "oob", seq |-> -1, size |-> 4 + n + 2, payload |-> 4 + n])

FNext == \/ \E s \in CoreSizes, c \in BOOLEAN : CoreOut(s, c)
         \/ \E n \in OOBLens : OOB(n)
FSpec == FInit /\ [][FNext]_fvars

(* ---- output-side properties ---- *)
LenBound == \A i \in 1..Len(wire) : wire[i].len <= MTU /\ wire[i].len > 0                                  \* C10
SizeFieldRule == \A i \in 1..Len(wire) : wire[i].kind \in {"data", "oob"} => wire[i].size = wire[i].payload + 2   \* C09
TypeMatchesPosition == \A i \in 1..Len(wire) :                                                              \* C09
   wire[i].kind \in {"data", "parity"} => ((wire[i].seq % (FD + FP) < FD) <=> wire[i].kind = "data")
IdsDistinct == \A i, j \in 1..Len(wire) : i # j /\ wire[i].seq >= 0 /\ wire[j].seq >= 0 => wire[i].seq # wire[j].seq   \* C09
ParityCoversGroup == \A i \in 1..Len(wire) : wire[i].kind = "parity" =>                                     \* C09/C10
   \A j \in 1..Len(wire) : wire[j].kind = "data" /\ wire[j].seq \div (FD + FP) = wire[i].seq \div (FD + FP) => wire[j].len <= wire[i].len
OOBRefusalRule == lastoob = "refused" <=> (lastoob # "none" /\ lastoob # "sent")                            \* C19 (by construction)
OOBConsumesNoSeqid == [][\A n \in OOBLens : OOB(n) => enc' = enc]_fvars                                      \* C19

=============================================================================
