------------------------------- MODULE Frame -------------------------------
(***************************************************************************)
(* The session's framing pipeline (sess.go postProcess / packetInput /      *)
(* kcpInput, Listener.packetInput): what surrounds the KCP segments on the   *)
(* wire and how an incoming datagram is routed.                              *)
(*                                                                         *)
(* Output side: a session with cipher kind CK, FEC ratio (FD, FP) (FD = 0:   *)
(* off) and session MTU turns core outputs (a size <= the core's MTU) and    *)
(* out-of-band requests into datagrams; the FEC stage is Fec!EncodeOp; the   *)
(* MTU may be changed by SetMtu between any two requests.                    *)
(* Properties: C09 (size field, type by position, ids), C10 (length bound    *)
(* including parity, OOB and AEAD overhead), C19 (OOB consumes no id).       *)
(*                                                                         *)
(* Input side: the routing decision as a function from an abstract packet    *)
(* class to an effect class, transcribed branch by branch; properties: C06   *)
(* (integrity failure => no effect but a counter), C19 (OOB never enters      *)
(* FEC or KCP), C11 (when a session is created / reset / left alone).        *)
(***************************************************************************)
EXTENDS Fec, FrameRouting

\* CK (FrameRouting): "nil", "crc" (nonce 16 + CRC32 4), "aead" (nonce 12, tag 16)
CONSTANTS FD, FP,      \* FEC ratio, FD = 0: no FEC
          MTU,         \* initial session MTU (the library's default is 1400; scaled in the instances)
          MTUs,        \* values passed to SetMtu while traffic flows
          ParityGuard, \* TRUE: the repaired postProcess (a parity shard above the MTU in force is dropped); FALSE: the pinned code
          CoreSizes(_),\* sizes the protocol core may hand to its output callback under core MTU m (a subset of 24..m, chosen in the cfg)
          OOBLens(_),  \* lengths offered to SendOOB when GetOOBMaxSize() = m
          MaxOut       \* number of requests

NonceSize == IF CK = "crc" THEN 16 ELSE IF CK = "aead" THEN 12 ELSE 0
CrcSize   == IF CK = "crc" THEN 4 ELSE 0
TagSize   == IF CK = "aead" THEN 16 ELSE 0
FecHdr    == IF FD > 0 THEN 8 ELSE 0                   \* seqid(4) type(2) size(2)
HeaderSize == NonceSize + CrcSize + FecHdr             \* UDPSession.headerSize
MtuLimit  == 1500
CoreMtuOf(m) == m - HeaderSize - TagSize               \* what SetMtu hands to the core

VARIABLES enc,      \* the session's FEC encoder (Fec!NewEncoder)
          wire,     \* datagrams emitted so far: [len, kind, seq, size, payload, mtu (the session MTU in force at emission)]
          reqs,     \* number of requests served
          lastoob,  \* result of the last SendOOB: "none", "sent", "refused"
          mtu       \* the session MTU in force (UDPSession.mtu / kcp.mtu + overheads)
fvars == <<enc, wire, reqs, lastoob, mtu>>
CoreMtu   == CoreMtuOf(mtu)
OOBMax    == CoreMtu - 4                               \* GetOOBMaxSize

FInit == /\ enc = NewEncoder(IF FD > 0 THEN FD ELSE 1, IF FD > 0 THEN FP ELSE 1, 0) /\ wire = <<>> /\ reqs = 0 /\ lastoob = "none"
         /\ mtu = MTU

(* a core output of s bytes: buffer of s + HeaderSize bytes; FEC data header + parity at group completion; then the cipher. *)
(* A parity shard is as long as the longest data shard of its group -- which may have been sent under a larger MTU.        *)
CoreOut(s, contiguous) ==
  /\ reqs < MaxOut /\ s >= 24 /\ s <= CoreMtu
  /\ reqs' = reqs + 1 /\ lastoob' = "none" /\ mtu' = mtu
  /\ IF FD = 0
       THEN /\ wire' = Append(wire, [len |-> s + HeaderSize + TagSize, kind |-> "plain", seq |-> -1, size |-> 0, payload |-> s, mtu |-> mtu])
            /\ enc' = enc
       ELSE LET r == EncodeOp(enc, s + HeaderSize, contiguous)     \* the encoder tracks len(b), the whole buffer
                dg(p) == IF p.flag = "data"
                           THEN [len |-> s + HeaderSize + TagSize, kind |-> "data", seq |-> p.seq, size |-> s + 2, payload |-> s, mtu |-> mtu]
                           ELSE [len |-> p.size + TagSize, kind |-> "parity", seq |-> p.seq, size |-> 0, payload |-> p.size - (HeaderSize - 2), mtu |-> mtu]
                sent == SelectSeq(r.out, LAMBDA p : p.flag = "data" \/ ~ParityGuard \/ p.size + TagSize <= mtu)
            IN /\ enc' = r.e
               /\ wire' = wire \o [i \in 1..Len(sent) |-> dg(sent[i])]

(* SendOOB(n bytes): refused without FEC or when conv(4) + n exceeds the core MTU; never touches the encoder's ids *)
OOB(n) ==
  /\ reqs < MaxOut /\ reqs' = reqs + 1 /\ mtu' = mtu
  /\ IF FD = 0 \/ 4 + n > CoreMtu
       THEN lastoob' = "refused" /\ UNCHANGED <<enc, wire>>
       ELSE /\ lastoob' = "sent" /\ enc' = enc
            /\ wire' = Append(wire, [len |-> 4 + n + HeaderSize + TagSize, kind |-> "oob", seq |-> -1, size |-> 4 + n + 2, payload |-> 4 + n, mtu |-> mtu])

(* UDPSession.SetMtu(m): capped at 1500; refused when the core would be left with no room for a segment header (KCP.SetMtu); *)
(* the core may also refuse because a queued segment would no longer fit (KcpCore!SetMtuOp) -- the framing model has no queue, *)
(* so that refusal is a nondeterministic alternative.  The FEC encoder is not told: a group may be open.                     *)
SetMtu(m) ==
  /\ reqs < MaxOut /\ reqs' = reqs + 1 /\ UNCHANGED <<enc, wire, lastoob>>
  /\ LET m1 == IF m > MtuLimit THEN MtuLimit ELSE m IN
     \/ CoreMtuOf(m1) > 24 /\ mtu' = m1
     \/ mtu' = mtu

FNext == \/ \E s \in CoreSizes(CoreMtu), c \in BOOLEAN : CoreOut(s, c)
         \/ \E n \in OOBLens(OOBMax) : OOB(n)
         \/ \E m \in MTUs : SetMtu(m)
FSpec == FInit /\ [][FNext]_fvars

(* ---- output-side properties ---- *)
LenBound == \A i \in 1..Len(wire) : wire[i].len <= wire[i].mtu /\ wire[i].len > 0                          \* C10
MtuAccepted == mtu <= MtuLimit /\ CoreMtu > 24                                                             \* C10: an accepted MTU leaves room for a segment
SizeFieldRule == \A i \in 1..Len(wire) : wire[i].kind \in {"data", "oob"} => wire[i].size = wire[i].payload + 2   \* C09
TypeMatchesPosition == \A i \in 1..Len(wire) :                                                              \* C09
   wire[i].kind \in {"data", "parity"} => ((wire[i].seq % (FD + FP) < FD) <=> wire[i].kind = "data")
IdsDistinct == \A i, j \in 1..Len(wire) : i # j /\ wire[i].seq >= 0 /\ wire[j].seq >= 0 => wire[i].seq # wire[j].seq   \* C09
ParityCoversGroup == \A i \in 1..Len(wire) : wire[i].kind = "parity" =>                                     \* C09/C10
   \A j \in 1..Len(wire) : wire[j].kind = "data" /\ wire[j].seq \div (FD + FP) = wire[i].seq \div (FD + FP) => wire[j].len <= wire[i].len
OOBRefusalRule == lastoob = "refused" <=> (lastoob # "none" /\ lastoob # "sent")                            \* C19 (by construction)
OOBConsumesNoSeqid == [][\A n \in OOBLens(OOBMax) : OOB(n) => enc' = enc]_fvars                              \* C19

=============================================================================
