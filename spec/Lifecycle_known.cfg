SPECIFICATION LSpec
CONSTANTS
  Sessions = {"cli", "acc", "bkl"}
  MaxTraffic = 3
PROPERTIES ReleasedAll
CHECK_DEADLOCK FALSE
