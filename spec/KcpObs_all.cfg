SPECIFICATION Spec
CONSTANT Mod = 0
INVARIANTS C02_Drained C02_Drained_MsgExceedsWindow C02_Drained_AckedHeadLingers C02_WithinBound C01_Prefix C01_MsgBoundaries C04_RcvQueueBounded C04_RcvBufBounded C04_SndWindow C04_TruthfulWnd C04_AdmitBelowWindow C04_NoAdmitAfterLoss C04_NoAdmitAfterLoss_Reinflated C05_NoPanic C10_OutSize C18_RtoBounds C18_NoRetransOnCleanPath
CHECK_DEADLOCK FALSE
