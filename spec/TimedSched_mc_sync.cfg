SPECIFICATION Spec
CONSTANTS
  W = 2
  MaxTasks = 3
  Rel <- RelA
  MaxTime = 4
  AsyncChan = FALSE
INVARIANTS ExactlyOnceSoFar NeverEarly Prompt Covered NoStuckDrain ExactTime
CHECK_DEADLOCK FALSE
