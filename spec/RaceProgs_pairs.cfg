\* every unordered pair of methods: the initial states (Next disabled by the constraint)
SPECIFICATION Spec
INVARIANT Emit
CONSTRAINT PairsOnly
CHECK_DEADLOCK FALSE
