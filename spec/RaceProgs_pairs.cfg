\* every unordered pair of methods: the initial states (Next disabled by the constraint); one rotating cipher/FEC class and target per pair
SPECIFICATION Spec
CONSTANT AllCombos = FALSE
INVARIANT Emit
CONSTRAINT PairsOnly
CHECK_DEADLOCK FALSE
