---------------------------- MODULE KcpCoreTrace ----------------------------
(***************************************************************************)
(* Conformance (code -> model) for the protocol core: every line recorded   *)
(* from a real KCP object (API call with arguments, virtual time, the       *)
(* datagram fed to Input) is taken as the corresponding operator of          *)
(* KcpCore.tla; the logged return value, emitted datagrams (every header     *)
(* field) and the full projected state must equal the specification's after  *)
(* every step.  A mismatch here with the KcpObs monitors green is model      *)
(* drift, not a property violation.                                          *)
(***************************************************************************)
EXTENDS KcpCore, Json
Trace == ndJsonDeserialize("trace.ndjson")
VARIABLES kk, l, ret, out, cf
tvars == <<kk, l, ret, out, cf>>

Configure(c, e) ==
  LET k0 == NewKCP(7)
      k1 == IF SetMtuOp(k0, c.mtu).ret = 0 THEN SetMtuOp(k0, c.mtu).k ELSE k0
      k2 == WndSizeOp(k1, c.sndwnd, c.rcvwnd)
      k3 == NoDelayOp(k2, c.nodelay, c.interval, c.resend, c.nc)
  IN [k3 EXCEPT !.stream = c.stream]

WithOff(dg) == [segs |-> [i \in 1..Len(dg.segs) |->
                   LET s == dg.segs[i] IN
                   [cmd |-> s.cmd, frg |-> s.frg, wnd |-> s.wnd, ts |-> s.ts, sn |-> s.sn, una |-> s.una,
                    len |-> s.len, off |-> 0, bad |-> s.bad]],
                short |-> dg.short]

TraceInit == /\ l = 1 /\ ret = 0 /\ out = <<>> /\ cf = [acknodelay |-> 0]
             /\ kk = [e \in {1, 2} |-> NewKCP(7)]

TraceNext ==
  /\ l <= Len(Trace)
  /\ l' = l + 1
  /\ LET t == Trace[l] IN
     IF t.ev = "reset"
       THEN kk' = [e \in {1, 2} |-> Configure(t.cfg, e)] /\ ret' = 0 /\ out' = <<>> /\ cf' = t.cfg
       ELSE IF t.ev # "op" THEN UNCHANGED <<kk, cf>> /\ ret' = 0 /\ out' = <<>>
       ELSE
       LET e == t.e
           c == cf
       IN /\ cf' = cf
          /\ CASE t.name = "Send" ->
                 LET r == SendOp(kk[e], t.a) IN kk' = [kk EXCEPT ![e] = r.k] /\ ret' = r.ret /\ out' = <<>>
               [] t.name = "Recv" ->
                 LET r == RecvOp(kk[e], t.a) IN kk' = [kk EXCEPT ![e] = r.k] /\ ret' = r.ret /\ out' = <<>>
               [] t.name = "Flush" ->
                 LET r == FlushOp(kk[e], t.now, TRUE) IN kk' = [kk EXCEPT ![e] = r.k] /\ ret' = r.ret /\ out' = r.out
               [] t.name = "Update" ->
                 LET r == UpdateOp(kk[e], t.now) IN kk' = [kk EXCEPT ![e] = r.k] /\ ret' = CheckOp(r.k, t.now) /\ out' = r.out
               [] t.name \in {"Deliver", "Forge", "Input"} ->
                 LET r == InputOp(kk[e], WithOff(t.in), TRUE, c.acknodelay = 1, t.now)
                 IN kk' = [kk EXCEPT ![e] = r.k] /\ ret' = r.ret /\ out' = r.out
               [] OTHER -> UNCHANGED kk /\ ret' = 0 /\ out' = <<>>
TraceSpec == TraceInit /\ [][TraceNext]_tvars

(* the specification's state in the shape the harness logs *)
ProjK(k) ==
  [conv |-> k.conv, mtu |-> k.mtu, mss |-> k.mss, state |-> k.state,
   snd_una |-> k.snd_una, snd_nxt |-> k.snd_nxt, rcv_nxt |-> k.rcv_nxt,
   ssthresh |-> k.ssthresh, rx_rttvar |-> k.rx_rttvar, rx_srtt |-> k.rx_srtt, rx_rto |-> k.rx_rto, rx_minrto |-> k.rx_minrto,
   snd_wnd |-> k.snd_wnd, rcv_wnd |-> k.rcv_wnd, rmt_wnd |-> k.rmt_wnd, cwnd |-> k.cwnd, incr |-> k.incr,
   probe |-> k.probe, ts_probe |-> k.ts_probe, probe_wait |-> k.probe_wait,
   interval |-> k.interval, ts_flush |-> k.ts_flush, nodelay |-> k.nodelay, updated |-> k.updated,
   dead_link |-> k.dead_link, fastresend |-> k.fastresend, nocwnd |-> k.nocwnd, stream |-> k.stream,
   snd_queue |-> [i \in 1..Len(k.snd_queue) |-> [frg |-> k.snd_queue[i].frg, len |-> k.snd_queue[i].len]],
   snd_buf |-> [i \in 1..Len(k.snd_buf) |-> LET s == k.snd_buf[i] IN
                  [sn |-> s.sn, frg |-> s.frg, len |-> s.len, acked |-> s.acked, xmit |-> s.xmit, rto |-> s.rto,
                   resendts |-> s.resendts, fastack |-> s.fastack, ts |-> s.ts]],
   rcv_buf |-> [i \in 1..Len(k.rcv_buf) |-> [sn |-> k.rcv_buf[i].sn, frg |-> k.rcv_buf[i].frg, len |-> k.rcv_buf[i].len]],
   rcv_queue |-> [i \in 1..Len(k.rcv_queue) |-> [sn |-> k.rcv_queue[i].sn, frg |-> k.rcv_queue[i].frg, len |-> k.rcv_queue[i].len]],
   acklist |-> k.acklist]

ProjOut(o) == [i \in 1..Len(o) |->
                 [segs |-> [j \in 1..Len(o[i].segs) |-> LET s == o[i].segs[j] IN
                              [cmd |-> s.cmd, frg |-> s.frg, wnd |-> s.wnd, ts |-> s.ts, sn |-> s.sn, una |-> s.una,
                               len |-> s.len, bad |-> s.bad]],
                  size |-> o[i].size]]

Obs == Trace[l - 1]
IsEndOp == l > 1 /\ Obs.ev = "op" /\ Obs.e \in {1, 2} /\ ~Obs.panic
(* on a mismatch the differing fields are printed (expected = specification, observed = code) *)
DiffFields == LET p == ProjK(kk[Obs.e]) IN
              { <<f, "spec", p[f], "code", Obs.st[f]>> : f \in {g \in DOMAIN p : g \notin DOMAIN Obs.st \/ Obs.st[g] # p[g]} }
StateConforms == IsEndOp => (Obs.st = ProjK(kk[Obs.e]) \/ ~PrintT(<<"DIFF", l - 1, DiffFields>>))
(* the library's process-wide SNMP counters grow exactly as the specification's history counters of the two endpoints do *)
SnmpOf == [lost |-> kk[1].lost + kk[2].lost, retrans |-> kk[1].retrans + kk[2].retrans, repeat |-> kk[1].repeat + kk[2].repeat]
SnmpConforms  == IsEndOp => (/\ Obs.snmp.lost = SnmpOf.lost /\ Obs.snmp.retrans = SnmpOf.retrans /\ Obs.snmp.repeat = SnmpOf.repeat)
                            \/ ~PrintT(<<"SNMP", l - 1, SnmpOf, Obs.snmp>>)
RetConforms   == IsEndOp => Obs.ret = ret
OutConforms   == IsEndOp => Obs.out = ProjOut(out)
=============================================================================
