\* deeper scaled instance: more pushes, larger rings, all head offsets of 2- and 4-slot rings
SPECIFICATION Spec
CONSTANTS
  MinCap = 4
  ExpCap = 8
  MaxSlots = 12
  MaxPush = 9
  Mut = 100
  InitLayouts <- LayoutsMid
INVARIANTS TypeOK Refines LenRefines RetRefines DeadSlotsZero ObserversOK
CHECK_DEADLOCK FALSE
